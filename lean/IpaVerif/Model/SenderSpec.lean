import IpaVerif.Model.OrderingSender
import IpaVerif.Model.QueueSpec
/-!
Specification of the ordered send buffer at poll level: a FIFO byte queue, the index `next` of the
only message allowed to be written, and the set of parked polls (who must be woken when what they
wait for happens).  No ring buffer, no shards.  `OrderingSender` is proved to refine it
(`IpaVerif.C14.sender_refines_spec`); it is also the oracle of suite `c14_sender`.  Import-free.
-/
namespace IpaVerif.OrderingSender

structure Spec where
  cap : Nat
  ws : Nat
  rs : Nat
  next : Nat := 0
  q : List Nat := []
  closed : Bool := false
  /-- latest waker parked for an index that is not `next` yet -/
  idxWait : List (Nat × Task) := []
  /-- waker of the writer of index `next` that found the buffer full -/
  fullWait : Option Task := none
  /-- waker of the stream that found less than `rs` bytes -/
  readWait : Option Task := none

namespace Spec

def canRead (s : Spec) : Bool := decide ((s.closed = true ∧ s.q ≠ []) ∨ s.rs ≤ s.q.length)
def canWrite (s : Spec) : Bool := decide (s.closed = false ∧ s.ws ≤ s.cap - s.q.length)

def park (s : Spec) (i : Nat) (t : Task) : Spec :=
  { s with idxWait := (i, t) :: s.idxWait.filter (fun p => p.1 != i) }

def parkedAt (s : Spec) (i : Nat) : List Task :=
  (s.idxWait.filter (fun p => p.1 == i)).map (·.2)

/-- One poll: `none` = panic; otherwise the new state, the visible result and the wakers that MUST
be woken by this poll (the polls that have just become able to make progress). -/
def step (s : Spec) : Op → Option (Spec × Res × List Task)
  | .pollSend t i m =>
    if i < s.next then none
    else if i = s.next then
      if s.closed then none
      else if !s.canWrite then some ({ s with fullWait := some t }, .pending, [])
      else if m.length ≠ s.ws then none
      else
        let s1 := { s with q := s.q ++ m, next := s.next + 1 }
        let wr := if s1.canRead then s.readWait.toList else []
        some ({ s1 with readWait := if s1.canRead then none else s.readWait,
                        idxWait := s.idxWait.filter (fun p => p.1 != i + 1) },
              .ready, s.parkedAt (i + 1) ++ wr)
    else some (s.park i t, .pending, [])
  | .pollClose t i =>
    if i < s.next then none
    else if i = s.next then
      if s.closed then none
      else some ({ s with closed := true, next := s.next + 1, readWait := none }, .ready, s.readWait.toList)
    else some (s.park i t, .pending, [])
  | .pollTake t =>
    if s.canRead then
      let n := min s.rs s.q.length
      some ({ s with q := s.q.drop n, fullWait := if s.canWrite then s.fullWait else none },
            .chunk (s.q.take n), if s.canWrite then [] else s.fullWait.toList)
    else
      some ({ s with readWait := some t }, if s.closed then .finished else .pending, [])

def run (s : Spec) : List Op → List (Option (Res × List Task))
  | [] => []
  | op :: rest =>
    match s.step op with
    | none => [none]
    | some (s', r, w) => some (r, w) :: run s' rest

end Spec
end IpaVerif.OrderingSender
