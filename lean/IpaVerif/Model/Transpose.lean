import IpaVerif.Model.Util
import IpaVerif.Generated.C09Transpose
/-!
Executable model of `ipa-core/src/secret_sharing/vector/transpose.rs` (property C09):
the Hacker's-Delight kernels `transpose_8x8` / `transpose_16x16` on 64-bit words with the masks and
shifts regenerated from the source, and the tiling drivers `impl_transpose_8!`,
`impl_transpose_8_pad!`, `impl_transpose_16!` / `do_transpose_16` generically over (rows, cols).

A bit matrix is a list of rows, each row a list of bytes (`as_raw_slice()` of a `BA{n}` or of one
half of an `AdditiveShare<Boolean, N>`): column `c` of a row is bit `c % 8` of byte `c / 8`.
-/
namespace IpaVerif.Transpose
open IpaVerif.Util
open IpaVerif.Generated.Transpose

abbrev W := BitVec 64

/-- `x & M | ((x & m) << s) | (x >> s) & m` (Rust precedence: `&` binds tighter than `|`). -/
def ds (M m : W) (s : Nat) (x : W) : W := x &&& M ||| ((x &&& m) <<< s) ||| ((x >>> s) &&& m)

def dsStages (st : List (Nat × Nat × Nat)) (x : W) : W :=
  st.foldl (fun x (t : Nat × Nat × Nat) => ds (BitVec.ofNat 64 t.1) (BitVec.ofNat 64 t.2.1) t.2.2 x) x

/-- the `u64` part of `transpose_8x8` -/
def t8 (x : W) : W := dsStages t8Stages x

abbrev W4 := Fin 4 → W

def listW (l : List Nat) (i : Fin 4) : W := BitVec.ofNat 64 (l.getD i.val 0)
def swpIdx (i : Fin 4) : Fin 4 := ⟨t16Swp.getD i.val 0 % 4, Nat.mod_lt _ (by decide)⟩

def t16y1 (x : W4) : W4 := fun i =>
  ds (BitVec.ofNat 64 t16M1) (BitVec.ofNat 64 t16m1) t16s1
    (ds (BitVec.ofNat 64 t16M0) (BitVec.ofNat 64 t16m0) t16s0 (x i))

/-- `y2[i] = y1[i] & m2a[i] | (y1_swp[i] << s2) & m2b[i] | ((y1_swp[i] & m2c[i]) >> s2)` -/
def mix2 (A B C : W) (s : Nat) (p q : W) : W := p &&& A ||| (q <<< s) &&& B ||| ((q &&& C) >>> s)

def t16y2 (y1 : W4) : W4 := fun i =>
  mix2 (listW t16m2a i) (listW t16m2b i) (listW t16m2c i) t16s2 (y1 i) (y1 (swpIdx i))

/-- `y3[i] = y2[i] & L | ((y2[i+2] & L) << 8)`; `y3[i+2] = ((y2[i] & H) >> 8) | y2[i+2] & H` -/
def lo3 (L : W) (s : Nat) (p q : W) : W := p &&& L ||| ((q &&& L) <<< s)
def hi3 (H : W) (s : Nat) (p q : W) : W := ((p &&& H) >>> s) ||| q &&& H

def t16y3 (y2 : W4) : W4 := fun i =>
  if i.val < 2 then lo3 (BitVec.ofNat 64 t16L) t16s3 (y2 i) (y2 (i + 2))
  else hi3 (BitVec.ofNat 64 t16H) t16s3 (y2 (i + 2)) (y2 i)

/-- the `[u64; 4]` part of `transpose_16x16` -/
def t16 (x : W4) : W4 := t16y3 (t16y2 (t16y1 x))

/-! ### byte level -/

/-- `transpose_8x8`: `u64::from_le_bytes`, kernel, `to_le_bytes`. -/
def transpose8x8 (m : List Nat) : List Nat :=
  leBytes (t8 (BitVec.ofNat 64 (ofLeBytes (m.take 8)))).toNat 8

/-- word index of bit `n` of a `[u64; 4]` -/
def wOf (n : Nat) : Fin 4 := ⟨n / 64 % 4, Nat.mod_lt _ (by decide)⟩

/-- `transpose_16x16`: four little-endian `u64`s in (`x[i] = from_le_bytes(src[8i..8i+8])`), four out
(`dst[8i..8i+8] = y3[i].to_le_bytes()`): output byte `B` is byte `B % 8` of word `B / 8`. -/
def transpose16x16 (m : List Nat) : List Nat :=
  let x : W4 := fun i => BitVec.ofNat 64 (ofLeBytes ((m.drop (8 * i.val)).take 8))
  let y := t16 x
  let ys : List (List Nat) := [leBytes (y 0).toNat 8, leBytes (y 1).toNat 8, leBytes (y 2).toNat 8, leBytes (y 3).toNat 8]
  (List.range 32).map (fun B => (ys.getD (wOf (8 * B)).val []).getD (B % 8) 0)

abbrev Rows := List (List Nat)

/-- byte `j` of row `r`; rows beyond the end read as the all-zero pad value (`unwrap_or($pad_value)`). -/
def getByte (m : Rows) (r j : Nat) : Nat := (m.getD r []).getD j 0

/-- bit (r, c) of a row-major little-endian bit matrix -/
def bitAt (m : Rows) (r c : Nat) : Bool := (getByte m r (c / 8)).testBit (c % 8)

/-- the 8 bytes `m[k] = src[8*i + k].as_raw_slice()[j]` -/
def tile8 (m : Rows) (i j : Nat) : List Nat := (List.range 8).map (fun k => getByte m (8 * i + k) j)

/-- the 32 bytes `m[2k..2k+2] = src[16*i + k].as_raw_slice()[2j..2j+2]` -/
def tile16 (m : Rows) (i j : Nat) : List Nat :=
  (List.range 32).map (fun B => getByte m (16 * i + B / 2) (2 * j + B % 2))

/-- `impl_transpose_8!` / `impl_transpose_8_pad!`: `ti × tj` tiles of the source; destination row
`8*j + k` byte `i` receives byte `k` of the transposed tile (i, j). Each destination byte is written by
exactly one loop iteration, so the destination is given row by row; the transposed tiles are computed
once (`tiles[i * tj + j]`). -/
def tiled8 (m : Rows) (ti tj : Nat) : Rows :=
  let tiles : Array (List Nat) :=
    ((List.range (ti * tj)).map (fun t => transpose8x8 (tile8 m (t / tj) (t % tj)))).toArray
  (List.range (8 * tj)).map (fun r =>
    (List.range ti).map (fun i => (tiles[i * tj + r / 8]?.getD []).getD (r % 8) 0))

/-- `impl_transpose_16!` / `do_transpose_16`: destination row `16*j + k`, bytes `2i, 2i+1`. -/
def tiled16 (m : Rows) (ti tj : Nat) : Rows :=
  let tiles : Array (List Nat) :=
    ((List.range (ti * tj)).map (fun t => transpose16x16 (tile16 m (t / tj) (t % tj)))).toArray
  (List.range (16 * tj)).map (fun r =>
    (List.range (2 * ti)).map (fun b =>
      (tiles[b / 2 * tj + r / 16]?.getD []).getD (2 * (r % 16) + b % 2) 0))

/-- Transpose of a `rows × cols` matrix with the kernel the macro uses (`16`, `8`, or `0` = the padded
8x8 variant followed by the shim's `truncate($src_cols)`). -/
def transposeImpl (kernel rows cols : Nat) (m : Rows) : Rows :=
  if kernel = 16 then tiled16 m (rows / 16) (cols / 16)
  else if kernel = 8 then tiled8 m (rows / 8) (cols / 8)
  else (tiled8 m ((rows + 7) / 8) ((cols + 7) / 8)).take cols

/-- reference: `refT m i j = m j i`, as `cols` rows of `⌈rows/8⌉` bytes (array-based, for speed) -/
def refT (m : Rows) (rows cols : Nat) : Rows :=
  let a : Array (Array Nat) := (m.map List.toArray).toArray
  let bit := fun (r c : Nat) => (((a[r]?.getD #[])[c / 8]?.getD 0)).testBit (c % 8)
  (List.range cols).map (fun r =>
    (List.range ((rows + 7) / 8)).map (fun i =>
      (List.range 8).foldr (fun b acc => (if 8 * i + b < rows && bit (8 * i + b) r then 1 else 0) + 2 * acc) 0))

end IpaVerif.Transpose
