import IpaVerif.Generated.Dzkp
/-!
Executable model of the intermediate store of the DZKP validator (`protocol/context/dzkp_validator.rs`):
`Segment::from_entries`, `MultiplicationInputsBatch::{new, insert_segment, insert_segment_small,
insert_segment_large, get_number_of_multiplications}`, `Batch::{new, push, is_empty}`.

A 256-bit `Array256Bit` is a `Nat` (bit `j` = `testBit j`); a segment entry of width `w` is a `Nat` below `2^w`.
Panics (assertions, debug assertions — the harness runs a debug build) are explicit outcomes.
Import-free (core only).
-/
namespace IpaVerif.DzkpStore
open IpaVerif.Generated.Dzkp

inductive Outcome (α : Type) where
  | ok : α → Outcome α
  | panic : String → Outcome α
  deriving Repr

/-- the seven entries of a `Segment`, each `width` bits wide. -/
structure Segment where
  width : Nat
  xl : Nat
  xr : Nat
  yl : Nat
  yr : Nat
  pl : Nat
  pr : Nat
  zr : Nat
  deriving Repr

def zeroBlock : Block := { xl := 0, xr := 0, yl := 0, yr := 0, pl := 0, pr := 0, zr := 0 }

/-- `array[pos..pos+w].clone_from_bitslice(v)`: overwrite `w` bits at `pos`. -/
def setBits (b pos w v : Nat) : Nat :=
  (b ^^^ (((b >>> pos) % 2 ^ w) <<< pos)) ||| ((v % 2 ^ w) <<< pos)

def blockSetAll (b : Block) (pos w : Nat) (s : Segment) (shift : Nat) : Block :=
  { xl := setBits b.xl pos w (s.xl >>> shift), xr := setBits b.xr pos w (s.xr >>> shift),
    yl := setBits b.yl pos w (s.yl >>> shift), yr := setBits b.yr pos w (s.yr >>> shift),
    pl := setBits b.pl pos w (s.pl >>> shift), pr := setBits b.pr pos w (s.pr >>> shift),
    zr := setBits b.zr pos w (s.zr >>> shift) }

/-- `usize::next_power_of_two`. -/
def nextPow2 (n : Nat) : Nat := if n ≤ 1 then 1 else 2 ^ (Nat.log2 (n - 1) + 1)

/-- `vec.resize_with(n, default)` when `vec.len() < n`. -/
def growTo (vec : List Block) (n : Nat) : List Block := vec ++ List.replicate (n - vec.length) zeroBlock

/-- `insert_segment_small` (segment width `< 256`); `id` = record id within the batch. -/
def insertSmall (vec : List Block) (id : Nat) (s : Segment) : List Block :=
  let length := nextPow2 s.width
  let blockId := (length * id) >>> 8
  let pos := (length * id) % 256
  let vec := growTo vec (blockId + 1)
  vec.set blockId (blockSetAll (vec.getD blockId zeroBlock) pos s.width s 0)

/-- `insert_segment_large` (width a multiple of 256): whole blocks are overwritten / appended. -/
def insertLarge (vec : List Block) (id : Nat) (s : Segment) : List Block :=
  let blockId := (s.width * id) >>> 8
  let nblocks := s.width >>> 8
  let vec := growTo vec blockId
  (List.range nblocks).foldl (fun v i =>
    let blk := blockSetAll zeroBlock 0 256 s (256 * i)
    if v.length > blockId + i then v.set (blockId + i) blk else v ++ [blk]) vec

structure Store where
  first : Option Nat
  max : Nat
  width : Nat
  vec : List Block

/-- the `debug_assert!`s of `Segment::from_entries` (entries have one common length by construction here). -/
def segmentOk (s : Segment) : Bool := s.width ≤ 256 || s.width % 256 == 0

/-- `MultiplicationInputsBatch::insert_segment`. -/
def Store.insert (st : Store) (record : Nat) (s : Segment) : Outcome Store :=
  if s.width ≠ st.width then .panic "assertion `left == right` failed" else
  let first := st.first.getD record
  if record < first then .panic "record_id out of range in insert_segment" else
  if ¬ (record < st.max + first) then .panic "record_id out of range in insert_segment" else
  let id := record - first
  .ok { st with first := some first,
                vec := if s.width < 256 then insertSmall st.vec id s else insertLarge st.vec id s }

structure Batch where
  max : Nat
  first : Option Nat
  /-- `BTreeMap<Gate, MultiplicationInputsBatch>`: kept sorted by gate string -/
  inner : List (String × Store)

def insertSorted (g : String) (st : Store) : List (String × Store) → List (String × Store)
  | [] => [(g, st)]
  | (h, s) :: rest => if g < h then (g, st) :: (h, s) :: rest else if g = h then (g, st) :: rest
                      else (h, s) :: insertSorted g st rest

/-- `Batch::push`; `usize` saturating arithmetic is not modelled beyond `max` being a natural number. -/
def Batch.push (b : Batch) (g : String) (record : Nat) (s : Segment) : Outcome Batch :=
  if ¬ segmentOk s then .panic "needs to be smaller or a multiple of 256" else
  let st := ((b.inner.find? (·.1 == g)).map (·.2)).getD { first := b.first, max := b.max, width := s.width, vec := [] }
  match st.insert record s with
  | .ok st' => .ok { b with inner := insertSorted g st' b.inner }
  | .panic m => .panic m

def Batch.numberOfMultiplications (b : Batch) : Nat := (b.inner.map fun (_, s) => s.vec.length * 256).foldl (· + ·) 0
def Batch.isEmpty (b : Batch) : Bool := b.inner.all fun (_, s) => s.vec.isEmpty

/-- bit `n` (global position over the concatenated blocks) of field `f` of a store. -/
def storeBit (vec : List Block) (f : Block → Nat) (n : Nat) : Bool := (f (vec.getD (n / 256) zeroBlock)).testBit (n % 256)

end IpaVerif.DzkpStore
