import IpaVerif.Model.Util
/-!
Plaintext model of `hybrid_protocol` (ipa-core/src/protocol/hybrid/{mod,oprf,agg,breakdown_reveal}.rs,
ipa_prf/aggregation/mod.rs, basics/shard_fin.rs) and the in-the-clear specification of property C01.

A record is an `IndistinguishableHybridReport`: an impression has `v = 0`, a conversion has `bk = 0`.
Secure-computation stages are modelled by the plaintext functions they compute (that they do is
property C07); shuffles, the PRF, dummy records and shard assignment are explicit arguments.
-/
namespace IpaVerif.Hybrid

structure Rec where
  key : Nat
  bk : Nat
  v : Nat
  deriving DecidableEq, Repr

structure Widths where
  bkW : Nat
  vW : Nat
  hvW : Nat
  /-- number of buckets, `2^bkW` in the code -/
  buckets : Nat
  deriving Repr

/-- A row after `aggregate_reports`: (breakdown key, value). -/
abbrev Row := Nat × Nat

/-! ## Specification (written from the statement of C01) -/

def keyRows (input : List Rec) (k : Nat) : List Rec := input.filter (fun r => r.key == k)

/-- What a match key adds to bucket `b`: the two reports' value sum (wrapping at the value width) if the
key occurs in exactly two reports and the breakdown keys sum (wrapping at the key width) to `b`. -/
def keyBucketValue (w : Widths) (input : List Rec) (k b : Nat) : Nat :=
  match keyRows input k with
  | [r1, r2] => if (r1.bk + r2.bk) % 2 ^ w.bkW = b then (r1.v + r2.v) % 2 ^ w.vW else 0
  | _ => 0

/-- keys of the input without repetition (first occurrence order from the right). -/
def dedupKeys : List Nat → List Nat
  | [] => []
  | k :: ks => if k ∈ dedupKeys ks then dedupKeys ks else k :: dedupKeys ks

def specBucket (w : Widths) (input : List Rec) (b : Nat) : Nat :=
  min (((dedupKeys (input.map (·.key))).map (fun k => keyBucketValue w input k b)).sum) (2 ^ w.hvW - 1)

def spec (w : Widths) (input : List Rec) : List Nat :=
  (List.range w.buckets).map (specBucket w input)

/-! ## Model of the code -/

/-- `MatchEntry` of agg.rs. -/
inductive Entry where
  | single (r : Rec)
  | pair (r1 r2 : Rec)
  | moreThanTwo
  deriving Repr

def Entry.add (e : Entry) (r : Rec) : Entry :=
  match e with
  | .single old => .pair old r
  | .pair _ _ => .moreThanTwo
  | .moreThanTwo => .moreThanTwo

def Entry.intoPair : Entry → Option (Rec × Rec)
  | .pair a b => some (a, b)
  | _ => none

/-- `BTreeMap<u64, MatchEntry>::entry(k).and_modify(add_report).or_insert(Single)` on a key-sorted association list. -/
def upsert (k : Nat) (r : Rec) : List (Nat × Entry) → List (Nat × Entry)
  | [] => [(k, .single r)]
  | (k', e) :: rest =>
    if k < k' then (k, .single r) :: (k', e) :: rest
    else if k = k' then (k', e.add r) :: rest
    else (k', e) :: upsert k r rest

/-- `group_report_pairs_ordered`: reports carry their PRF pseudonym. Output in pseudonym order. -/
def groupPairs (reports : List (Nat × Rec)) : List (Rec × Rec) :=
  (reports.foldl (fun m (kr : Nat × Rec) => upsert kr.1 kr.2 m) []).filterMap (fun ke => ke.2.intoPair)

/-- the two `integer_add`s of `aggregate_reports` (carry dropped). -/
def addPair (w : Widths) (p : Rec × Rec) : Row :=
  ((p.1.bk + p.2.bk) % 2 ^ w.bkW, (p.1.v + p.2.v) % 2 ^ w.vW)

def aggregateReports (w : Widths) (reports : List (Nat × Rec)) : List Row :=
  (groupPairs reports).map (addPair w)

/-- saturating addition at the output width. -/
def satAdd (m a b : Nat) : Nat := min (a + b) m

/-- One level of `aggregate_values`: consecutive pairs are added, an odd last element passes through. -/
def aggLevel (m : Nat) : List Nat → List Nat
  | a :: b :: rest => satAdd m a b :: aggLevel m rest
  | l => l

/-- `aggregate_values` on one bucket column (fuel = number of rows suffices). -/
def aggTree (m : Nat) : Nat → List Nat → Nat
  | _, [] => 0
  | _, [a] => min a m
  | 0, a :: _ => min a m
  | fuel + 1, l => aggTree m fuel (aggLevel m l)

/-- `ValueHistogram`: per bucket the list of values pushed, in arrival order. -/
def bucketValues (rows : List Row) (b : Nat) : List Nat := (rows.filter (fun r => r.1 == b)).map (·.2)

/-- `From<ValueHistogram>`: row `j` takes `tvs[b].pop()` (i.e. from the end) or zero; as a column for
bucket `b` this is the reversed value list padded with zeros to `max_len`. -/
def column (rows : List Row) (maxLen b : Nat) : List Nat :=
  let vs := (bucketValues rows b).reverse
  vs ++ List.replicate (maxLen - vs.length) 0

def maxLen (w : Widths) (rows : List Row) : Nat :=
  (List.range w.buckets).foldl (fun acc b => max acc (bucketValues rows b).length) 0

def chunks (n : Nat) : Nat → List Nat → List (List Nat)
  | _, [] => []
  | 0, l => [l]
  | fuel + 1, l => l.take n :: chunks n fuel (l.drop n)

/-- the outer `while intermediate_results.len() > 1` loop of `breakdown_reveal_aggregation` on one column. -/
def chunkedAgg (m chunk : Nat) : Nat → List Nat → Nat
  | _, [] => 0
  | _, [a] => min a m
  | 0, a :: _ => min a m
  | fuel + 1, l => chunkedAgg m chunk fuel ((chunks (max chunk 2) l.length l).map (fun c => aggTree m c.length c))

/-- per-shard histogram after `breakdown_reveal_aggregation`. -/
def shardHistogram (w : Widths) (chunk : Nat) (rows : List Row) : List Nat :=
  let m := 2 ^ w.hvW - 1
  let ml := maxLen w rows
  (List.range w.buckets).map (fun b => let c := column rows ml b; chunkedAgg m chunk c.length c)

/-- `Histogram::merge` fold of the finalizer (leader adds the followers' histograms with saturation). -/
def finalize (w : Widths) (hists : List (List Nat)) : List Nat :=
  let m := 2 ^ w.hvW - 1
  hists.foldl (fun acc h => (List.range w.buckets).map (fun b => satAdd m (acc.getD b 0) (h.getD b 0)))
    (List.replicate w.buckets 0)

/-- reshard by pseudonym: shard `d` of `n` receives the reports with `f mk % n = d`, in source-shard order. -/
def reshardByPrf (n : Nat) (f : Nat → Nat) (shards : List (List Rec)) (d : Nat) : List (Nat × Rec) :=
  (shards.flatten.filter (fun r => f r.key % n == d)).map (fun r => (f r.key, r))

/-- The pipeline after the two shuffles have been applied by the caller:
`afterShuffle1` = records (incl. OPRF dummies) per shard after the first shuffle,
`shuffle2` maps the per-shard aggregated rows (incl. aggregation dummies) to the per-shard rows after the second shuffle. -/
def pipeline (w : Widths) (chunk : Nat) (f : Nat → Nat) (afterShuffle1 : List (List Rec))
    (shuffle2 : List (List Row) → List (List Row)) : List Nat :=
  let n := afterShuffle1.length
  let perShard := (List.range n).map (fun d => aggregateReports w (reshardByPrf n f afterShuffle1 d))
  finalize w ((shuffle2 perShard).map (shardHistogram w chunk))

/-- canonical run used by the driver: no dummies, identity shuffles, identity PRF. Only a helper
with a single shard answers an empty query right away (`if input_rows.is_empty() && shard_count == 1`). -/
def run (w : Widths) (chunk : Nat) (shards : List (List Rec)) : List Nat :=
  if shards.length == 1 && shards.flatten.isEmpty then List.replicate w.buckets 0 else
  pipeline w chunk id shards id

/-! ## Participation in the collective steps (finding F8)

The sharded shuffles, the resharding by pseudonym and the finalization are COLLECTIVE: every shard of a
helper exchanges messages with every other shard and waits for their end-of-stream signal. A collective
step therefore completes only if all shards enter it. What a shard does depends on the row counts it
observes at the four places where the code branches on emptiness (the counts are public and the same
on the three helpers of a shard). -/

inductive Coll where
  | inputShuffle | reshardByPrf | aggShuffle | finalize
  deriving DecidableEq, Repr

/-- row counts seen by one shard: on entry to `hybrid_protocol`, after padding + input shuffle (entry to
`compute_prf_and_reshard`), after `aggregate_reports` (entry to `breakdown_reveal_aggregation`), after
padding + second shuffle (entry to `reveal_breakdowns`). -/
structure Counts where
  entry : Nat
  afterShuffle1 : Nat
  pairs : Nat
  afterShuffle2 : Nat
  deriving DecidableEq, Repr

/-- how a shard leaves `hybrid_protocol` -/
inductive Exit where
  | ok | zeroRecords
  deriving DecidableEq, Repr

/-- The collective steps a shard takes part in, as the code was BEFORE the repair of F8: an empty input
returns zeros at once; `TotalRecords::specified(0)?` fails in `compute_prf_and_reshard` and in
`reveal_breakdowns`; `breakdown_reveal_aggregation` returns zeros before its shuffle when it gets no rows. -/
def collStepsUnfixed (c : Counts) : List Coll × Exit :=
  if c.entry = 0 then ([], .ok)
  else if c.afterShuffle1 = 0 then ([.inputShuffle], .zeroRecords)
  else if c.pairs = 0 then ([.inputShuffle, .reshardByPrf, .finalize], .ok)
  else if c.afterShuffle2 = 0 then ([.inputShuffle, .reshardByPrf, .aggShuffle], .zeroRecords)
  else ([.inputShuffle, .reshardByPrf, .aggShuffle, .finalize], .ok)

/-- … and as the code is now: only a lone shard returns early on an empty input; a shard without rows
reshards an empty stream, shuffles an empty vector and sends a zero histogram to the leader (the local
three-helper work — conversions, PRF, pair additions, reveals, aggregation tree — is skipped). -/
def collSteps (nShards : Nat) (c : Counts) : List Coll × Exit :=
  if c.entry = 0 ∧ nShards = 1 then ([], .ok)
  else ([.inputShuffle, .reshardByPrf, .aggShuffle, .finalize], .ok)

/-- every collective step is entered by all shards or by none, and nobody fails -/
def allJoin : List (List Coll × Exit) → Bool
  | [] => true
  | t :: ts => t.2 == .ok && ts.all (· == t)

/-- identity shuffles, no dummies: the counts of the canonical run -/
def canonicalCounts (w : Widths) (shards : List (List Rec)) : List Counts :=
  let n := shards.length
  (List.range n).map fun d =>
    let pairs := (aggregateReports w (reshardByPrf n id shards d)).length
    { entry := (shards.getD d []).length, afterShuffle1 := (shards.getD d []).length, pairs := pairs, afterShuffle2 := pairs }

/-- Outcome of a query (`none` = the query never completes / fails) for ANY row counts `obs` the shards
may observe after the shuffles (`obs[d].entry` is the size of shard `d`'s input). -/
def runOutcomeWith (steps : Counts → List Coll × Exit) (w : Widths) (chunk : Nat) (shards : List (List Rec))
    (obs : List Counts) : Option (List Nat) :=
  if allJoin (obs.map steps) then some (run w chunk shards) else none

/-- the code as it is (F8 repaired) -/
def runOutcome (w : Widths) (chunk : Nat) (shards : List (List Rec)) (obs : List Counts) : Option (List Nat) :=
  runOutcomeWith (collSteps shards.length) w chunk shards obs

/-- the code before the repair of F8 (kept as documentation of the defect) -/
def runOutcomeUnfixed (w : Widths) (chunk : Nat) (shards : List (List Rec)) (obs : List Counts) : Option (List Nat) :=
  runOutcomeWith collStepsUnfixed w chunk shards obs

end IpaVerif.Hybrid
