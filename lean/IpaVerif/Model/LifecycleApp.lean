import IpaVerif.Model.Lifecycle
/-!
# Model of the request-handler layer above the query processor (C18, suite `c18_app`)

Transcribes `ipa-core/src/app.rs`: the two `RequestHandler` impls of `Inner` (what a
`HandlerRef`/`HandlerBox` dispatches to: `RequestHandler<HelperIdentity>` for requests of the report
collector / other helpers, `RequestHandler<ShardIndex>` for requests of the other shards), and the
four methods of `HelperApp` that call the processor directly.

A request is an `Addr` (`route`, `origin`, `query_id`, `params`) plus the scripted replies of the
other helpers / shards (`Env`, the same scripting as in `Lifecycle.Op`).  The handler

* rejects some requests before the processor is involved (`ApiError::BadRequest` for a route the
  handler does not serve and for a missing `query_id` — `ext_query_id` —,
  `ApiError::DeserializationFailure` when `Addr::into::<T>()` fails),
* otherwise calls exactly one `Processor` method and converts its result with `?` / `HelperResponse::from`.

`origin` is part of the request but no arm reads it (authentication is the layer above, C20).

Import-free (core only): the driver links against this file.
-/
namespace IpaVerif.LifecycleApp
open IpaVerif.Lifecycle IpaVerif.Generated.Lifecycle

/-- `RouteId`. -/
inductive Route where
  | records | receiveQuery | prepareQuery | queryInput | queryStatus | completeQuery | killQuery | metrics
  deriving DecidableEq, Repr

/-- Which `RequestHandler` impl of `Inner` gets the request. -/
inductive Side where
  | mpc    -- `impl RequestHandler<HelperIdentity> for Inner`
  | shard  -- `impl RequestHandler<ShardIndex> for Inner`
  deriving DecidableEq, Repr

/-- The types `Addr::into::<T>()` is asked to produce. -/
inductive PType where
  | queryConfig | prepareQuery | compareStatus
  deriving DecidableEq, Repr

/-- Content of `Addr.params` (a JSON string), as far as the handler can tell the difference:
`proper t` is `serde_json::to_string` of a value of type `t` (what `RouteParams::extra` produces),
`extra t` the same with an additional unknown field (serde ignores it: no `deny_unknown_fields`),
`other` anything else (empty string, `{}`, truncated JSON, JSON of another request type, an
id-only object, a URL-encoded query string …). `status` is the `CompareStatusRequest.status`. -/
inductive Params where
  | proper (t : PType) (status : Status)
  | extra (t : PType) (status : Status)
  | other
  deriving DecidableEq, Repr

/-- `serde_json::from_str::<T>(&addr.params)`: `some status` on success (the status is only
meaningful for `CompareStatusRequest`). The suite validates this table against the real serde. -/
def deser (t : PType) : Params → Option Status
  | .proper t' st => if t' = t then some st else none
  | .extra t' st => if t' = t then some st else none
  | .other => none

/-- Scripted replies of the other helpers and shards to the broadcasts a call makes. -/
structure Env where
  peers : List Reply := []
  shards : List Reply := []
  sshards : List SReply := []
  deriving DecidableEq, Repr

/-- One request as the transport layer hands it to `RequestHandler::handle`. -/
structure Req where
  side : Side
  route : Route
  hasId : Bool             -- `Addr.query_id.is_some()`
  origin : Option Nat      -- `Addr.origin` (never read by the handler)
  params : Params
  env : Env := {}
  deriving DecidableEq, Repr

/-- `ApiError` variants that wrap a processor error. -/
inductive Api where
  | newQuery | queryInput | queryPrepare | queryCompletion | queryStatus | queryKill
  deriving DecidableEq, Repr

/-- `ApiError`. -/
inductive HErr where
  | badRequest
  | deserialization
  | api (a : Api) (e : Err)
  deriving DecidableEq, Repr

/-- What the body of a successful `HelperResponse` is. -/
inductive Payload where
  | empty                  -- `HelperResponse::ok()` / `From<()>`
  | prepared               -- `From<PrepareQuery>`: `{"query_id": …}`
  | status (s : Status)    -- `From<QueryStatus>`: `{"status": …}`
  | result                 -- `From<R: AsRef<dyn ProtocolResult>>`: the result bytes
  | killed                 -- `From<QueryKilled>`: `{"query_id": …, "status": "killed"}`
  | metrics                -- `From<Vec<u8>>`: the scraped metrics
  deriving DecidableEq, Repr

inductive HResp where
  | ok (p : Payload)
  | err (e : HErr)
  | pending (task : Nat)   -- the `handle` future is waiting for this task (CompleteQuery)
  | panic
  deriving DecidableEq, Repr

/-- `HelperResponse::from(processor result?)`: the `?` converts the processor error with the
`#[from]` impl of the matching `ApiError` variant; `okp` is the payload class of the `From` impl the
arm uses. A status is always sent as `{"status": s}`. -/
def wrap (a : Api) (okp : Payload) : Resp → HResp
  | .ok => .ok okp
  | .started _ => .ok okp
  | .status s => .ok (.status s)
  | .err e => .err (.api a e)
  | .pending id => .pending id
  | .panic => .panic
  -- task events are not answers of API calls (never produced by the ops below: `handler_total`)
  | .stored => .panic
  | .dropped => .panic
  | .resolved _ => .panic

/-- `ext_query_id(&req)?` then the call. -/
def withId (r : Req) (k : St × HResp) (s : St) : St × HResp :=
  if r.hasId then k else (s, .err .badRequest)

/-- `impl RequestHandler<HelperIdentity> for Inner`, arm by arm. -/
def handleMpc (p : Pos) (s : St) (r : Req) : St × HResp :=
  match r.route with
  | .records => (s, .err .badRequest)
  | .receiveQuery =>
    match deser .queryConfig r.params with
    | none => (s, .err .deserialization)
    | some _ => let (s', x) := step p s (.newQuery r.env.peers r.env.shards); (s', wrap .newQuery .prepared x)
  | .prepareQuery =>
    match deser .prepareQuery r.params with
    | none => (s, .err .deserialization)
    | some _ => let (s', x) := step p s (.prepareHelper r.env.shards); (s', wrap .queryPrepare .empty x)
  | .queryInput =>
    withId r (let (s', x) := step p s .receiveInputs; (s', wrap .queryInput .empty x)) s
  | .queryStatus =>
    withId r (let (s', x) := step p s (.queryStatus r.env.sshards); (s', wrap .queryStatus .empty x)) s
  | .completeQuery =>
    withId r (let (s', x) := step p s (.complete r.env.shards); (s', wrap .queryCompletion .result x)) s
  | .killQuery =>
    withId r (let (s', x) := step p s .kill; (s', wrap .queryKill .killed x)) s
  | .metrics => (s, .ok .metrics)

/-- `impl RequestHandler<ShardIndex> for Inner`, arm by arm. `CompleteQuery` erases the origin and
goes to the MPC handler. -/
def handleShard (p : Pos) (s : St) (r : Req) : St × HResp :=
  match r.route with
  | .prepareQuery =>
    match deser .prepareQuery r.params with
    | none => (s, .err .deserialization)
    | some _ => let (s', x) := step p s .prepareShard; (s', wrap .queryPrepare .empty x)
  | .queryStatus =>
    match deser .compareStatus r.params with
    | none => (s, .err .deserialization)
    | some st => let (s', x) := step p s (.shardStatus st); (s', wrap .queryStatus .empty x)
  | .completeQuery => handleMpc p s { r with side := .mpc, origin := none }
  | _ => (s, .err .badRequest)

def handle (p : Pos) (s : St) (r : Req) : St × HResp :=
  match r.side with
  | .mpc => handleMpc p s r
  | .shard => handleShard p s r

/-- The methods of `HelperApp` that call the processor without going through a handler. -/
inductive Method where
  | startQuery | executeQuery | queryStatus | completeQuery
  deriving DecidableEq, Repr

def callMethod (p : Pos) (s : St) (m : Method) (env : Env) : St × HResp :=
  match m with
  | .startQuery => let (s', x) := step p s (.newQuery env.peers env.shards); (s', wrap .newQuery .prepared x)
  | .executeQuery => let (s', x) := step p s .receiveInputs; (s', wrap .queryInput .empty x)
  | .queryStatus => let (s', x) := step p s (.queryStatus env.sshards); (s', wrap .queryStatus .empty x)
  | .completeQuery => let (s', x) := step p s (.complete env.shards); (s', wrap .queryCompletion .result x)

/-- One item of an app-level history. -/
inductive AppOp where
  | request (r : Req)
  | method (m : Method) (env : Env)
  | taskReturns (task : Nat) (res : Outcome)
  deriving DecidableEq, Repr

/-- Response to one item: a handler response, or what a task event did. -/
inductive AResp where
  | resp (h : HResp)
  | stored
  | dropped
  | resolved (h : HResp)   -- the in-flight CompleteQuery waiting for this task answered `h`
  deriving DecidableEq, Repr

def appStep (p : Pos) (s : St) : AppOp → St × AResp
  | .request r => let (s', h) := handle p s r; (s', .resp h)
  | .method m env => let (s', h) := callMethod p s m env; (s', .resp h)
  | .taskReturns id o =>
    let (s', x) := step p s (.taskReturns id o)
    (s', match x with
      | .stored => .stored
      | .dropped => .dropped
      | .resolved r => .resolved (wrap .queryCompletion .result r)
      | r => .resp (wrap .queryCompletion .result r))

def runApp (p : Pos) : St → List AppOp → List (AResp × St)
  | _, [] => []
  | s, op :: rest =>
    let (s', r) := appStep p s op
    (r, s') :: runApp p s' rest

def finalStateApp (p : Pos) (s : St) (ops : List AppOp) : St := ops.foldl (fun s op => (appStep p s op).1) s

/-! ## Spec-side tables (what the API promises; used by the theorems, not by `handle`) -/

/-- Routes a handler serves. -/
def served : Side → Route → Bool
  | .mpc, .records => false
  | .mpc, _ => true
  | .shard, .prepareQuery | .shard, .queryStatus | .shard, .completeQuery => true
  | .shard, _ => false

/-- Routes whose query id comes from `Addr.query_id`. -/
def needsId : Side → Route → Bool
  | .mpc, .queryInput | .mpc, .queryStatus | .mpc, .killQuery => true
  | _, .completeQuery => true
  | _, _ => false

/-- Routes whose arguments come from `Addr.params`. -/
def expects : Side → Route → Option PType
  | .mpc, .receiveQuery => some .queryConfig
  | _, .prepareQuery => some .prepareQuery
  | .shard, .queryStatus => some .compareStatus
  | _, _ => none

/-- A request the handler must refuse whatever the state is. -/
def malformed (r : Req) : Bool :=
  !served r.side r.route || (needsId r.side r.route && !r.hasId) ||
    (match expects r.side r.route with
     | some t => (deser t r.params).isNone
     | none => false)

/-- The processor call a well-formed request stands for (`none`: Metrics, no processor call). -/
def procOp (r : Req) : Option (Api × Op) :=
  match r.side, r.route with
  | .mpc, .receiveQuery => some (.newQuery, .newQuery r.env.peers r.env.shards)
  | .mpc, .prepareQuery => some (.queryPrepare, .prepareHelper r.env.shards)
  | .shard, .prepareQuery => some (.queryPrepare, .prepareShard)
  | .mpc, .queryInput => some (.queryInput, .receiveInputs)
  | .mpc, .queryStatus => some (.queryStatus, .queryStatus r.env.sshards)
  | .shard, .queryStatus => (deser .compareStatus r.params).map fun st => (.queryStatus, .shardStatus st)
  | _, .completeQuery => some (.queryCompletion, .complete r.env.shards)
  | .mpc, .killQuery => some (.queryKill, .kill)
  | _, _ => none

def methodOp (m : Method) (env : Env) : Api × Op :=
  match m with
  | .startQuery => (.newQuery, .newQuery env.peers env.shards)
  | .executeQuery => (.queryInput, .receiveInputs)
  | .queryStatus => (.queryStatus, .queryStatus env.sshards)
  | .completeQuery => (.queryCompletion, .complete env.shards)

/-- The processor-level operation behind an app-level history item (`none`: none at all). -/
def toOp? : AppOp → Option Op
  | .request r => if malformed r then none else (procOp r).map (·.2)
  | .method m env => some (methodOp m env).2
  | .taskReturns id o => some (.taskReturns id o)

end IpaVerif.LifecycleApp
