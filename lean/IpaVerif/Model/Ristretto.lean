import IpaVerif.Model.Util
/-!
Executable reference of Ristretto255 *decoding* (RFC 9496 §4.3.1), i.e. of what
`curve25519_dalek::ristretto::CompressedRistretto::decompress` accepts. `RP25519::deserialize`
(`ff/curve_points.rs`) delegates canonicity to that function; the theorems treat dalek as a
hypothesis, the correspondence suite `c09_large` compares dalek's verdicts with this reference.
-/
namespace IpaVerif.Ristretto
open IpaVerif.Util

def p : Nat := 2 ^ 255 - 19
/-- Edwards `d = -121665/121666`. -/
def d : Nat := 37095705934669439343138083508754565189542113879843219016388785533085940283555
/-- `sqrt(-1)`. -/
def sqrtM1 : Nat := 19681161376707505956807079304988542015446066515923890162744021073123829784752

def powMod (b : Nat) : Nat → Nat → Nat
  | 0, _ => 1
  | fuel + 1, e =>
    if e = 0 then 1 else
    let h := powMod b fuel (e / 2)
    let h2 := h * h % p
    if e % 2 = 1 then h2 * b % p else h2

def fneg (a : Nat) : Nat := (p - a % p) % p
def isNeg (a : Nat) : Bool := a % 2 == 1
def fabs (a : Nat) : Nat := if isNeg a then fneg a else a

/-- `SQRT_RATIO_M1(u, v)`. -/
def sqrtRatioM1 (u v : Nat) : Bool × Nat :=
  let v3 := v * v % p * v % p
  let v7 := v3 * v3 % p * v % p
  let r := (u * v3 % p) * powMod (u * v7 % p) 256 ((p - 5) / 8) % p
  let check := v * (r * r % p) % p
  let correct := check == u % p
  let flipped := check == fneg u
  let flippedI := check == fneg (u * sqrtM1 % p)
  let r := if flipped || flippedI then sqrtM1 * r % p else r
  (correct || flipped, fabs r)

/-- `true` iff the 32 bytes are the canonical encoding of a Ristretto255 group element. -/
def valid (bs : List Nat) : Bool :=
  let s := ofLeBytes bs
  if bs.length ≠ 32 || s ≥ p || isNeg s then false else
  let ss := s * s % p
  let u1 := (1 + p - ss) % p
  let u2 := (1 + ss) % p
  let u2sqr := u2 * u2 % p
  let v := (fneg (d * (u1 * u1 % p) % p) + p - u2sqr) % p
  let (wasSquare, invsqrt) := sqrtRatioM1 1 (v * u2sqr % p)
  let denX := invsqrt * u2 % p
  let denY := invsqrt * denX % p * v % p
  let x := fabs (2 * s % p * denX % p)
  let y := u1 * denY % p
  let t := x * y % p
  wasSquare && !isNeg t && y != 0

end IpaVerif.Ristretto
