import IpaVerif.Generated.UsedSetAtomic
/-!
# `UsedSet::use_index` under concurrent callers (C06, "never reused")

`ipa-core/src/protocol/prss/crypto.rs` (debug builds): every `Generator::generate(index)` first calls
`self.used.use_index(index).unwrap()`:
```
pub fn use_index(&self, index: PrssIndex128) -> Result<(), String> {
    if self.used.lock().unwrap().insert(index) { Ok(()) } else { Err(format!(…)) }
}
```
ONE acquisition of the mutex; the guard lives for the `insert`, whose Boolean result decides. Under the mutex
the whole call is one atomic step of the calling thread (`atomicStep`). `splitStep` is the check-then-act
variant (a `contains` lookup under one guard, the `insert` under a second one): two atomic steps per call, between
which other threads run. Which of the two the code is, is read from the source by the translator
(`Generated/UsedSetAtomic.lean`); `codeStep` is defined from that.

Threads are natural numbers; thread `t` makes ONE call `use_index(idx t)`. A schedule is the list of thread
ids in the order in which they are given the processor for their next atomic step (ids of finished threads are
no-ops, so every list is a schedule). Import-free.
-/
namespace IpaVerif.UsedSetAtomic

structure State where
  /-- content of the `HashSet` -/
  used : List Nat
  /-- split variant only: threads that have passed the `contains` lookup and not yet inserted -/
  checked : List Nat
  /-- threads whose call has returned -/
  done : List Nat
  /-- threads whose call returned `Ok(())` -/
  accepted : List Nat
  deriving DecidableEq, Repr

def init (used0 : List Nat) : State := { used := used0, checked := [], done := [], accepted := [] }

/-- the code: lock; `insert` reports whether the value was new; unlock; `Ok` iff it was. -/
def atomicStep (idx : Nat → Nat) (s : State) (t : Nat) : State :=
  if s.done.contains t then s
  else if s.used.contains (idx t) then { s with done := t :: s.done }
  else { s with used := idx t :: s.used, done := t :: s.done, accepted := t :: s.accepted }

/-- check-then-act: first step = lock; `contains`; unlock (`Err` if present); second step = lock; `insert`;
unlock; `Ok`. -/
def splitStep (idx : Nat → Nat) (s : State) (t : Nat) : State :=
  if s.done.contains t then s
  else if s.checked.contains t then
    { used := if s.used.contains (idx t) then s.used else idx t :: s.used,
      checked := s.checked.erase t, done := t :: s.done, accepted := t :: s.accepted }
  else if s.used.contains (idx t) then { s with done := t :: s.done }
  else { s with checked := t :: s.checked }

def run (step : State → Nat → State) (s : State) (sched : List Nat) : State := sched.foldl step s

/-- what the source says (translator): a single critical section whose `insert` result decides. -/
def codeIsAtomic : Bool :=
  IpaVerif.Generated.UsedSetAtomic.lockAcquisitions == 1 && IpaVerif.Generated.UsedSetAtomic.insertResultDecides
    && IpaVerif.Generated.UsedSetAtomic.containsLookups == 0

/-- `use_index` as the code has it -/
def codeStep (idx : Nat → Nat) : State → Nat → State :=
  if codeIsAtomic then atomicStep idx else splitStep idx

/-- sequential specification: the calls one after the other, in the given order -/
def seqSpec (idx : Nat → Nat) (used0 : List Nat) (order : List Nat) : List Nat × List Nat :=
  order.foldl (fun (ua : List Nat × List Nat) t => if ua.1.contains (idx t) then ua else (idx t :: ua.1, t :: ua.2)) (used0, [])

end IpaVerif.UsedSetAtomic
