import IpaVerif.Model.Util
/-!
Executable model of `ipa-core/src/ff/galois_field.rs` (`bit_array_impl!`): the binary fields
`Gf2, Gf3Bit, Gf8Bit, Gf9Bit, Gf20Bit, Gf32Bit, Gf40Bit`.

An element is the `Nat` value of its `BITS` low bits (`as_u128`); the backing store is
`storeBytes` bytes, little-endian, with `8*storeBytes - bits` padding bits that must stay zero.
`u128` intermediates are plain `Nat`s; "no `u128` overflow, `try_from(product).unwrap()` never
panics" is a theorem (Props/C08Gf), not an artefact of the modelling.
-/
namespace IpaVerif.Gf2k

structure Params where
  name : String
  /-- `SharedValue::BITS` -/
  bits : Nat
  /-- `GaloisField::POLYNOMIAL` -/
  poly : Nat
  /-- bytes of the `BitArr!` store -/
  storeBytes : Nat
  /-- `impl_serializable_trait!(…, fallible)`: deserialisation rejects non-zero padding -/
  fallible : Bool
  deriving Repr

/-- The portable `clmul` loop: `for i in 0..BITS { product ^= ((b >> i) & 1) * (a << i) }`.
`n` = remaining iterations, `i` = loop counter. -/
def clmulLoop (a b : Nat) : Nat → Nat → Nat → Nat
  | 0, _, product => product
  | n + 1, i, product => clmulLoop a b n (i + 1) (product ^^^ ((b >>> i) &&& 1) * (a <<< i))

/-- `clmul::<GF>(a, b)` (operands pass through `to_u64`). -/
def clmul (bits a b : Nat) : Nat :=
  clmulLoop (a % 2 ^ 64) (b % 2 ^ 64) bits 0 0

/-- The reduction loop of `Mul`:
`for i in (0..BITS-1).rev() { let b = product >> (BITS+i); product ^= (POLYNOMIAL*b) << i; }`.
`n` = remaining iterations; the current `i` is `n - 1`. -/
def reduceLoop (bits poly : Nat) : Nat → Nat → Nat
  | 0, product => product
  | n + 1, product => reduceLoop bits poly n (product ^^^ ((poly * (product >>> (bits + n))) <<< n))

/-- number of significant bits (`u128::BITS - v.leading_zeros()`). -/
def bitLen (v : Nat) : Nat := if v = 0 then 0 else Nat.log2 v + 1

/-- `U128Conversions::truncate_from`: `v & MASK`. -/
def truncateFrom (P : Params) (v : Nat) : Nat := v &&& (2 ^ P.bits - 1)

/-- `TryFrom<u128>`; `none` = `FieldValueTruncation`. -/
def tryFrom (P : Params) (v : Nat) : Option Nat :=
  if bitLen v ≤ P.bits then some (truncateFrom P v) else none

def add (_ : Params) (a b : Nat) : Nat := a ^^^ b
def sub (P : Params) (a b : Nat) : Nat := add P a b
def neg (_ : Params) (a : Nat) : Nat := a

/-- the `u128` value handed to `try_from` at the end of `Mul`. -/
def mulRaw (P : Params) (a b : Nat) : Nat :=
  reduceLoop P.bits P.poly (P.bits - 1) (clmul P.bits a b)

/-- `Mul::mul`; `none` models the panic of `try_from(product).unwrap()`. -/
def mul (P : Params) (a b : Nat) : Option Nat := tryFrom P (mulRaw P a b)

/-- `Serializable::serialize`: the raw store, little-endian. -/
def serialize (P : Params) (a : Nat) : List Nat := Util.leBytes a P.storeBytes

/-- `Serializable::deserialize`; `none` = `NonZeroPadding` (fallible flavour only) or wrong length.
The infallible flavour has no padding bits. -/
def deserialize (P : Params) (bs : List Nat) : Option Nat :=
  if bs.length ≠ P.storeBytes then none else
  let v := Util.ofLeBytes bs
  if v < 2 ^ P.bits then some v else none

/-- `TryFrom<&[u8]>`: at most `BITS/8` bytes, zero-extended; `none` = `LengthError`. -/
def fromSlice (P : Params) (bs : List Nat) : Option Nat :=
  if bs.length ≤ P.bits / 8 then some (Util.ofLeBytes bs) else none

/-- `Ord::cmp` via `as_u128`: 0 = Less, 1 = Equal, 2 = Greater. -/
def cmp (a b : Nat) : Nat := if a < b then 0 else if a = b then 1 else 2

/-- Square-and-multiply power with total `mul` (a panic poisons the result); used by the
generator-order certificates. `fuel` bounds the bit length of the exponent. -/
def powLoop (P : Params) : Nat → Nat → Nat → Nat → Option Nat
  | 0, _, _, acc => some acc
  | fuel + 1, base, e, acc =>
    if e = 0 then some acc else
    match (if e % 2 = 1 then mul P acc base else some acc), mul P base base with
    | some acc', some base' => powLoop P fuel base' (e / 2) acc'
    | _, _ => none

def pow (P : Params) (a e : Nat) : Option Nat := powLoop P (bitLen e) a e 1

/-- Generator-order certificate found by the translator (`tools/extractors/c08_gf.py`):
`gen ^ (2^bits - 1) = 1` and `gen ^ ((2^bits - 1) / q) ≠ 1` for every prime `q` of
`orderFactors`, which lists the prime factorisation `∏ q^e` of `2^bits - 1`.
For a reducible polynomial no certificate exists; then `zeroDivisor = some (f, h)`, `f·h = POLYNOMIAL`. -/
structure Cert where
  field : Params
  gen : Nat
  orderFactors : List (Nat × Nat)
  zeroDivisor : Option (Nat × Nat)

/-- The executable part of the certificate check (primality of the listed factors is proved
separately in `Props/C08GfField`). -/
def certOk (C : Cert) : Bool :=
  let n := 2 ^ C.field.bits - 1
  C.gen < 2 ^ C.field.bits
    && (C.orderFactors.map (fun qe => qe.1 ^ qe.2)).foldl (· * ·) 1 == n
    && pow C.field C.gen n == some 1
    && C.orderFactors.all (fun qe => pow C.field C.gen (n / qe.1) != some 1)

end IpaVerif.Gf2k
