import IpaVerif.Model.Util
import IpaVerif.Model.PrimeField
/-!
Executable model of the fixed-size wire encodings (`ff::Serializable`) of ipa-core (property C09):

* `ff/prime_field.rs`   `field_impl!` — little-endian backing store, `v < PRIME` check;
* `ff/boolean.rs`       one byte, only 0 and 1 accepted;
* `ff/boolean_array.rs` `impl_serializable_trait!` (used by `boolean_array_impl!` and by
  `bit_array_impl!` of `ff/galois_field.rs`) — raw storage bytes; the `fallible` instances check
  `raw_val[$bits..].not_any()`, the `infallible` ones accept everything;
* `ff/ec_prime_field.rs` `Fp25519` — `Scalar::from_bytes_mod_order` (reduces, never rejects: F9);
* `secret_sharing/replicated/semi_honest/additive_share.rs` — left ‖ right, `?` on each half;
* `secret_sharing/vector/array.rs` `StdArray<V, N>` — N consecutive elements, first error wins.

Bytes are `Nat`s (`< 256` is a hypothesis of the theorems, guaranteed by the driver's parser).
A decoder returns an `Outcome`: `.ok v`, `.err` (the `DeserializationError` of the Rust impl) or
`.panic` (what `GenericArray::from_slice` does on a slice of the wrong length), so that "never
panics on a buffer of the advertised length" is a theorem.
-/
namespace IpaVerif.Serde
open IpaVerif.Util

inductive Outcome (α : Type) where
  | ok (a : α)
  | err
  | panic
  deriving Repr, DecidableEq

/-- A fixed-size wire format: advertised size, encoder, decoder, and the canonical values of the type
(the type invariant: `v < PRIME`, padding bits zero, …). -/
structure Codec (α : Type) where
  size : Nat
  enc : α → List Nat
  dec : List Nat → Outcome α
  canon : α → Prop

/-- `$backend_store::to_le_bytes` / `from_le_bytes` + `if v < Self::PRIME`. -/
def primeCodec (P : PrimeField.Params) : Codec Nat where
  size := P.storeBits / 8
  enc v := leBytes v (P.storeBits / 8)
  dec bs :=
    if bs.length ≠ P.storeBits / 8 then .panic else
    let v := ofLeBytes bs
    if v < P.p then .ok v else .err
  canon v := v < P.p

/-- `Boolean`: `buf[0] = u8::from(self.0)`; `if buf[0] > 1 { Err } else { Ok(buf[0] != 0) }`. -/
def boolCodec : Codec Bool where
  size := 1
  enc b := [if b then 1 else 0]
  dec bs :=
    match bs with
    | [x] => if x > 1 then .err else .ok (x != 0)
    | _ => .panic
  canon _ := True

/-- One `boolean_array_impl*!` / `bit_array_impl!` instance. The value is the raw storage read as a
little-endian integer (padding bits included: that is what the Rust struct holds). -/
structure BitTy where
  name : String
  /-- `SharedValue::BITS` -/
  bits : Nat
  /-- `<Store as Block>::Size` -/
  bytes : Nat
  /-- which arm of `impl_serializable_trait!` the instance uses -/
  fallible : Bool
  deriving Repr

/-- `raw_val[$bits..].not_any()`: no storage bit at index ≥ `bits` is set. -/
def paddingClear (bits v : Nat) : Bool := v >>> bits == 0

def bitCodec (T : BitTy) : Codec Nat where
  size := T.bytes
  enc v := leBytes v T.bytes
  dec bs :=
    if bs.length ≠ T.bytes then .panic else
    let v := ofLeBytes bs
    if T.fallible then (if paddingClear T.bits v then .ok v else .err) else .ok v
  canon v := v < 2 ^ T.bits

/-- Order of the Ristretto/ed25519 prime-order group (`curve25519_dalek::constants::BASEPOINT_ORDER`);
the correspondence suite ties it to the code (`deserialize(le(ℓ)) = 0`, `le(ℓ-1) = -1`). -/
def ell : Nat := 2 ^ 252 + 27742317777372353535851937790883648493

/-- `Fp25519`: `Scalar::to_bytes`; `Scalar::from_bytes_mod_order` (infallible, reduces). -/
def fp25519Codec : Codec Nat where
  size := 32
  enc v := leBytes v 32
  dec bs := if bs.length ≠ 32 then .panic else .ok (ofLeBytes bs % ell)
  canon v := v < ell

/-- `RP25519`: `as_point().compress().to_bytes()`;
`CompressedRistretto(buf).decompress().ok_or(NonCanonicalEncoding)`. curve25519-dalek's `compress` /
`decompress` are parameters of the model. -/
def rpCodec {Pt : Type} (compress : Pt → List Nat) (decompress : List Nat → Option Pt) : Codec Pt where
  size := 32
  enc := compress
  dec bs :=
    if bs.length ≠ 32 then .panic else
    match decompress bs with
    | some p => .ok p
    | none => .err
  canon _ := True

/-- `AdditiveShare<V>`: left ‖ right; `V::deserialize(left)?; V::deserialize(right)?`. -/
def pairCodec {α β : Type} (C : Codec α) (D : Codec β) : Codec (α × β) where
  size := C.size + D.size
  enc v := C.enc v.1 ++ D.enc v.2
  dec bs :=
    if bs.length ≠ C.size + D.size then .panic else
    match C.dec (bs.take C.size) with
    | .ok l =>
      match D.dec (bs.drop C.size) with
      | .ok r => .ok (l, r)
      | .err => .err
      | .panic => .panic
    | .err => .err
    | .panic => .panic
  canon v := C.canon v.1 ∧ D.canon v.2

def encAll {α : Type} (C : Codec α) : List α → List Nat
  | [] => []
  | v :: vs => C.enc v ++ encAll C vs

/-- The `for i in 0..N { res[i] = V::deserialize(&buf[sz*i..sz*(i+1)])?; }` loop. -/
def decAll {α : Type} (C : Codec α) : Nat → List Nat → Outcome (List α)
  | 0, _ => .ok []
  | n + 1, bs =>
    match C.dec (bs.take C.size) with
    | .ok v =>
      match decAll C n (bs.drop C.size) with
      | .ok vs => .ok (v :: vs)
      | .err => .err
      | .panic => .panic
    | .err => .err
    | .panic => .panic

/-- `StdArray<V, N>` (also `[Hash; N]`-style homogeneous arrays). -/
def arrCodec {α : Type} (C : Codec α) (n : Nat) : Codec (List α) where
  size := C.size * n
  enc vs := encAll C vs
  dec bs := if bs.length ≠ C.size * n then .panic else decAll C n bs
  canon vs := vs.length = n ∧ ∀ v ∈ vs, C.canon v

/-- Type expressions of the line protocol: `Fp31`, `share:BA3`, `arr16:Fp32BitPrime`, … -/
inductive Ty where
  | prime (P : PrimeField.Params)
  | boolean
  | bits (T : BitTy)
  | fp25519
  | share (t : Ty)
  | arr (n : Nat) (t : Ty)
  /-- a record of two differently typed fields (`PrfHybridReport`: match key ‖ value ‖ breakdown key) -/
  | pair (a b : Ty)

@[reducible] def Ty.Val : Ty → Type
  | .prime _ => Nat
  | .boolean => Bool
  | .bits _ => Nat
  | .fp25519 => Nat
  | .share t => t.Val × t.Val
  | .arr _ t => List t.Val
  | .pair a b => a.Val × b.Val

def codecOf : (t : Ty) → Codec t.Val
  | .prime P => primeCodec P
  | .boolean => boolCodec
  | .bits T => bitCodec T
  | .fp25519 => fp25519Codec
  | .share t => pairCodec (codecOf t) (codecOf t)
  | .arr n t => arrCodec (codecOf t) n
  | .pair a b => pairCodec (codecOf a) (codecOf b)

/-- Leaves of a value in wire order, as naturals (`Boolean` as 0/1). -/
def leaves : (t : Ty) → t.Val → List Nat
  | .prime _, v => [v]
  | .boolean, (b : Bool) => [if b then 1 else 0]
  | .bits _, v => [v]
  | .fp25519, v => [v]
  | .share t, v => leaves t v.1 ++ leaves t v.2
  | .arr _ t, vs =>
    let rec go : List t.Val → List Nat
      | [] => []
      | x :: xs => leaves t x ++ go xs
    go vs
  | .pair a b, v => leaves a v.1 ++ leaves b v.2

def leafCount : Ty → Nat
  | .share t => 2 * leafCount t
  | .arr n t => n * leafCount t
  | .pair a b => leafCount a + leafCount b
  | _ => 1

/-- Rebuild a value from its leaves (inverse of `leaves`); `none` if too few leaves. -/
def build : (t : Ty) → List Nat → Option (t.Val × List Nat)
  | .prime _, v :: rest => some (v, rest)
  | .boolean, v :: rest => some ((v != 0 : Bool), rest)
  | .bits _, v :: rest => some (v, rest)
  | .fp25519, v :: rest => some (v, rest)
  | .share t, ls => do
      let (l, r1) ← build t ls
      let (r, r2) ← build t r1
      pure ((l, r), r2)
  | .arr n t, ls =>
    let rec go : Nat → List Nat → Option (List t.Val × List Nat)
      | 0, ls => some ([], ls)
      | k + 1, ls => do
          let (x, r1) ← build t ls
          let (xs, r2) ← go k r1
          pure (x :: xs, r2)
    go n ls
  | .pair a b, ls => do
      let (x, r1) ← build a ls
      let (y, r2) ← build b r1
      pure ((x, y), r2)
  | _, [] => none

end IpaVerif.Serde
