import IpaVerif.Model.Util
import IpaVerif.Model.Reshard
/-!
# Model of duplicate-report detection (C11)

`report/hybrid.rs`: `UniqueTag` = first 16 bytes of the match-key ciphertext; `shard_picker` =
`u128::from_le_bytes(tag) % shard_count`; `UniqueTagValidator::check_duplicates` = hash-set insert
with a 1-based counter. `query/runner/hybrid.rs: Query::execute` routes every tag to its shard with
`reshard_aad` (= `reshard_try_stream` on the tags, C19) and then checks the tags each shard owns,
before `hybrid_protocol` starts.

A tag is modelled by its value as a little-endian 128-bit number. Import-free.
-/
namespace IpaVerif.Dedup
open IpaVerif.Util IpaVerif.Reshard

/-- `u128::from_le_bytes(bytes)` -/
def tagOfBytes (bytes : List Nat) : Nat := ofLeBytes bytes

/-- `UniqueTag::shard_picker`; `none` = panic (`% 0`, or the result does not fit a `u32`). -/
def shardPicker (tag n : Nat) : Option Nat :=
  if n = 0 then none else
  let r := tag % n
  if r < 4294967296 then some r else none

/-- `UniqueTagValidator`: the set of tags seen and the number of checks made. -/
structure Validator where
  seen : List Nat := []
  counter : Nat := 0

/-- `check_duplicate`: `Err(DuplicateBytes(counter))` is `Except.error counter`. -/
def checkDuplicate (v : Validator) (tag : Nat) : Validator × Option Nat :=
  let c := v.counter + 1
  if tag ∈ v.seen then ({ v with counter := c }, some c)
  else ({ seen := tag :: v.seen, counter := c }, none)

/-- `check_duplicates`: stops at the first duplicate (`try_for_each`). -/
def checkDuplicates (v : Validator) : List Nat → Validator × Option Nat
  | [] => (v, none)
  | t :: rest =>
    match checkDuplicate v t with
    | (v', some c) => (v', some c)
    | (v', none) => checkDuplicates v' rest

/-- the picker used by `Query::execute`: `|ctx, _, tag| tag.shard_picker(ctx.shard_count())` -/
def pick (n : Nat) : Nat → Nat → Nat → Nat := fun _ _ tag => tag % n

/-- tags owned by shard `d` after `reshard_aad` -/
def routed (n : Nat) (inputs : Nat → List Nat) (d : Nat) : List Nat := reshard n (pick n) inputs d

/-- verdict of shard `d`: `some k` = `Err(DuplicateBytes(k))` before attribution starts -/
def detect (n : Nat) (inputs : Nat → List Nat) (d : Nat) : Option Nat :=
  (checkDuplicates {} (routed n inputs d)).2

/-! ### `Query::execute` per shard, with the sizes the code has at hand (b17)

After `reshard_aad` a shard holds TWO collections of unrelated lengths: `decrypted_reports` — the
reports it received as ITS OWN input (they stay where they were submitted) — and `resharded_tags` —
the tags ROUTED to it from all shards' inputs.  The code validates `resharded_tags` unconditionally.
`detectIf guard` is the same step under a guard on these two sizes, so that guarded variants can be
exhibited; the code is `detectIf (fun _ _ => true)`. -/

/-- `decrypted_reports.len()` of shard `d`: the number of reports it was handed as its own input -/
def ownSize (inputs : Nat → List Nat) (d : Nat) : Nat := (inputs d).length

/-- verdict of shard `d` when the validator step runs only if `guard own_size routed_size` -/
def detectIf (guard : Nat → Nat → Bool) (n : Nat) (inputs : Nat → List Nat) (d : Nat) : Option Nat :=
  if guard (ownSize inputs d) (routed n inputs d).length then detect n inputs d else none

/-- the guard of the seeded variant C11d: `if decrypted_reports.len() > 1 { … }` -/
def ownAtLeastTwo : Nat → Nat → Bool := fun own _ => decide (1 < own)

end IpaVerif.Dedup
