/-!
Executable model of `ipa-core/src/seq_join/{mod,local}.rs` (C15):
`SequentialFutures::poll_next` (single-threaded implementation), `seq_try_join_all`
(`TryStreamExt::try_collect` on top of it) and `SeqJoin::parallel_join`
(`futures::future::try_join_all`).

Import-free.  Tasks are identified by their position `0,1,2,…` in the input.  Whether a pending
future returns `Ready` when it is polled is decided by the environment: `ready started id`, where
`started` lists the tasks that have been polled at least once so far (including earlier in the same
`poll_next` call) — this lets a task's progress depend on other tasks having started.
-/
namespace IpaVerif.SeqJoin

/-- `ActiveItem`. -/
inductive Slot where
  | pending (id : Nat)
  | resolved (id : Nat)
  deriving Repr, DecidableEq, Inhabited

def Slot.id : Slot → Nat
  | .pending i => i
  | .resolved i => i

/-- `SequentialFutures { source: Fuse<S>, active: VecDeque<ActiveItem>, .. }`. -/
structure State where
  /-- tasks the source has not yielded yet -/
  src : List Nat
  /-- `Fuse::is_done`: the source has answered `None` -/
  srcDone : Bool
  active : List Slot
  /-- `active.capacity()` (`VecDeque::with_capacity(w)`, at least `w`) -/
  cap : Nat
  /-- tasks polled at least once so far (history, not part of the Rust state) -/
  started : List Nat
  deriving Repr, Inhabited

def State.new (n cap : Nat) : State :=
  { src := List.range n, srcDone := false, active := [], cap := cap, started := [] }

/-- What the environment does during one `poll_next` call. -/
structure Env where
  /-- the source yields at most this many items now, then answers `Pending`
  (an exhausted source answers `None` regardless) -/
  budget : Nat
  /-- does the future of task `id` return `Ready` when polled, given the tasks started so far -/
  ready : List Nat → Nat → Bool

inductive Out where
  | item (id : Nat)
  | pending
  | finished
  deriving Repr, DecidableEq, Inhabited

/-- observation of one call: result, futures polled (in order), items drawn from the source. -/
structure Obs where
  out : Out
  polled : List Nat
  pulled : Nat
  deriving Repr, DecidableEq, Inhabited

/-- "Draw more values from the input, up to the capacity": returns the state, the number of items
drawn and the budget left. `fuel` bounds the loop (`cap` iterations suffice). -/
def refill : Nat → State → Nat → Nat → State × Nat × Nat
  | 0, s, pulled, budget => (s, pulled, budget)
  | fuel + 1, s, pulled, budget =>
    if s.active.length < s.cap then
      if s.srcDone then (s, pulled, budget)            -- `Fuse` answers `None` without polling
      else match s.src with
        | [] => ({ s with srcDone := true }, pulled, budget)   -- `Ready(None)`
        | t :: rest =>
          if budget = 0 then (s, pulled, budget)               -- `Pending`
          else refill fuel { s with src := rest, active := s.active ++ [.pending t] } (pulled + 1) (budget - 1)
    else (s, pulled, budget)

/-- `ActiveItem::check_ready`: the slot afterwards, the tasks started afterwards, whether it was polled. -/
def checkReady (ready : List Nat → Nat → Bool) (started : List Nat) : Slot → Slot × List Nat × Bool
  | .resolved i => (.resolved i, started, false)
  | .pending i =>
    let started' := if started.contains i then started else started ++ [i]
    (if ready started' i then .resolved i else .pending i, started', true)

/-- `for f in active.iter_mut().skip(1) { f.check_ready(cx) }`. -/
def checkRest (ready : List Nat → Nat → Bool) : List Slot → List Nat → List Slot × List Nat × List Nat
  | [], started => ([], started, [])
  | sl :: rest, started =>
    let (sl', started', p) := checkReady ready started sl
    let (rest', started'', ps) := checkRest ready rest started'
    (sl' :: rest', started'', if p then sl.id :: ps else ps)

/-- `SequentialFutures::poll_next`. -/
def step (s : State) (env : Env) : State × Obs :=
  let (s1, pulled, _) := refill (s.cap + 1) s 0 env.budget
  match s1.active with
  | [] => (s1, { out := if s1.srcDone then .finished else .pending, polled := [], pulled := pulled })
  | front :: rest =>
    let (front', started', p) := checkReady env.ready s1.started front
    let polledFront := if p then [front.id] else []
    match front' with
    | .resolved i =>
      ({ s1 with active := rest, started := started' }, { out := .item i, polled := polledFront, pulled := pulled })
    | .pending _ =>
      let (rest', started'', ps) := checkRest env.ready rest started'
      ({ s1 with active := front' :: rest', started := started'' },
        { out := .pending, polled := polledFront ++ ps, pulled := pulled })

/-- run a schedule of environments; one observation per `poll_next` call. -/
def run : State → List Env → State × List Obs
  | s, [] => (s, [])
  | s, e :: es =>
    let (s1, o) := step s e
    let (s2, os) := run s1 es
    (s2, o :: os)

/-- A dependency pattern for the futures: task `k` returns `Ready` when polled iff each of the tasks
`k+1 … k+d` (that exist) has been polled at least once — e.g. `k` waits for data that is only sent
once enough later records have started. -/
def depReady (n d : Nat) (started : List Nat) (k : Nat) : Bool :=
  (List.range d).all fun j => decide (k + 1 + j ≥ n) || started.contains (k + 1 + j)

/-! ### `seq_try_join_all`: `try_collect` over the stream (source = `iter(..)`, always ready) -/

/-- `seq_try_join_all(active, source)` = `seq_join(active, iter(source)).try_collect()` and
`SeqJoin::try_join(iterable)` = `seq_try_join_all(self.active_work(), iterable)`: the initial state of
the join over an iterator of `n` tasks whose `size_hint()` lower bound is `sizeHintLower`.
The window (`VecDeque::with_capacity(active)`) is taken from `active` ONLY — the iterator's
`size_hint` (0 for `filter` / `flat_map` / `take_while`, `k` for `chain(exact k, filtered)`) is never
consulted, so the argument is unused on purpose. -/
def seqTryJoinAllNew (active n : Nat) (_sizeHintLower : Nat) : State := State.new n active

inductive TryOut where
  | pending
  | ok (ids : List Nat)
  | err (id : Nat)
  deriving Repr, DecidableEq, Inhabited

/-- one `poll` of `TryCollect`: keep calling `poll_next` until it is `Pending`, the stream ends, or an
item is an `Err` (`isErr id`). `acc` = items collected so far. The loop runs at most once per
remaining task plus one. -/
def tryPoll (isErr : Nat → Bool) (ready : List Nat → Nat → Bool) :
    Nat → State → List Nat → List Nat → State × List Nat × TryOut × List Nat
  | 0, s, acc, polled => (s, acc, .pending, polled)
  | fuel + 1, s, acc, polled =>
    let (s1, o) := step s { budget := s.cap + 1, ready := ready }
    match o.out with
    | .pending => (s1, acc, .pending, polled ++ o.polled)
    | .finished => (s1, acc, .ok acc, polled ++ o.polled)
    | .item i =>
      if isErr i then (s1, acc, .err i, polled ++ o.polled)
      else tryPoll isErr ready fuel s1 (acc ++ [i]) (polled ++ o.polled)

/-- `seq_join(w, source).try_collect()` over a source that may itself be `Pending`: as `tryPoll`, but
the source yields at most `budget` more items during this poll of `TryCollect` (shared by the
`poll_next` calls of the loop); also returns the budget left. -/
def tryPollB (isErr : Nat → Bool) (ready : List Nat → Nat → Bool) :
    Nat → State → Nat → List Nat → List Nat → State × Nat × List Nat × TryOut × List Nat
  | 0, s, b, acc, polled => (s, b, acc, .pending, polled)
  | fuel + 1, s, b, acc, polled =>
    let (s1, o) := step s { budget := b, ready := ready }
    let b' := b - o.pulled
    match o.out with
    | .pending => (s1, b', acc, .pending, polled ++ o.polled)
    | .finished => (s1, b', acc, .ok acc, polled ++ o.polled)
    | .item i =>
      if isErr i then (s1, b', acc, .err i, polled ++ o.polled)
      else tryPollB isErr ready fuel s1 b' (acc ++ [i]) (polled ++ o.polled)

/-! ### `parallel_join` = `futures::future::try_join_all` (contract of the external crate) -/

/-- state: per task `none` = still pending, `some ()` = done. One poll: every pending future is
polled in input order; the first one (in input order) that completes with an error ends the join
with that error; when all are done the result is all outputs in input order. -/
def parPoll (isErr : Nat → Bool) (ready : Nat → Bool) : List (Nat × Bool) → List (Nat × Bool) × TryOut × List Nat
  | tasks =>
    let pendingIds := (tasks.filter (fun t => !t.2)).map (·.1)
    match pendingIds.find? (fun i => ready i && isErr i) with
    | some i =>
      -- the loop over the futures breaks at the first error: later futures are not polled
      (tasks.map fun (j, d) => (j, d || (decide (j ≤ i) && ready j)), .err i,
        pendingIds.takeWhile (· ≠ i) ++ [i])
    | none =>
      let tasks' := tasks.map fun (i, d) => (i, d || ready i)
      if tasks'.all (·.2) then (tasks', .ok (tasks'.map (·.1)), pendingIds) else (tasks', .pending, pendingIds)

end IpaVerif.SeqJoin
