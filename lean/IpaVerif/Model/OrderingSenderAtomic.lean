import IpaVerif.Model.OrderingSender
import IpaVerif.Generated.SenderAtomic
/-!
# Atomic-level model of `ipa-core/src/helpers/buffers/ordering_sender.rs`

A labelled transition system in which the accesses of `Send::poll` / `Close::poll` / `take_next` to
shared state are *separate* actions of concurrently running tasks.  One action = one access:

| action        | Rust (in program order of the poll)                                              |
|---------------|-----------------------------------------------------------------------------------|
| `load t`      | `let curr = self.next.load(Acquire)` (start of `next_op`'s loop; begins the poll)  |
| `panicTwice t`| `Ordering::Greater => panic!("attempt to write/close at index {i} twice")`         |
| `cs t`        | `Ordering::Equal`: `let res = f(&mut self.state.lock().unwrap());` — the whole state-mutex critical section: `assert!(!closed)`, `State::write` (save `write_ready` / write + wake `stream_ready`) or `State::close`; the guard is a temporary, the mutex is released at the end of this statement |
| `inc t`       | `if res.is_ready() { self.next.fetch_add(1, AcqRel) }` (+ `debug_assert_eq!`)      |
| `wake t`      | `Send::poll` only, after `next_op` returned `Ready`: `self.waiting.wake(i + 1)`     |
| `add t`       | `Ordering::Less`: `self.waiting.add(curr, i, cx.waker())` under the shard mutex; rejected ⇒ back to `load` |
| `rTake`       | `take_next`: `self.state.lock()`, `b.take(cx)` (take + wake `write_ready`, or save `stream_ready`); on `Pending` the lock is released and the poll returns |
| `rLoad`       | `take_next`, still holding the state mutex: `let next = self.next.load(Acquire)`    |
| `rWake`       | `take_next`, still holding the state mutex: `self.waiting.wake(next)`; then unlock, return `Ready(Some(v))` |

Between two actions of one task any actions of other tasks may happen, except that `cs` is
disabled while the reader holds the state mutex (`rpc ∈ {took, loaded}`).

**Memory-model assumption** (not proved, stated in props/C14.json): every action above is one atomic
step of a sequentially consistent interleaving.  This is what Rust guarantees for these accesses:
all accesses to `next` are atomic operations on one location (`load(Acquire)`,
`fetch_add(1, AcqRel)`; a single modification order; an `Acquire` load that reads the result of the
`AcqRel` increment synchronises with it), every access to a `WaitingShard` happens under that
shard's `Mutex` and every access to `State` under the state `Mutex` (critical sections on one mutex
are totally ordered and each sees the effects of the earlier ones).  A load that returns a value
older than the latest one in modification order is the same as the load having been scheduled
earlier (the model allows a task to be delayed arbitrarily between its `load` and its next action),
provided it is not older than what the task has already observed through a mutex hand-off — which
is exactly the case the `woken_at` check handles.  Import-free.
-/
namespace IpaVerif.OrderingSenderAtomic
open IpaVerif.CircularBuf IpaVerif.OrderingSender

/-- Static description of the tasks: which task ids are writer futures (`Send`/`Close`), their
index, kind and message; the id of the stream (reader) task. -/
structure Cfg where
  writer : Task → Bool
  isClose : Task → Bool
  idx : Task → Nat
  msg : Task → List Nat
  reader : Task

/-- Program counter of a writer future (`Send { i, m }` or `Close { i }`). -/
inductive Pc where
  /-- never polled -/
  | fresh
  /-- last poll returned `Pending` after `waiting.add` was accepted -/
  | waitTurn
  /-- last poll returned `Pending` from `State::write` (buffer full, waker saved in `write_ready`) -/
  | waitSpace
  /-- inside `next_op`'s loop after a rejected `add`, about to load `next` again -/
  | polling
  /-- `curr = c` has been loaded -/
  | loaded (c : Nat)
  /-- the critical section returned `Ready`, about to `fetch_add` -/
  | wrote
  /-- (`Send` only) `next` incremented, about to `waiting.wake(i + 1)` -/
  | incd
  /-- the future returned `Ready(())` -/
  | done
  | panicked
deriving Repr, BEq, DecidableEq

/-- Program counter of the stream task (`take_next`). -/
inductive RPc where
  /-- not inside `take_next` -/
  | idle
  /-- holds the state mutex, `b.take(cx)` returned the chunk `v`, about to load `next` -/
  | took (v : List Nat)
  /-- holds the state mutex, loaded `n`, about to `waiting.wake(n)` -/
  | loaded (v : List Nat) (n : Nat)
  /-- the last poll returned `Ready(None)` -/
  | finished
deriving Repr, BEq, DecidableEq

def RPc.holdsLock : RPc → Bool
  | .took _ => true
  | .loaded _ _ => true
  | _ => false

structure AState where
  /-- the shared object: `next`, `state: Mutex<State>` contents, `waiting` shards -/
  s : State
  pc : Task → Pc
  /-- `wake()` was called on the task's waker since its current/last poll began -/
  woken : Task → Bool
  rpc : RPc

inductive Act where
  | load (t : Task)
  | panicTwice (t : Task)
  | cs (t : Task)
  | add (t : Task)
  | inc (t : Task)
  | wake (t : Task)
  | rTake
  | rLoad
  | rWake
deriving Repr, BEq, DecidableEq

/-- What an action shows: a label (for the replay suite) and the wakers woken by it, in order. -/
structure Ev where
  tag : String
  woken : List Task

def upd {α : Type} (f : Task → α) (t : Task) (v : α) : Task → α := fun u => if u = t then v else f u

@[simp] theorem upd_same {α : Type} (f : Task → α) (t : Task) (v : α) : upd f t v t = v := by simp [upd]
@[simp] theorem upd_other {α : Type} (f : Task → α) {t u : Task} (v : α) (h : u ≠ t) : upd f t v u = f u := by
  simp [upd, h]

/-- `Waker::wake` on every listed task. -/
def mark (w : Task → Bool) (l : List Task) : Task → Bool := fun u => w u || l.contains u

/-- `WaitingShard::wake` with the `woken_at` update generated from the source. -/
def shardWake (sh : Shard) (i : Nat) : Shard × List Task :=
  match wakeList i sh.wakers with
  | some (w, rest) => ({ wokenAt := Generated.SenderAtomic.wokenAtAfterWake sh.wokenAt i, wakers := rest }, [w])
  | none => ({ sh with wokenAt := Generated.SenderAtomic.wokenAtAfterWake sh.wokenAt i }, [])

/-- `WaitingShard::add` with the rejection rule generated from the source. -/
def shardAdd (sh : Shard) (current i : Nat) (w : Task) : Option Shard :=
  if Generated.SenderAtomic.addRejects current sh.wokenAt i then none
  else some { sh with wakers := (addRev ⟨i, w⟩ sh.wakers.reverse).reverse }

/-- `Waiting::wake(i)`: lock shard `(i >> 6) % 8`, `WaitingShard::wake(i)`. -/
def waitingWake (s : State) (i : Nat) : State × List Task :=
  let r := shardWake (s.shards (shardIdx i)) i
  ({ s with shards := fun k => if k = shardIdx i then r.1 else s.shards k }, r.2)

/-- `Waiting::add(curr, i, w)`. -/
def waitingAdd (s : State) (curr i : Nat) (t : Task) : Option State :=
  match shardAdd (s.shards (shardIdx i)) curr i t with
  | some sh => some { s with shards := fun k => if k = shardIdx i then sh else s.shards k }
  | none => none

def doLoad (c : Cfg) (a : AState) (t : Task) : Option (AState × Ev) :=
  if !c.writer t then none else
  match a.pc t with
  | .fresh | .waitTurn | .waitSpace =>
    -- `Future::poll` begins: wake-ups from now on count for the next poll
    some ({ a with pc := upd a.pc t (.loaded a.s.next), woken := upd a.woken t false }, ⟨s!"L{a.s.next}", []⟩)
  | .polling => some ({ a with pc := upd a.pc t (.loaded a.s.next) }, ⟨s!"L{a.s.next}", []⟩)
  | _ => none

def doPanicTwice (c : Cfg) (a : AState) (t : Task) : Option (AState × Ev) :=
  match a.pc t with
  | .loaded cu => if cu > c.idx t then some ({ a with pc := upd a.pc t .panicked }, ⟨"X", []⟩) else none
  | _ => none

/-- The closure passed to `next_op` by `Send::poll`, run under the state mutex. -/
def csSend (a : AState) (t : Task) (m : List Nat) : AState × Ev :=
  let s := a.s
  if s.buf.closed then ({ a with pc := upd a.pc t .panicked }, ⟨"X:writing on a closed stream", []⟩)
  else if !s.buf.canWrite then
    ({ a with s := { s with writeReady := some t }, pc := upd a.pc t .waitSpace }, ⟨"C:P", []⟩)
  else
    match s.buf.writeMsg m with
    | .error e => ({ a with pc := upd a.pc t .panicked }, ⟨"X:" ++ e, []⟩)
    | .ok b' =>
      let (sr, w1) := if b'.canRead then (none, s.streamReady.toList) else (s.streamReady, [])
      ({ a with s := { s with buf := b', streamReady := sr }, pc := upd a.pc t .wrote,
                woken := mark a.woken w1 }, ⟨"C:R", w1⟩)

/-- The closure passed to `next_op` by `Close::poll`. -/
def csClose (a : AState) (t : Task) : AState × Ev :=
  let s := a.s
  match s.buf.close with
  | .error e => ({ a with pc := upd a.pc t .panicked }, ⟨"X:" ++ e, []⟩)
  | .ok b' =>
    ({ a with s := { s with buf := b', streamReady := none }, pc := upd a.pc t .wrote,
              woken := mark a.woken s.streamReady.toList }, ⟨"C:R", s.streamReady.toList⟩)

def doCs (c : Cfg) (a : AState) (t : Task) : Option (AState × Ev) :=
  match a.pc t with
  | .loaded cu =>
    if cu = c.idx t ∧ a.rpc.holdsLock = false then
      some (if c.isClose t then csClose a t else csSend a t (c.msg t))
    else none
  | _ => none

def doAdd (c : Cfg) (a : AState) (t : Task) : Option (AState × Ev) :=
  match a.pc t with
  | .loaded cu =>
    if cu < c.idx t then
      match waitingAdd a.s cu (c.idx t) t with
      | some s' => some ({ a with s := s', pc := upd a.pc t .waitTurn }, ⟨"A+", []⟩)
      | none => some ({ a with pc := upd a.pc t .polling }, ⟨"A-", []⟩)
    else none
  | _ => none

def doInc (c : Cfg) (a : AState) (t : Task) : Option (AState × Ev) :=
  match a.pc t with
  | .wrote =>
    let s' : State := { a.s with next := a.s.next + 1 }
    if a.s.next ≠ c.idx t then
      -- `debug_assert_eq!(i, curr, "we just checked this")`
      some ({ a with s := s', pc := upd a.pc t .panicked }, ⟨s!"X:F{a.s.next}", []⟩)
    else
      some ({ a with s := s', pc := upd a.pc t (if c.isClose t then .done else .incd) }, ⟨s!"F{a.s.next}", []⟩)
  | _ => none

def doWake (c : Cfg) (a : AState) (t : Task) : Option (AState × Ev) :=
  match a.pc t with
  | .incd =>
    let r := waitingWake a.s (c.idx t + 1)
    some ({ a with s := r.1, pc := upd a.pc t .done, woken := mark a.woken r.2 }, ⟨"K", r.2⟩)
  | _ => none

def doRTake (c : Cfg) (a : AState) : Option (AState × Ev) :=
  if a.rpc.holdsLock then none else
  let s := a.s
  let wk := upd a.woken c.reader false
  if s.buf.canRead then
    let cw := s.buf.canWrite
    let r := s.buf.take
    let (wr, w1) := if !cw then (none, s.writeReady.toList) else (s.writeReady, [])
    some ({ a with s := { s with buf := r.1, writeReady := wr }, rpc := .took r.2, woken := mark wk w1 },
          ⟨"T=", w1⟩)
  else
    let s1 : State := { s with streamReady := some c.reader }
    if s.buf.closed then some ({ a with s := s1, rpc := .finished, woken := wk }, ⟨"T:N", []⟩)
    else some ({ a with s := s1, rpc := .idle, woken := wk }, ⟨"T:P", []⟩)

def doRLoad (a : AState) : Option (AState × Ev) :=
  match a.rpc with
  | .took v => some ({ a with rpc := .loaded v a.s.next }, ⟨s!"L{a.s.next}", []⟩)
  | _ => none

def doRWake (a : AState) : Option (AState × Ev) :=
  match a.rpc with
  | .loaded _ n =>
    let r := waitingWake a.s n
    some ({ a with s := r.1, rpc := .idle, woken := mark a.woken r.2 }, ⟨"K", r.2⟩)
  | _ => none

/-- One action; `none` = not enabled in this state. -/
def astep (c : Cfg) (a : AState) : Act → Option (AState × Ev)
  | .load t => doLoad c a t
  | .panicTwice t => doPanicTwice c a t
  | .cs t => doCs c a t
  | .add t => doAdd c a t
  | .inc t => doInc c a t
  | .wake t => doWake c a t
  | .rTake => doRTake c a
  | .rLoad => doRLoad a
  | .rWake => doRWake a

def AState.init (s : State) : AState :=
  { s, pc := fun _ => .fresh, woken := fun _ => false, rpc := .idle }

/-- States reachable by any interleaving of actions of any tasks. -/
inductive Reach (c : Cfg) (s0 : State) : AState → Prop where
  | init : Reach c s0 (AState.init s0)
  | step {a a' : AState} {act : Act} {e : Ev} : Reach c s0 a → astep c a act = some (a', e) → Reach c s0 a'

/-- Run a list of actions, concatenating the woken lists; `none` if one is not enabled. -/
def runActs (c : Cfg) (a : AState) : List Act → Option (AState × List Task)
  | [] => some (a, [])
  | act :: rest =>
    match astep c a act with
    | none => none
    | some (a', e) =>
      match runActs c a' rest with
      | none => none
      | some (a'', w) => some (a'', e.woken ++ w)

/-- The task an action belongs to (`none` = the reader). -/
def Act.task : Act → Option Task
  | .load t | .panicTwice t | .cs t | .add t | .inc t | .wake t => some t
  | _ => none

end IpaVerif.OrderingSenderAtomic
