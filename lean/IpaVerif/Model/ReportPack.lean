import IpaVerif.Model.Util
import IpaVerif.Model.Serde
/-!
Executable model (property C09) of

* field packing used by the shuffle: `BooleanArrayWriter::write` / `BooleanArrayReader::read`
  (`ff/boolean_array.rs`) as used by `join_fields` / `split_fields` and by `Shuffleable::{left,right,new}`
  of `IndistinguishableHybridReport` (`report/hybrid.rs`);
* `HybridImpressionInfo` / `HybridConversionInfo` `to_bytes` / `from_bytes` (`report/hybrid_info.rs`);
* the plaintext layouts `HybridImpressionReport::serialize/deserialize`,
  `HybridConversionReport::serialize/deserialize` (`report/hybrid.rs`);
* `impl Result for Vec<T>` (`query/executor.rs`): the concatenation of the elements' encodings.
-/
namespace IpaVerif.ReportPack
open IpaVerif.Util IpaVerif.Serde

/-! ### field packing -/

/-- `BooleanArrayWriter::new(&mut share).write(f₀).write(f₁)…`: field `i` of width `wᵢ` occupies the bits
after all earlier fields (LSB first); only the `wᵢ` logical bits of a field are copied. -/
def joinFields : List (Nat × Nat) → Nat
  | [] => 0
  | (w, v) :: rest => v % 2 ^ w + 2 ^ w * joinFields rest

/-- `BooleanArrayReader::new(&share).read()…`: successive `wᵢ`-bit fields. -/
def splitFields : List Nat → Nat → List Nat
  | [], _ => []
  | w :: ws, x => x % 2 ^ w :: splitFields ws (x / 2 ^ w)

/-- the writer panics when the fields do not fit the share (`self.0[..len]` out of range) -/
def fits (widths : List Nat) (shareBits : Nat) : Bool := widths.foldl (· + ·) 0 ≤ shareBits

/-! ### Hybrid*Info -/

/-- `HybridImpressionInfo::to_bytes`: the key id. -/
def impInfoEnc (keyId : Nat) : List Nat := [keyId]

/-- `HybridImpressionInfo::from_bytes` (exactly one byte; anything else is a `Length` error). -/
def impInfoDec (bs : List Nat) : Outcome Nat :=
  match bs with
  | [k] => .ok k
  | _ => .err

structure ConvInfo where
  keyId : Nat
  /-- UTF-8 bytes of `conversion_site_domain` -/
  domain : List Nat
  timestamp : Nat
  /-- `f64::to_bits` -/
  epsilon : Nat
  sensitivity : Nat
  deriving Repr, DecidableEq

/-- big-endian bytes (`to_be_bytes`) -/
def beBytes (v n : Nat) : List Nat := (leBytes v n).reverse
def ofBeBytes (bs : List Nat) : Nat := ofLeBytes bs.reverse

/-- `HybridConversionInfo::to_bytes`: domain, NUL, key id, then timestamp / epsilon / sensitivity big-endian. -/
def convInfoEnc (c : ConvInfo) : List Nat :=
  c.domain ++ [0] ++ [c.keyId] ++ beBytes c.timestamp 8 ++ beBytes c.epsilon 8 ++ beBytes c.sensitivity 8

/-- well-formed UTF-8 (what `String::from_utf8` accepts) -/
def utf8Valid : List Nat → Bool
  | [] => true
  | b0 :: rest =>
    if b0 < 0x80 then utf8Valid rest
    else if 0xC2 ≤ b0 && b0 ≤ 0xDF then
      match rest with
      | b1 :: r => 0x80 ≤ b1 && b1 ≤ 0xBF && utf8Valid r
      | _ => false
    else if 0xE0 ≤ b0 && b0 ≤ 0xEF then
      match rest with
      | b1 :: b2 :: r =>
        let lo := if b0 == 0xE0 then 0xA0 else 0x80
        let hi := if b0 == 0xED then 0x9F else 0xBF
        lo ≤ b1 && b1 ≤ hi && 0x80 ≤ b2 && b2 ≤ 0xBF && utf8Valid r
      | _ => false
    else if 0xF0 ≤ b0 && b0 ≤ 0xF4 then
      match rest with
      | b1 :: b2 :: b3 :: r =>
        let lo := if b0 == 0xF0 then 0x90 else 0x80
        let hi := if b0 == 0xF4 then 0x8F else 0xBF
        lo ≤ b1 && b1 ≤ hi && 0x80 ≤ b2 && b2 ≤ 0xBF && 0x80 ≤ b3 && b3 ≤ 0xBF && utf8Valid r
      | _ => false
    else false

/-- split at the first NUL: `(before, after)`; `none` when there is no NUL -/
def splitNul : List Nat → Option (List Nat × List Nat)
  | [] => none
  | b :: rest =>
    if b = 0 then some ([], rest) else
    match splitNul rest with
    | some (d, t) => some (b :: d, t)
    | none => none

/-- `HybridConversionInfo::from_bytes`: no delimiter → error; invalid UTF-8 → error; a tail that is not
exactly 1 + 3·8 bytes → `Length` error. -/
def convInfoDec (bs : List Nat) : Outcome ConvInfo :=
  match splitNul bs with
  | none => .err
  | some (d, tail) =>
    if !utf8Valid d then .err else
    if tail.length ≠ 25 then .err else
    .ok { keyId := tail.getD 0 0, domain := d,
          timestamp := ofBeBytes ((tail.drop 1).take 8),
          epsilon := ofBeBytes ((tail.drop 9).take 8),
          sensitivity := ofBeBytes ((tail.drop 17).take 8) }

/-! ### plaintext report layouts: `Replicated<BA64>` ‖ `Replicated<X>` ‖ info -/

/-- `Hybrid{Impression,Conversion}Report::deserialize`: slicing a buffer shorter than the two shares
panics; the match key is infallible; a bad second share or a bad info is an error. -/
def reportDec {β : Type} (x : Ty) (infoDec : List Nat → Outcome β) (bs : List Nat) :
    Outcome ((Nat × Nat) × x.Val × x.Val × β) :=
  let mkC := pairCodec (bitCodec { name := "BA64", bits := 64, bytes := 8, fallible := false })
    (bitCodec { name := "BA64", bits := 64, bytes := 8, fallible := false })
  let xC := pairCodec (codecOf x) (codecOf x)
  if bs.length < mkC.size + xC.size then .panic else
  match mkC.dec (bs.take mkC.size) with
  | .ok mk =>
    match xC.dec ((bs.drop mkC.size).take xC.size) with
    | .ok (xl, xr) =>
      match infoDec (bs.drop (mkC.size + xC.size)) with
      | .ok info => .ok (mk, xl, xr, info)
      | .err => .err
      | .panic => .panic
    | .err => .err
    | .panic => .panic
  | .err => .err
  | .panic => .panic

def reportEnc {β : Type} (x : Ty) (infoEnc : β → List Nat) (v : (Nat × Nat) × x.Val × x.Val × β) : List Nat :=
  leBytes v.1.1 8 ++ leBytes v.1.2 8 ++ (codecOf x).enc v.2.1 ++ (codecOf x).enc v.2.2.1 ++ infoEnc v.2.2.2

end IpaVerif.ReportPack
