import IpaVerif.Generated.Lifecycle
/-!
# Model of the query lifecycle (C18)

Transcribes `ipa-core/src/query/{state,processor,completion}.rs` for ONE `Processor` (the crate has a
single `QueryId`, so the table `RunningQueries.inner` holds at most one entry).

* `minStatus`, `transition`, `statusOf` are *interpreters of the tables regenerated from state.rs*
  (`IpaVerif.Generated.Lifecycle`): first matching arm wins, exactly like a Rust `match`.
* `step` is one call of the `Processor` API (or one event "the query task returned"), with the
  replies of the other helpers / shards as part of the operation.  Panics are explicit outcomes.
* In-flight `complete` calls are part of the state (`pending`): such a call owns the task's result
  channel and a `RemoveQuery::for_completion` guard that removes the table entry when it drops, but
  only if the entry is still the `AwaitingCompletion(token)` state created by that call (the token is
  modelled by the identifier of the task the call waits for, which is unique per call).

Import-free (core only): the driver links against this file.
-/
namespace IpaVerif.Lifecycle
open IpaVerif.Generated.Lifecycle

/-- pattern of a match arm: `none` is `_`. -/
def pat {α : Type} [DecidableEq α] : Option α → α → Bool
  | none, _ => true
  | some p, x => decide (p = x)

/-- `min_status(a, b)`: first matching arm of the regenerated table. The fall-through value is
unreachable in Rust (exhaustiveness check); see `C18.minStatus_arm_found`. -/
def minStatus (a b : Status) : Status :=
  match minStatusArms.find? (fun arm => pat arm.1 a && pat arm.2.1 b) with
  | some arm => arm.2.2
  | none => a

/-- Result of `QueryState::transition(cur, new)`. -/
inductive TrOut where
  | ok
  | alreadyRunning
  | invalidState (frm to : Status)
  | panic
  deriving DecidableEq, Repr

/-- `QueryState::transition`: first matching arm; the `InvalidState` arm evaluates
`cur_state.into()` and `QueryStatus::from(&new_state)`, both of which panic on `Empty`. -/
def transition (cur new : Kind) : TrOut :=
  match transitionArms.find? (fun arm => pat arm.1 cur && pat arm.2.1 new) with
  | some arm =>
    match arm.2.2 with
    | .ok => .ok
    | .alreadyRunning => .alreadyRunning
    | .invalidState =>
      match kindStatus cur, kindStatus new with
      | some f, some t => .invalidState f t
      | _, _ => .panic
  | none => .panic

/-- Result of a query task. -/
inductive Outcome where
  | ok | err
  deriving DecidableEq, Repr

/-- A stored `QueryState` (`Empty` is never stored). `running id r`: the task with identifier `id`;
`r` is its result if it has already been sent on the oneshot channel (not yet looked at). -/
inductive QS where
  | preparing
  | awaitingInputs
  | running (task : Nat) (res : Option Outcome)
  | awaitingCompletion (task : Nat)
  | completed (res : Outcome)
  deriving DecidableEq, Repr

def QS.kind : QS → Kind
  | .preparing => .preparing
  | .awaitingInputs => .awaitingInputs
  | .running _ _ => .running
  | .awaitingCompletion _ => .awaitingCompletion
  | .completed _ => .completed

/-- State of one processor. -/
structure St where
  entry : Option QS := none
  /-- task ids awaited by in-flight `complete` calls (each owns a `RemoveQuery` guard) -/
  pending : List Nat := []
  /-- number of tasks started so far (= next task id) -/
  next : Nat := 0
  deriving DecidableEq, Repr

/-- Where the processor sits: helper index (0 is the identity mapped to `Role::H1` by the
`PrepareQuery.roles` used in `prepare_helper`), and whether its shard index is `ShardIndex::FIRST`. -/
structure Pos where
  helper : Nat
  leader : Bool
  deriving DecidableEq, Repr

/-- Reply of a peer helper / shard to a broadcast request. -/
inductive Reply where
  | accept | reject
  deriving DecidableEq, Repr

/-- Reply of a shard to `CompareStatusRequest`. -/
inductive SReply where
  | same                -- `Ok`: the shard has the same status
  | differ (s : Status) -- `DifferentStatus { my_status: s }`
  | other               -- any other error
  deriving DecidableEq, Repr

inductive Op where
  | newQuery (peers : List Reply) (shards : List Reply)
  | prepareHelper (shards : List Reply)
  | prepareShard
  | receiveInputs
  | queryStatus (shards : List SReply)
  | shardStatus (req : Status)
  | complete (shards : List Reply)
  | kill
  | taskReturns (task : Nat) (res : Outcome)
  deriving DecidableEq, Repr

inductive Err where
  | alreadyRunning
  | invalidState (frm to : Status)
  | noSuchQuery
  | wrongTarget
  | notLeader
  | leader
  | differentStatus (mine other : Status)
  | mpcTransport
  | shardBroadcast
  | shardError
  | execution
  deriving DecidableEq, Repr

inductive Resp where
  | ok
  | started (task : Nat)       -- receive_inputs succeeded and started this task
  | status (s : Status)
  | err (e : Err)
  | pending (task : Nat)       -- `complete` is waiting for this task
  | stored                     -- task result parked in the channel of the `Running` entry
  | dropped                    -- nobody holds the receiving end any more
  | resolved (r : Resp)        -- the in-flight `complete` waiting for this task returned `r`
  | panic
  deriving DecidableEq, Repr

def anyReject (rs : List Reply) : Bool := rs.any (· == .reject)

def trErr : TrOut → Resp
  | .ok => .ok
  | .alreadyRunning => .err .alreadyRunning
  | .invalidState f t => .err (.invalidState f t)
  | .panic => .panic

def entryKind (e : Option QS) : Kind :=
  match e with
  | none => .empty
  | some q => q.kind

/-- `Processor::get_status`: a `Running` entry whose task has sent its result becomes `Completed`. -/
def refresh : Option QS → Option QS
  | some (.running _ (some r)) => some (.completed r)
  | e => e

/-- `QueryStatus::from(&state)`; `none` = panic. -/
def statusOf (q : QS) : Option Status := kindStatus q.kind

def outcomeResp : Outcome → Resp
  | .ok => .ok
  | .err => .err .execution

/-- fold of `min_status` over the `DifferentStatus` replies; `none` if some reply is another error. -/
def foldStatus (mine : Status) : List SReply → Option Status
  | [] => some mine
  | .same :: rest => foldStatus mine rest
  | .differ s :: rest => foldStatus (minStatus mine s) rest
  | .other :: _ => none

/-- One API call / task event. -/
def step (p : Pos) (s : St) : Op → St × Resp
  | .newQuery peers shards =>
    -- handle.set_state(Preparing)?  (before the guard exists)
    match transition (entryKind s.entry) .preparing with
    | .ok =>
      -- guard = remove_query_on_drop()
      if anyReject peers then ({ s with entry := none }, .err .mpcTransport)
      else if anyReject shards then ({ s with entry := none }, .err .shardBroadcast)
      else
        match transition .preparing .awaitingInputs with
        | .ok => ({ s with entry := some .awaitingInputs }, .ok)
        | t => ({ s with entry := none }, trErr t)
    | t => (s, trErr t)
  | .prepareHelper shards =>
    if p.helper = 0 then (s, .err .wrongTarget)
    else if !p.leader then (s, .err .notLeader)
    else if s.entry.isSome then (s, .err .alreadyRunning)
    else if anyReject shards then (s, .err .shardBroadcast)
    else
      match transition .empty .awaitingInputs with
      | .ok => ({ s with entry := some .awaitingInputs }, .ok)
      | t => (s, trErr t)
  | .prepareShard =>
    if p.leader then (s, .err .leader)
    else if s.entry.isSome then (s, .err .alreadyRunning)
    else
      match transition .empty .awaitingInputs with
      | .ok => ({ s with entry := some .awaitingInputs }, .ok)
      | t => (s, trErr t)
  | .receiveInputs =>
    match s.entry with
    | none => (s, .err .noSuchQuery)
    | some .awaitingInputs => ({ s with entry := some (.running s.next none), next := s.next + 1 }, .started s.next)
    | some q =>
      match statusOf q with
      | some f => (s, .err (.invalidState f .running))
      | none => (s, .panic)
  | .queryStatus shards =>
    if !p.leader then (s, .err .notLeader)
    else
      match refresh s.entry with
      | none => (s, .err .noSuchQuery)
      | some q =>
        let s' := { s with entry := some q }
        match statusOf q with
        | none => (s', .panic)
        | some mine =>
          match foldStatus mine shards with
          | some st => (s', .status st)
          | none => (s', .err .shardBroadcast)
  | .shardStatus req =>
    if p.leader then (s, .err .leader)
    else
      match refresh s.entry with
      | none => (s, .err .noSuchQuery)
      | some q =>
        let s' := { s with entry := some q }
        match statusOf q with
        | none => (s', .panic)
        | some mine => if req ≠ mine then (s', .err (.differentStatus mine req)) else (s', .status mine)
  | .complete shards =>
    match s.entry with
    | none => (s, .err .noSuchQuery)
    | some (.completed r) => ({ s with entry := none }, outcomeResp r)
    | some (.running id r) =>
      -- entry := AwaitingCompletion(token); CompletionHandle { guard(token), task }
      if p.leader && anyReject shards then ({ s with entry := none }, .err .shardError)
      else
        match r with
        | some o => ({ s with entry := none }, outcomeResp o)
        | none => ({ s with entry := some (.awaitingCompletion id), pending := id :: s.pending }, .pending id)
    | some q =>
      match statusOf q with
      | some f => (s, .err (.invalidState f .running))
      | none => (s, .panic)
  | .kill =>
    match s.entry with
    | none => (s, .err .noSuchQuery)
    | some _ => ({ s with entry := none }, .ok)
  | .taskReturns id o =>
    if id ∈ s.pending then
      -- the waiting `complete` returns; its guard removes the entry only if it is still its own
      ({ s with entry := if s.entry = some (.awaitingCompletion id) then none else s.entry,
                pending := s.pending.erase id }, .resolved (outcomeResp o))
    else
      match s.entry with
      | some (.running id' none) =>
        if id' = id then ({ s with entry := some (.running id (some o)) }, .stored) else (s, .dropped)
      | _ => (s, .dropped)

/-- Run a history; returns the final state and, per call, the response and the state after it. -/
def run (p : Pos) : St → List Op → List (Resp × St)
  | _, [] => []
  | s, op :: rest =>
    let (s', r) := step p s op
    (r, s') :: run p s' rest

def finalState (p : Pos) (s : St) (ops : List Op) : St := ops.foldl (fun s op => (step p s op).1) s

/-- passive status of the table entry (what `QueryHandle::status` reports). -/
def passive (s : St) : Option Status :=
  match s.entry with
  | none => none
  | some q => statusOf q

end IpaVerif.Lifecycle
