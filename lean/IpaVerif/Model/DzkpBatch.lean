import IpaVerif.Generated.Dzkp
import IpaVerif.Generated.DzkpGDiff
/-!
Model of one prover's `ProofBatch::generate` (`validation_protocol/proof_generation.rs`, with
`prover.rs: gen_artefacts_from_recursive_step / UVValues::{from_iter, set_masks} / compute_proof(_from_uv)`)
and of the two verifiers' recomputation (`validation.rs: BatchToVerify::{generate_challenges, compute_p_and_q_r,
verify}`, `verifier.rs: compute_g_differences / recursively_compute_final_check`), for the extracted generator
`SmallProofGenerator = ProofGenerator<Fp61BitPrime, 4, 7, 3>` used for the first and the compressed proofs
(`firstL = compressedL = 4`, `firstP = compressedP = 7`: checked by `shape_ok` below against the generated constants).

The model is *generic in the field operations* (`Ops K`): the line-protocol driver runs it with the
`Fp61BitPrime` operations of `IpaVerif.PrimeField` on canonical naturals (suite `c03_batch`, compared with the real
`ProofBatch::generate` + `BatchToVerify::verify` under `TestWorld`), the theorems (`Props/C03Batch.lean`) run the
*same functions* with the operations of an arbitrary field and of `ZMod (2^61 − 1)`.

Parameters that the code obtains from outside:
* `rho lvl` — the seven PRSS values `gen_proof_shares_from_prss` draws for the proof of level `lvl`
  (the prover's `my_proof_right_share` = the right verifier's `share_of_proof_from_prover_left`);
* `mp`, `mq` — the PRSS masks (`my_p_mask` is known to the left verifier, `my_q_mask` to the right verifier);
* `H lvl left right` — `hash_to_field(compute_hash(left), compute_hash(right), L)` (SHA-256 is a parameter).
A Rust panic is `none`. Import-free (core only).
-/
namespace IpaVerif.DzkpBatch
open IpaVerif.Generated.Dzkp IpaVerif.Generated.DzkpGDiff

/-- the field operations used by the code. -/
structure Ops (K : Type) where
  zero : K
  one : K
  add : K → K → K
  sub : K → K → K
  mul : K → K → K
  inv : K → K
  ofNat : Nat → K

/-- `[F; L]`, `L = 4`. -/
structure V4 (K : Type) where
  a : K
  b : K
  c : K
  d : K

/-- `[F; P]`, `P = 7` (one proof, or one share of it). -/
structure P7 (K : Type) where
  p0 : K
  p1 : K
  p2 : K
  p3 : K
  p4 : K
  p5 : K
  p6 : K

/-- the model hard-wires `L = 4`, `P = 7`, `M = 3` for both generators: compared with the extracted constants. -/
def shape_ok : Bool :=
  firstL == 4 && compressedL == 4 && firstP == 7 && compressedP == 7 && firstM == 3 && compressedM == 3

section
variable {K : Type} (o : Ops K)

/-! ## lagrange.rs -/

def others (n i : Nat) : List Nat := (List.range n).filter (· ≠ i)

/-- `js.fold(F::ONE, |acc, j| acc * (x - F::try_from(j)))`. -/
def prodDiff (x : K) (js : List Nat) : K := js.foldl (fun acc j => o.mul acc (o.sub x (o.ofNat j))) o.one

/-- `CanonicalLagrangeDenominator::<F, N>::new().denominator[i]` (`batch_invert` = element-wise inverse). -/
def den (n i : Nat) : K := o.inv (prodDiff o (o.ofNat i) (others n i))

/-- `compute_table_row(x, denominator)[i]`. -/
def coeff (n i : Nat) (x : K) : K := o.mul (den o n i) (prodDiff o x (others n i))

/-- `LagrangeTable::<F, 4, 1>::new(den, x).eval(u)[0]` (`dot_product` accumulates from zero). -/
def eval4 (x : K) (u : V4 K) : K :=
  o.add (o.add (o.add (o.add o.zero (o.mul (coeff o 4 0 x) u.a)) (o.mul (coeff o 4 1 x) u.b))
    (o.mul (coeff o 4 2 x) u.c)) (o.mul (coeff o 4 3 x) u.d)

/-- `interpolate_at_r(zkp, x, den)` = `LagrangeTable::<F, 7, 1>::new(den, x).eval(zkp)[0]`. -/
def eval7 (x : K) (z : P7 K) : K :=
  o.add (o.add (o.add (o.add (o.add (o.add (o.add o.zero (o.mul (coeff o 7 0 x) z.p0)) (o.mul (coeff o 7 1 x) z.p1))
    (o.mul (coeff o 7 2 x) z.p2)) (o.mul (coeff o 7 3 x) z.p3)) (o.mul (coeff o 7 4 x) z.p4))
    (o.mul (coeff o 7 5 x) z.p5)) (o.mul (coeff o 7 6 x) z.p6)

/-! ## prover.rs -/

/-- `u_ex[0..L] = u; u_ex[L..] = LagrangeTable::<F, 4, 3>::from(den).eval(u)` (output points 4, 5, 6). -/
def extend (u : V4 K) : P7 K :=
  ⟨u.a, u.b, u.c, u.d, eval4 o (o.ofNat 4) u, eval4 o (o.ofNat 5) u, eval4 o (o.ofNat 6) u⟩

def zero7 : P7 K := ⟨o.zero, o.zero, o.zero, o.zero, o.zero, o.zero, o.zero⟩

/-- `proof.multiply_accumulate(&u, &v)` (component-wise). -/
def macc (acc u v : P7 K) : P7 K :=
  ⟨o.add acc.p0 (o.mul u.p0 v.p0), o.add acc.p1 (o.mul u.p1 v.p1), o.add acc.p2 (o.mul u.p2 v.p2),
   o.add acc.p3 (o.mul u.p3 v.p3), o.add acc.p4 (o.mul u.p4 v.p4), o.add acc.p5 (o.mul u.p5 v.p5),
   o.add acc.p6 (o.mul u.p6 v.p6)⟩

/-- `compute_proof_from_uv(uv, table)` = `compute_proof` of the extended chunks (for the first proof the
extension is looked up in the pre-extended tables: the same values). -/
def computeProof (cs : List (V4 K × V4 K)) : P7 K :=
  cs.foldl (fun acc c => macc o acc (extend o c.1) (extend o c.2)) (zero7 o)

/-- `gen_other_proof_share(proof, prss_share)`. -/
def sub7 (x y : P7 K) : P7 K :=
  ⟨o.sub x.p0 y.p0, o.sub x.p1 y.p1, o.sub x.p2 y.p2, o.sub x.p3 y.p3, o.sub x.p4 y.p4, o.sub x.p5 y.p5,
   o.sub x.p6 y.p6⟩

/-- `iter.collect::<UVValues<F, 4>>()`: chunks of four pairs, the last chunk zero padded. -/
def collect : List (K × K) → List (V4 K × V4 K)
  | [] => []
  | [p0] => [(⟨p0.1, o.zero, o.zero, o.zero⟩, ⟨p0.2, o.zero, o.zero, o.zero⟩)]
  | [p0, p1] => [(⟨p0.1, p1.1, o.zero, o.zero⟩, ⟨p0.2, p1.2, o.zero, o.zero⟩)]
  | [p0, p1, p2] => [(⟨p0.1, p1.1, p2.1, o.zero⟩, ⟨p0.2, p1.2, p2.2, o.zero⟩)]
  | p0 :: p1 :: p2 :: p3 :: rest => (⟨p0.1, p1.1, p2.1, p3.1⟩, ⟨p0.2, p1.2, p2.2, p3.2⟩) :: collect rest

theorem collect_length (l : List (K × K)) : (collect o l).length = (l.length + 3) / 4 := by
  fun_induction collect o l <;> simp_all <;> omega

/-- `ProverValues(uv.iter()).eval_at_r(table_r)`: the next level's `(u, v)` values. -/
def nextUV (cs : List (V4 K × V4 K)) (r : K) : List (K × K) := cs.map fun c => (eval4 o r c.1, eval4 o r c.2)

/-- `set_masks` on the first chunk: `u[L−1] = u[0]; u[0] = mask`. -/
def maskFirst (c : V4 K × V4 K) (mp mq : K) : V4 K × V4 K :=
  (⟨mp, c.1.b, c.1.c, c.1.a⟩, ⟨mq, c.2.b, c.2.c, c.2.a⟩)

/-- the `while !did_set_masks` loop of `ProofBatch::generate`, from level `lvl` on; returns the left shares
(`my_proofs_left_shares`) of the proofs it generates. `uv` = the current `uv_values` (as a flat list; `uv.length`
= `uv_values.len()`). `none` = `set_masks` on an empty vector (index out of bounds). -/
def loop (rho : Nat → P7 K) (H : Nat → P7 K → P7 K → K) (mp mq : K) (lvl : Nat) (uv : List (K × K)) :
    Option (List (P7 K)) :=
  if _h : uv.length < 4 then
    match collect o uv with
    | [] => none
    | c :: rest => some [sub7 o (computeProof o (maskFirst c mp mq :: rest)) (rho lvl)]
  else
    let cs := collect o uv
    let left := sub7 o (computeProof o cs) (rho lvl)
    (loop rho H mp mq (lvl + 1) (nextUV o cs (H lvl left (rho lvl)))).map (left :: ·)
termination_by uv.length
decreasing_by
  simp only [nextUV, List.length_map, collect_length]
  omega

/-- `ProofBatch::generate(ctx, ids, uv_inputs)`: `inFirst` is what `uv_inputs.extrapolate_y_values` iterates
over (first proof), `inRec` what `uv_inputs.eval_at_r` iterates over (an honest prover passes one input, cloned).
Returns `my_batch_left_shares` (first proof first). `none` = "Proof batch is too large" or the empty-batch panic. -/
def generate (inFirst inRec : List (V4 K × V4 K)) (rho : Nat → P7 K) (H : Nat → P7 K → P7 K → K) (mp mq : K) :
    Option (List (P7 K)) :=
  let left0 := sub7 o (computeProof o inFirst) (rho 0)
  let uv := nextUV o inRec (H 0 left0 (rho 0))
  if uv.length > maxUvValues then none else
  (loop o rho H mp mq 1 uv).map (left0 :: ·)

/-! ## verifier.rs -/

/-- `compute_sum_share::<F, 4, 7>`. -/
def sumShare (z : P7 K) : K := o.add (o.add (o.add (o.add o.zero z.p0) z.p1) z.p2) z.p3
/-- `compute_final_sum_share::<F, 4, 7>` (skips the mask slot). -/
def finalSumShare (z : P7 K) : K := o.add (o.add (o.add o.zero z.p1) z.p2) z.p3

/-- one link of the `expected_sums` chain of `compute_g_differences` (links and their order: generated). -/
def expItem (first : P7 K) (zkps : List (P7 K)) (c0 : K) (ctail : List K) (sumOfUv : K) : Exp → List K
  | .sumOfUv => [sumOfUv]
  | .firstAtC0 => [eval7 o c0 first]
  | .zkpsAtTail => List.zipWith (fun c z => eval7 o c z) ctail zkps

/-- one link of the `g_sums` chain. -/
def gsItem (first : P7 K) (zinit : List (P7 K)) (zlast : P7 K) (ptq : K) : GS → List K
  | .firstSum => [sumShare o first]
  | .initSums => zinit.map (sumShare o)
  | .lastFinalSum => [finalSumShare o zlast]
  | .pTimesQ => [ptq]

/-- `compute_g_differences::<F, 7, 4, 7, 4>(first_zkp, zkps, challenges, sum_of_uv, p_times_q)`;
`none` = panic (`challenges[0]` on an empty slice, `zkps.len() - 1` / `zkps.last().unwrap()` on an empty vector). -/
def gDiff (first : P7 K) (zkps : List (P7 K)) (chs : List K) (sumOfUv ptq : K) : Option (List K) :=
  match chs, zkps.getLast? with
  | c0 :: ctail, some zlast =>
      let expected := expectedChain.flatMap (expItem o first zkps c0 ctail sumOfUv)
      let gsums := gChain.flatMap (gsItem o first zkps.dropLast zlast ptq)
      some (List.zipWith (fun g e => if diffIsGMinusE then o.sub g e else o.sub e g) gsums expected)
  | _, _ => none

/-- `chunk_array::<4>()`: chunks of four, the last one padded with `F::default()` = zero. -/
def chunk4 : List K → List (V4 K)
  | [] => []
  | [x0] => [⟨x0, o.zero, o.zero, o.zero⟩]
  | [x0, x1] => [⟨x0, x1, o.zero, o.zero⟩]
  | [x0, x1, x2] => [⟨x0, x1, x2, o.zero⟩]
  | x0 :: x1 :: x2 :: x3 :: rest => ⟨x0, x1, x2, x3⟩ :: chunk4 rest

/-- one intermediate recursion of the verifier: `recurse_u_or_v(iterator, table_r)`. -/
def recurse (vals : List K) (r : K) : List K := (chunk4 o vals).map (eval4 o r)

/-- the tail of `recursively_compute_final_check`: the `last_u_or_v_values.len() < L` assertion, the
`last_array` (`[mask, v1, v2, v0]`: consistent with the prover's `set_masks`) and its evaluation with the last table. -/
def lastStep (mask : K) (vals : List K) (rl : Option K) : Option K :=
  if vals.length ≥ 4 then none else
  match vals, rl with
  | x0 :: rest, some rl => some (eval4 o rl ⟨mask, rest.getD 0 o.zero, rest.getD 1 o.zero, x0⟩)
  | _, _ => none

/-- `recursively_compute_final_check::<F, 4>(input, challenges, p_or_q_0)`; `rows` = the table rows selected by
the verifier's table indices (`VerifierTableIndices`). `none` = one of the assertions / index panics. -/
def finalCheck (rows : List (V4 K)) (chs : List K) (mask : K) : Option K :=
  if ¬ (minProofRecursion ≤ chs.length ∧ chs.length ≤ maxProofRecursion) then none else
  match chs with
  | [] => none
  | c0 :: ctail =>
      lastStep o mask ((ctail.take (chs.length - 2)).foldl (recurse o) (rows.map (eval4 o c0))) ctail.getLast?

/-- `generate_challenges`: both verifiers hash their share of every proof, exchange the hashes and derive
`hash_to_field(hash_left_share, hash_right_share)` per level (`zip`: as many as both have). -/
def challengesFrom (H : Nat → P7 K → P7 K → K) (lvl : Nat) : List (P7 K) → List (P7 K) → List K
  | l :: ls, r :: rs => H lvl l r :: challengesFrom H (lvl + 1) ls rs
  | _, _ => []

def challenges (H : Nat → P7 K → P7 K → K) (left right : List (P7 K)) : List K := challengesFrom H 0 left right

/-- The two verifiers of one prover: the **left** verifier holds the received shares `left`, the `u` rows
recomputed from its own records, the mask `mp` and the claimed sum `sumOfUv`; the **right** verifier holds the
PRSS shares `right`, its `v` rows and `mq`. Returns the recombined differences
`diff_right (left verifier) + diff_left (right verifier)` that `BatchToVerify::verify` compares with zero.
`none` = a panic in either verifier. -/
def verifyDiffs (uRows vRows : List (V4 K)) (left right : List (P7 K)) (H : Nat → P7 K → P7 K → K)
    (mp mq sumOfUv : K) : Option (List K) :=
  let chs := challenges H left right
  match finalCheck o uRows chs mp, finalCheck o vRows chs mq, left, right with
  | some p, some q, l0 :: ls, r0 :: rs =>
      match gDiff o l0 ls chs sumOfUv (o.mul p q), gDiff o r0 rs chs o.zero o.zero with
      | some dr, some dl => some (List.zipWith o.add dr dl)
      | _, _ => none
  | _, _, _, _ => none

end

/-! ## the `Fp61BitPrime` instance used by the driver -/

open IpaVerif.PrimeField IpaVerif.Generated in
def natOps : Ops Nat :=
  { zero := 0, one := 1, add := fadd, sub := fsub, mul := fmul,
    inv := fun a => (invert fp61 a).getD 0, ofNat := fun n => truncateFrom fp61 n }

end IpaVerif.DzkpBatch
