/-!
Executable model of `ipa-core/src/protocol/context/batcher.rs` (`Batcher`, `BatchState`,
`Batcher::{get_batch, is_ready_for_validation, validate_record, set_total_records,
into_single_batch}`) and of the asynchronous tail of `validate_record` (the future it returns).

Import-free.  Every Rust panic / error is an explicit outcome; every mutation that the Rust code
performs *before* a panic is performed by the model as well (the harness keeps using the batcher
after a caught panic).

* `State`      – the fields of `Batcher` (`batches`, `first_batch`, `records_per_batch`,
                 `total_records`) plus the constant `TARGET_PROOF_SIZE`.
* `BatchState` – `pending_count`, `pending_records`; the user payload `batch : B` is modelled as
                 the index given to the batch constructor plus the list of things pushed into it.
* `World`      – batcher + the futures returned by `validate_record` + the watch channels.
-/
namespace IpaVerif.Batcher

/-- `helpers::TotalRecords`. `specified n` always has `n ≥ 1` in Rust (`NonZeroUsize`). -/
inductive Total where
  | unspecified
  | specified (n : Nat)
  | indeterminate
  deriving Repr, DecidableEq, Inhabited

/-- `TotalRecords::count`. -/
def Total.count : Total → Option Nat
  | .specified n => some n
  | _ => none

inductive Panic where
  /-- `usize::from(record_id) / self.records_per_batch` with `records_per_batch == 0` -/
  | divZero
  /-- "Attempting to access batch {b}, which has already been validated." -/
  | alreadyValidated (b : Nat)
  /-- "validate_record called twice for record {r}" -/
  | twice (r : Nat)
  /-- "record offset {off} exceeds batch size {tc}" -/
  | exceeds (off tc : Nat)
  /-- "Expected batch of {tc} records to be ready for validation, but only have …" -/
  | expectedBatch (tc : Nat)
  /-- "TotalRecords needs a specific value for overwriting" -/
  | needsSpecific
  /-- "TotalRecords bad transition" -/
  | badTransition
  /-- "assertion failed: self.first_batch == 0" -/
  | firstBatchNonzero
  /-- "assertion failed: self.batches.len() <= 1" -/
  | multipleBatches
  /-- `.expect("sender should not be dropped")` -/
  | senderDropped
  deriving Repr, DecidableEq, Inhabited

inductive Err where
  | missingTotal      -- `Error::MissingTotalRecords`
  | outOfRange        -- `Error::RecordIdOutOfRange`
  | parallelFailed    -- `Error::ParallelDZKPValidationFailed`
  | validationFailed  -- what the batch validation closure itself returned
  deriving Repr, DecidableEq, Inhabited

/-- `TotalRecords::overwrite`. -/
def Total.overwrite (old new : Total) : Except Panic Total :=
  match old, new with
  | .unspecified, v => .ok v
  | _, .unspecified => .error .needsSpecific
  | .specified _, .indeterminate => .ok .indeterminate
  | _, _ => .error .badTransition

structure BatchState where
  /-- index the batch constructor was called with -/
  ctor : Nat
  /-- what users pushed into `batch` through `get_batch` -/
  payload : List Nat
  pendingCount : Nat
  pendingRecords : List Bool
  deriving Repr, DecidableEq, Inhabited

structure State where
  firstBatch : Nat
  batches : List (Option BatchState)
  rpb : Nat
  total : Total
  /-- `TARGET_PROOF_SIZE` (8192 under `cfg(test)`, 50_000_000 otherwise) -/
  tps : Nat
  deriving Repr, Inhabited

def State.new (rpb : Nat) (total : Total) (tps : Nat) : State :=
  { firstBatch := 0, batches := [], rpb := rpb, total := total, tps := tps }

/-- `Batcher::set_total_records`. -/
def setTotal (s : State) (t : Total) : Except Panic State :=
  match s.total.overwrite t with
  | .ok t' => .ok { s with total := t' }
  | .error p => .error p

/-- `Batcher::batch_offset`. -/
def batchOffset (s : State) (r : Nat) : Except Panic Nat :=
  if s.rpb = 0 then .error .divZero
  else if r / s.rpb < s.firstBatch then .error (.alreadyValidated (r / s.rpb))
  else .ok (r / s.rpb - s.firstBatch)

def freshBatch (s : State) (idx : Nat) : BatchState :=
  { ctor := idx, payload := [], pendingCount := 0,
    pendingRecords := List.replicate (min s.rpb s.tps) false }

/-- the `while self.batches.len() <= batch_offset { push_back(Some(fresh)) }` loop:
`k` further batches starting at deque length `len`. -/
def freshFrom (s : State) (len : Nat) : Nat → List (Option BatchState)
  | 0 => []
  | k + 1 => some (freshBatch s (s.firstBatch + len)) :: freshFrom s (len + 1) k

def extend (s : State) (off : Nat) : State :=
  { s with batches := s.batches ++ freshFrom s s.batches.length (off + 1 - s.batches.length) }

/-- `Batcher::get_batch_by_offset`: the (possibly extended) state and the slot content;
`none` = the `expect_not_yet_validated` panic. -/
def getBatchByOffset (s : State) (off : Nat) : State × Option BatchState :=
  let s' := extend s off
  (s', (s'.batches.getD off none))

def setSlot (s : State) (off : Nat) (v : Option BatchState) : State :=
  { s with batches := s.batches.set off v }

/-- `Batcher::get_batch(record_id)` followed by the caller pushing `x` into the batch.
Returns the constructor index and the content of the batch after the push. -/
def getBatchPush (s : State) (r x : Nat) : State × Except Panic (Nat × List Nat) :=
  match batchOffset s r with
  | .error p => (s, .error p)
  | .ok off =>
    -- `get_batch_by_offset`
    let s' := extend s off
    match s'.batches.getD off none with
    | none => (s', .error (.alreadyValidated (s.firstBatch + off)))
    | some b =>
      let b' := { b with payload := b.payload ++ [x] }
      (setSlot s' off (some b'), .ok (b'.ctor, b'.payload))

/-- `BitVec::resize(n, false)` — only ever called with `n > len`. -/
def resize (l : List Bool) (n : Nat) : List Bool :=
  l.take n ++ List.replicate (n - l.length) false

/-- "Also remove any batches that completed out of order". -/
def dropNones : List (Option BatchState) → Nat → List (Option BatchState) × Nat
  | none :: rest, f => dropNones rest (f + 1)
  | l, f => (l, f)

inductive VOut where
  | err (e : Err)
  | panic (p : Panic)
  /-- `Ready::No(receiver of batch b)` -/
  | notReady (b : Nat)
  /-- `Ready::Yes { batch_index, batch }` -/
  | ready (b : Nat) (st : BatchState)
  deriving Repr, DecidableEq, Inhabited

/-- all of `pending_records[0..tc]` are set. -/
def allSet (l : List Bool) (tc : Nat) : Bool :=
  (List.range tc).all (fun j => l.getD j false)

/-- The part of `is_ready_for_validation` after the "called twice" check: `b` is the batch state
whose `pending_records` are `bits` (possibly just resized). -/
def markRecord (s1 : State) (off bi tc ro : Nat) (b : BatchState) (bits : List Bool) : State × VOut :=
  let b1 := { b with pendingRecords := bits }
  if ¬ ro < tc then (setSlot s1 off (some b1), .panic (.exceeds ro tc)) else
  let b2 := { b1 with pendingRecords := bits.set ro true, pendingCount := b.pendingCount + 1 }
  if b2.pendingCount = tc then
    if ¬ allSet b2.pendingRecords tc then (setSlot s1 off (some b2), .panic (.expectedBatch tc)) else
    if off = 0 then
      let (rest, f) := dropNones (s1.batches.drop 1) (s1.firstBatch + 1)
      ({ s1 with batches := rest, firstBatch := f }, .ready bi b2)
    else
      (setSlot s1 off none, .ready bi b2)
  else
    (setSlot s1 off (some b2), .notReady bi)

/-- `Batcher::is_ready_for_validation`. -/
def validateRecord (s : State) (r : Nat) : State × VOut :=
  match s.total.count with
  | none => (s, .err .missingTotal)
  | some total =>
    match batchOffset s r with
    | .error p => (s, .panic p)
    | .ok off =>
      let bi := s.firstBatch + off
      let first := bi * s.rpb
      if total < first then (s, .err .outOfRange) else
      let tc := min s.rpb (total - first)
      let ro := r - first
      -- `get_batch_by_offset`
      let s1 := extend s off
      match s1.batches.getD off none with
      | none => (s1, .panic (.alreadyValidated bi))
      | some b =>
        if b.pendingRecords.length ≤ ro then
          markRecord s1 off bi tc ro b (resize b.pendingRecords (ro + 1))
        else if b.pendingRecords.getD ro false then (s1, .panic (.twice r))
        else markRecord s1 off bi tc ro b b.pendingRecords

/-- `Batcher::into_single_batch`: constructor index and payload of the single batch. -/
def intoSingleBatch (s : State) : Except Panic (Nat × List Nat) :=
  if s.firstBatch ≠ 0 then .error .firstBatchNonzero
  else if ¬ s.batches.length ≤ 1 then .error .multipleBatches
  else match s.batches.getLast? with
    | some (some st) => .ok (st.ctor, st.payload)
    | some none => .error (.alreadyValidated 0)
    | none => .ok (0, [])

/-! ## The asynchronous tail: futures returned by `validate_record` -/

inductive Fut where
  /-- `ready?` fails on the first poll -/
  | failed (e : Err)
  /-- `Ready::No`: waits on the watch channel of batch `b` -/
  | waiter (b : Nat)
  /-- `Ready::Yes`: runs the validation closure (invoked at the first poll), then broadcasts -/
  | validator (b : Nat) (st : BatchState) (started : Bool)
  /-- completed, panicked or dropped -/
  | gone
  deriving Repr, DecidableEq, Inhabited

inductive PollOut where
  | pending
  | ok
  | err (e : Err)
  | panic (p : Panic)
  | gone
  deriving Repr, DecidableEq, Inhabited

structure World where
  /-- `none` once consumed by `into_single_batch` -/
  batcher : Option State
  futs : List Fut
  /-- `send_replace`d values, per batch -/
  verdicts : List (Nat × Bool)
  /-- batches whose `watch::Sender` was dropped without a value ever being sent -/
  closedCh : List Nat
  /-- environment: batches whose validation closure's future may complete -/
  released : List Nat
  /-- environment: batches whose validation closure returns `Err` -/
  failing : List Nat
  /-- log of closure invocations: (batch_index, constructor index, payload) -/
  invoked : List (Nat × Nat × List Nat)
  deriving Repr, Inhabited

def World.new (rpb : Nat) (total : Total) (tps : Nat) (failing : List Nat) : World :=
  { batcher := some (State.new rpb total tps), futs := [], verdicts := [], closedCh := [],
    released := [], failing := failing, invoked := [] }

def lookupVerdict (vs : List (Nat × Bool)) (b : Nat) : Option Bool :=
  (vs.find? (fun p => p.1 == b)).map (·.2)

/-- `validate_record(r, closure)`: the future is created, not polled. -/
def World.validate (w : World) (r : Nat) : World × Except Panic Nat :=
  match w.batcher with
  | none => (w, .ok w.futs.length)   -- not reachable from the harness (it answers `gone`)
  | some s =>
    let (s', o) := validateRecord s r
    let w' := { w with batcher := some s' }
    match o with
    | .panic p => (w', .error p)
    | .err e => ({ w' with futs := w'.futs ++ [.failed e] }, .ok w.futs.length)
    | .notReady b => ({ w' with futs := w'.futs ++ [.waiter b] }, .ok w.futs.length)
    | .ready b st => ({ w' with futs := w'.futs ++ [.validator b st false] }, .ok w.futs.length)

/-- one `poll` of future `i`. -/
def World.poll (w : World) (i : Nat) : World × PollOut :=
  match w.futs.getD i .gone with
  | .gone => (w, .gone)
  | .failed e => ({ w with futs := w.futs.set i .gone }, .err e)
  | .waiter b =>
    match lookupVerdict w.verdicts b with
    | some true => ({ w with futs := w.futs.set i .gone }, .ok)
    | some false => ({ w with futs := w.futs.set i .gone }, .err .parallelFailed)
    | none =>
      if w.closedCh.contains b then ({ w with futs := w.futs.set i .gone }, .panic .senderDropped)
      else (w, .pending)
  | .validator b st started =>
    let w1 := if started then w else { w with invoked := w.invoked ++ [(b, st.ctor, st.payload)] }
    if w1.released.contains b then
      let good := !(w1.failing.contains b)
      ({ w1 with futs := w1.futs.set i .gone, verdicts := w1.verdicts ++ [(b, good)] },
        if good then .ok else .err .validationFailed)
    else ({ w1 with futs := w1.futs.set i (.validator b st true) }, .pending)

/-- dropping future `i` (a validator that has not completed takes its sender with it). -/
def World.dropFut (w : World) (i : Nat) : World :=
  match w.futs.getD i .gone with
  | .validator b _ _ => { w with futs := w.futs.set i .gone, closedCh := w.closedCh ++ [b] }
  | _ => { w with futs := w.futs.set i .gone }

/-- batch indices of the live (`Some`) slots. -/
def liveBatches (s : State) : List Nat :=
  (List.range s.batches.length).filter (fun k => (s.batches.getD k none).isSome) |>.map (s.firstBatch + ·)

/-- `into_single_batch(self)`: consumes the batcher; every remaining `BatchState` (and its
`watch::Sender`) is dropped, whether or not the call panics. -/
def World.intoSingle (w : World) : World × Except Panic (Nat × List Nat) :=
  match w.batcher with
  | none => (w, .ok (0, []))
  | some s => ({ w with batcher := none, closedCh := w.closedCh ++ liveBatches s }, intoSingleBatch s)

def World.release (w : World) (b : Nat) : World := { w with released := w.released ++ [b] }

end IpaVerif.Batcher
