/-!
Executable model of the byte-stream parsers of ipa-core (C17):

* `helpers/transport/stream/input.rs`: `BufDeque::{read_bytes, extend, contiguous_len}`,
  `RecordsStream` (`Single` / `Batch`), `LengthDelimitedStream::poll_next`;
* `helpers/transport/stream/buffered.rs`: `BufferedBytesStream::poll_next`;
* `helpers/stream/chunks.rs`: `process_slice_by_chunks`, `StreamChunkProcessor`, `Chunk::unpack`,
  `Chunk::into_iter`, `TryFlattenIters`;  `helpers/stream/exact.rs`: `FixedLength`.

Import-free.  Bytes are `Nat`s `< 256`; the upstream `BytesStream` is a list of `ok chunk | err`
(after the list is exhausted the fused stream keeps answering `None`).  Deserialisation of a record
(`T::deserialize`, `T::try_from`) is *not* part of the model: parsers emit the raw record bytes and
the caller applies the record type.  Rust panics (index out of bounds, `unwrap` on `None`, division
by zero, assertion failures) are explicit outcomes.
-/
namespace IpaVerif.Streams

abbrev Bytes := List Nat

/-- one item of the upstream `BytesStream`. -/
inductive Up where
  | chunk (b : Bytes)
  | err
  deriving Repr, DecidableEq, Inhabited

/-- `BufDeque { buffered_size, buffered }`. -/
structure BufDeque where
  size : Nat
  chunks : List Bytes
  deriving Repr, DecidableEq, Inhabited

def BufDeque.empty : BufDeque := ⟨0, []⟩

/-- `contiguous_len`. -/
def BufDeque.contiguousLen (b : BufDeque) : Nat :=
  match b.chunks with
  | [] => 0
  | c :: _ => c.length

/-- the cross-buffer `loop` of `read_bytes`: `rem` bytes are still missing, `acc` collected so far.
`none` = panic (`self.buffered[0]` / `pop_front().unwrap()` on an empty deque). -/
def gather : List Bytes → Nat → Bytes → Option (Bytes × List Bytes)
  | cs, 0, acc => some (acc, cs)
  | [], _ + 1, _ => none
  | c :: cs, rem + 1, acc =>
    if c.length > rem + 1 then some (acc ++ c.take (rem + 1), c.drop (rem + 1) :: cs)
    else gather cs (rem + 1 - c.length) (acc ++ c)

inductive ReadRes where
  /-- `None`: not enough data, or `len == 0` -/
  | none
  | some (b : Bytes)
  | panic
  deriving Repr, DecidableEq, Inhabited

/-- `BufDeque::read_bytes`. -/
def BufDeque.readBytes (b : BufDeque) (len : Nat) : ReadRes × BufDeque :=
  if len = 0 ∨ b.size < len then (.none, b)
  else match b.chunks with
    | [] => (.panic, b)
    | c :: cs =>
      if c.length ≥ len then
        (.some (c.take len),
          { size := b.size - len, chunks := if (c.drop len).isEmpty then cs else c.drop len :: cs })
      else match gather (c :: cs) len [] with
        | none => (.panic, b)
        | some (out, rest) => (.some out, { size := b.size - out.length, chunks := rest })

/-- `BufDeque::extend(Some(Ok(bytes)))`. -/
def BufDeque.push (b : BufDeque) (c : Bytes) : BufDeque :=
  { size := b.size + c.length, chunks := b.chunks ++ [c] }

/-- what a parser yields. -/
inductive Item where
  /-- one record (`Single` mode) -/
  | record (b : Bytes)
  /-- a vector of records (`Batch` mode, `LengthDelimitedStream`) -/
  | batch (l : List Bytes)
  /-- "stream terminated with {n} extra bytes" -/
  | errTrailing (n : Nat)
  /-- the upstream yielded an error -/
  | errUpstream
  /-- `Poll::Ready(None)` -/
  | done
  | panic
  deriving Repr, DecidableEq, Inhabited

def Item.isTerminal : Item → Bool
  | .record _ => false
  | .batch _ => false
  | _ => true

/-- cut `bs` into pieces of `sz` bytes (`bytes.chunks(sz)`; `bs.length` is a multiple of `sz`). -/
def chunksOf (sz : Nat) : Nat → Bytes → List Bytes
  | 0, _ => []
  | n + 1, bs => bs.take sz :: chunksOf sz n (bs.drop sz)

structure RState where
  buf : BufDeque
  up : List Up
  deriving Repr, Inhabited

/-- `RecordsStream::poll_next`; `batch = false` is `Single`, `true` is `Batch`.
The loop runs at most `up.length + 1` times (every iteration but the last consumes an upstream item). -/
def recordsPoll (batch : Bool) (sz : Nat) : Nat → RState → Item × RState
  | 0, s => (.panic, s)   -- unreachable: fuel exhausted
  | fuel + 1, s =>
    if batch ∧ sz = 0 then (.panic, s) else   -- `contiguous_len() / T::Size::USIZE`
    let count := if batch then max 1 (s.buf.contiguousLen / sz) else 1
    match s.buf.readBytes (count * sz) with
    | (.panic, b) => (.panic, { s with buf := b })
    | (.some bs, b) =>
      (if batch then .batch (chunksOf sz count bs) else .record bs, { s with buf := b })
    | (.none, b) =>
      match s.up with
      | [] => (if b.size > 0 then .errTrailing b.size else .done, { s with buf := b })
      | .err :: rest => (.errUpstream, { buf := b, up := rest })
      | .chunk c :: rest => recordsPoll batch sz fuel { buf := b.push c, up := rest }

/-- poll until the first terminal item (end of stream or error). -/
def recordsRun (batch : Bool) (sz : Nat) : Nat → RState → List Item
  | 0, _ => [.panic]
  | fuel + 1, s =>
    match recordsPoll batch sz (s.up.length + 1) s with
    | (it, s') => if it.isTerminal then [it] else it :: recordsRun batch sz fuel s'

def totalBytes : List Up → Nat
  | [] => 0
  | .chunk c :: r => c.length + totalBytes r
  | .err :: r => totalBytes r

/-- the whole stream: `RecordsStream::new(upstream)` polled to its first terminal item. -/
def records (batch : Bool) (sz : Nat) (up : List Up) : List Item :=
  recordsRun batch sz (totalBytes up + 2) { buf := .empty, up := up }

/-! ### `LengthDelimitedStream` -/

structure LState where
  buf : BufDeque
  pending : Option Nat
  up : List Up
  deriving Repr, Inhabited

/-- locals of one `poll_next` call. -/
structure LLocals where
  available : Nat := 0
  consumed : Nat := 0
  items : List Bytes := []
  deriving Repr, Inhabited

/-- `u16::from_le_bytes`. -/
def le16 (bs : Bytes) : Nat := bs.getD 0 0 + 256 * bs.getD 1 0

/-- step 1 of the loop body: `if pending_len.is_none() { read_infallible::<Length>() … }`.
Returns the read outcome (`.none` = nothing read), the pending length and the buffer afterwards. -/
def ldHeader (pending : Option Nat) (b : BufDeque) : ReadRes × Option Nat × BufDeque :=
  match pending with
  | some len => (.none, some len, b)
  | none =>
    match b.readBytes 2 with
    | (.some bs, b1) => (.some bs, some (le16 bs), b1)
    | (.none, b1) => (.none, none, b1)
    | (.panic, b1) => (.panic, none, b1)

/-- step 2: `if let Some(len) = pending_len { if len == 0 { Some(empty) } else { read_bytes(len) } }`. -/
def ldBody (pending : Option Nat) (b : BufDeque) : ReadRes × BufDeque :=
  match pending with
  | none => (.none, b)
  | some len => if len = 0 then (.some [], b) else b.readBytes len

/-- `consumed_len` after the header step. -/
def consumedAfter (h : ReadRes) (consumed : Nat) : Nat :=
  match h with
  | .some _ => consumed + 2
  | _ => consumed

def ldPoll : Nat → LState → LLocals → Item × LState
  | 0, s, _ => (.panic, s)
  | fuel + 1, s, l =>
    match ldHeader s.pending s.buf with
    | (.panic, _, b) => (.panic, { s with buf := b })
    | (h, pending, b1) =>
      let consumed1 := consumedAfter h l.consumed
      match ldBody pending b1 with
      | (.panic, b) => (.panic, { s with buf := b })
      | (.some bs, b2) =>
        let consumed2 := consumed1 + bs.length
        let items := l.items ++ [bs]
        if l.available ≠ 0 ∧ consumed2 < l.available then
          ldPoll fuel { s with buf := b2, pending := none } { l with consumed := consumed2, items := items }
        else (.batch items, { s with buf := b2, pending := none })
      | (.none, b2) =>
        if !l.items.isEmpty then (.batch l.items, { s with buf := b2, pending := pending }) else
        match s.up with
        | [] =>
          if b2.size > 0 then (.errTrailing b2.size, { s with buf := b2, pending := pending })
          else if pending.isSome then (.errTrailing 2, { s with buf := b2, pending := pending })
          else (.done, { s with buf := b2, pending := pending })
        | .err :: rest => (.errUpstream, { buf := b2, pending := pending, up := rest })
        | .chunk c :: rest =>
          let b3 := b2.push c
          let av := if l.available = 0 then b3.contiguousLen else l.available
          ldPoll fuel { buf := b3, pending := pending, up := rest }
            { l with available := av, consumed := consumed1 }

/-- upper bound on the number of loop iterations of one `poll_next` (each iteration consumes a
record or an upstream item). -/
def ldFuel (s : LState) : Nat := 2 * (s.buf.size + totalBytes s.up) + s.up.length + 3

def ldRun : Nat → LState → List Item
  | 0, _ => [.panic]
  | fuel + 1, s =>
    match ldPoll (ldFuel s) s {} with
    | (it, s') => if it.isTerminal then [it] else it :: ldRun fuel s'

def lengthDelimited (up : List Up) : List Item :=
  ldRun (2 * totalBytes up + 2) { buf := .empty, pending := none, up := up }

/-! ### `BufferedBytesStream` -/

structure BState where
  buffer : Bytes
  up : List Up
  deriving Repr, Inhabited

def bufferedPoll (sz : Nat) : Nat → BState → Item × BState
  | 0, s => (.panic, s)
  | fuel + 1, s =>
    if s.buffer.length ≥ sz then
      (.record (s.buffer.take sz), { s with buffer := s.buffer.drop sz })
    else match s.up with
      | [] => (if s.buffer.isEmpty then .done else .record s.buffer, { s with buffer := [] })
      | .err :: rest => (.errUpstream, { s with up := rest })
      | .chunk c :: rest => bufferedPoll sz fuel { buffer := s.buffer ++ c, up := rest }

def bufferedRun (sz : Nat) : Nat → BState → List Item
  | 0, _ => [.panic]
  | fuel + 1, s =>
    match bufferedPoll sz (s.up.length + 1) s with
    | (it, s') => if it.isTerminal then [it] else it :: bufferedRun sz fuel s'

/-- `BufferedBytesStream::new(upstream, sz)` (`sz : NonZeroUsize`) polled to its first terminal item. -/
def buffered (sz : Nat) (up : List Up) : List Item :=
  bufferedRun sz (totalBytes up + 2) { buffer := [], up := up }

/-! ### `helpers/stream/chunks.rs` -/

inductive ChunkType where
  | full
  | part (len : Nat)
  deriving Repr, DecidableEq, Inhabited

/-- `process_slice_by_chunks::<N>`: `(idx, chunk type, data of exactly N items)`;
`dflt` is `T::default()`. -/
def sliceChunksFrom {α} (N : Nat) (dflt : α) : Nat → Nat → List α → List (Nat × ChunkType × List α)
  | 0, _, _ => []
  | fuel + 1, idx, l =>
    if l.length ≥ N then (idx, .full, l.take N) :: sliceChunksFrom N dflt fuel (idx + 1) (l.drop N)
    else if l.length ≠ 0 then [(idx, .part l.length, l ++ List.replicate (N - l.length) dflt)]
    else []

def sliceChunks {α} (N : Nat) (dflt : α) (l : List α) : List (Nat × ChunkType × List α) :=
  sliceChunksFrom N dflt (l.length + 1) 0 l

/-- `Chunk::into_iter`: `data.take(len)`. -/
def chunkIter {α} (N : Nat) : ChunkType × List α → List α
  | (.full, d) => d.take N
  | (.part len, d) => d.take len

inductive UnpackRes (α : Type) where
  | ok (l : List (ChunkType × α))
  /-- "input to Chunk::unpack … was not chunked properly" / `debug_assert!(N % M == 0)` / division by zero -/
  | panic
  deriving Repr

def unpackGo {α} (M : Nat) : List α → Nat → List (ChunkType × α)
  | [], _ => []
  | item :: rest, len =>
    if len = 0 then []
    else if len ≥ M then (.full, item) :: unpackGo M rest (len - M)
    else (.part len, item) :: unpackGo M rest 0

/-- `Chunk::<Vec<T>, N>::unpack::<M>`. -/
def unpack {α} (N M : Nat) (ct : ChunkType) (data : List α) : UnpackRes α :=
  if M = 0 then .panic
  else if N % M ≠ 0 then .panic
  else
    let len := match ct with | .part l => l | .full => N
    let okLen : Bool := match ct with
      | .part l => decide ((l + M - 1) / M ≤ data.length ∧ data.length ≤ N / M)
      | .full => decide (data.length = N / M)
    if !okLen then .panic else .ok (unpackGo M data len)

/-- items of a `TryStream`: `ok x | err`. -/
inductive TItem (α : Type) where
  | ok (x : α)
  | err
  deriving Repr, DecidableEq

/-- `TryFlattenIters`: flatten until the first error, then end. -/
def tryFlatten {α} : List (TItem (List α)) → List (TItem α)
  | [] => []
  | .err :: _ => [.err]
  | .ok l :: rest => l.map .ok ++ tryFlatten rest

/-- `StreamChunkProcessor` (`process_stream_by_chunks::<N>` with a `Vec` buffer): chunks of `N` items;
an upstream error is passed on and terminates; a partial tail is padded with `dflt`. -/
def streamChunksGo {α} (N : Nat) (dflt : α) : List (TItem α) → List α → Nat → List (TItem (Nat × ChunkType × List α))
  | [], buf, idx => if buf.length ≠ 0 then [.ok (idx, .part buf.length, buf ++ List.replicate (N - buf.length) dflt)] else []
  | .err :: _, _, _ => [.err]
  | .ok x :: rest, buf, idx =>
    if (buf ++ [x]).length = N then .ok (idx, .full, buf ++ [x]) :: streamChunksGo N dflt rest [] (idx + 1)
    else streamChunksGo N dflt rest (buf ++ [x]) idx

def streamChunks {α} (N : Nat) (dflt : α) (l : List (TItem α)) : List (TItem (Nat × ChunkType × List α)) :=
  streamChunksGo N dflt l [] 0

/-- `FixedLength::new(inner, len)` drained: the items pass through; in a debug build the end of the
inner stream asserts that exactly `len` items were seen (`true` = the assertion fails). -/
def fixedLength {α} (len : Nat) (inner : List α) : List α × Bool :=
  (inner, inner.length ≠ len)

end IpaVerif.Streams
