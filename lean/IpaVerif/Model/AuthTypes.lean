/-! Data types of the HTTP routing / authentication model (C20); the generated route trees
(`IpaVerif.Generated.Routes`) are values of `RouterExpr`. Import-free. -/
namespace IpaVerif.Auth

/-- `ConnectionFlavor`: helper-to-helper or shard-to-shard. -/
inductive Flavor where
  | helper | shard
  deriving DecidableEq, Repr

inductive Method where
  | get | post | put | delete | patch | head | options
  deriving DecidableEq, Repr

/-- tower layers that occur in the routers. -/
inductive Layer where
  | auth (f : Flavor)   -- `layer_fn(HelperAuthentication::<_, F>::new)`
  | extension           -- `Extension(transport)`
  deriving DecidableEq, Repr

/-- One segment of an axum path template. -/
inductive Seg where
  | lit (s : String)
  | param        -- `:name`
  | wildcard     -- `*name` (one or more trailing segments)
  deriving DecidableEq, Repr

/-- An axum router expression, in source order (path templates already split into segments by the
translator: `/a/:b/*c` → `[lit "a", param, wildcard]`, empty segments dropped). -/
inductive RouterExpr where
  | new
  | route (r : RouterExpr) (path : List Seg) (m : Method) (handler : String)
  | merge (a b : RouterExpr)
  | nest (r : RouterExpr) (pre : List Seg) (sub : RouterExpr)
  | layer (r : RouterExpr) (l : Layer)
  deriving Repr

/-- One arm of `match (self.config.disable_https, listener)` in `IpaHttpServer::start_on`:
what the arm passes to `spawn_server`. -/
structure StartArm where
  disableHttps : Bool
  listener : Bool
  /-- the make-service handed to `spawn_server` is (a binding of) the traced router wrapped in
  `SetClientIdentityFromHeader` — whether the wrapping is written in the arm or in a `let` before
  the `match` -/
  headerLayer : Bool
  /-- the server handed to `spawn_server` accepts through `ClientCertRecognizingAcceptor` over
  `from_tcp_rustls` / `bind_rustls` -/
  tlsAcceptor : Bool
  /-- `false`: the translator did not recognise the shape of this arm; the other fields are then the
  fallback "what the property demands" so that the model stays executable (the translator item is
  reported broken and the per-arm theorems fail) -/
  recognised : Bool := true
  deriving DecidableEq, Repr

/-- How `rustls_config` treats client certificates (regenerated). -/
structure TlsSetup where
  /-- the trust anchors of the client verifier are exactly the certificates of the peers in the
  server's `NetworkConfig` -/
  anchorsFromPeers : Bool
  /-- `.allow_unauthenticated()`: a client without certificate completes the handshake -/
  clientAuthOptional : Bool
  /-- `.with_client_cert_verifier(client_verifier)`: the server asks for a client certificate -/
  verifierInstalled : Bool
  /-- `false`: shape not recognised by the translator; the other fields are the fallback -/
  recognised : Bool := true
  deriving DecidableEq, Repr

/-- How `ClientCertRecognizingAcceptor::accept` turns `peer_certificates()` (everything the client put
into its Certificate message: the end-entity certificate FIRST, then whatever else it chose to
send) into the `ClientIdentity` of the connection, and how `NetworkConfig::identify_cert` compares
(regenerated). -/
structure AcceptSelect where
  /-- the certificate handed to `identify_cert` is `peer_certificates().and_then(<[_]>::first)`:
  the end-entity certificate, the only one the client proved possession of the key for -/
  firstOnly : Bool
  /-- `identify_cert` is called exactly once in `accept`, on that selection, and its result alone
  (`option_id.map(ClientIdentity)`) becomes the `id` of `SetClientIdentityFromCertificate` -/
  identifyOnce : Bool
  /-- `identify_cert`: `None` for no certificate (early `cert?`), otherwise the identity of the first
  configured peer whose pinned certificate is byte-identical (`p.certificate.as_ref() == Some(cert)`) -/
  exactMatch : Bool
  /-- `false`: shape not recognised by the translator; the other fields are the fallback -/
  recognised : Bool := true
  deriving DecidableEq, Repr

/-- What stands between the caller's `ServerConfig` and the `match (self.config.disable_https, listener)` of
`start_on` (regenerated, plugin `c20_ctor`). -/
structure ServerCtor where
  /-- `new_mpc` / `new_shards` end in `IpaHttpServer { config, network_config, router }` with `config` the
  parameter, untouched; no other struct literal of `IpaHttpServer` exists outside tests -/
  storesConfig : Bool
  /-- nothing under net/server/** assigns to `disable_https` / `tls` or borrows a server config mutably -/
  neverAssigned : Bool
  /-- every rustls arm of `start_on` does `rustls_config(&self.config, ..).await.expect("invalid TLS
  configuration")` and `certificate_and_key` answers `Err` for `tls == None` -/
  tlsNeedsMaterial : Bool
  /-- `false`: shape not recognised by the translator; the other fields are the fallback -/
  recognised : Bool := true
  deriving DecidableEq, Repr

end IpaVerif.Auth
