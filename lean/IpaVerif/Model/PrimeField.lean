import IpaVerif.Model.Util
/-!
Executable model of `ipa-core/src/ff/prime_field.rs` (`field_impl!`, `rem_modulo_impl!`,
`Fp61BitPrime::modulo_prime_u128`, `PrimeField::invert`, `batch_invert`) and of
`ipa-core/src/ff/accumulator.rs`.

Values are `Nat`; the Rust integer widths are explicit parameters so that "no overflow" is a
theorem (Props/C08) instead of an artefact of using unbounded naturals.
-/
namespace IpaVerif.PrimeField

structure Params where
  name : String
  /-- `PrimeField::PRIME` -/
  p : Nat
  /-- `SharedValue::BITS` -/
  bits : Nat
  /-- width of `$backend_store` -/
  storeBits : Nat
  /-- width of `$op_store` -/
  opBits : Nat
  /-- `true` for the hand-written Mersenne reduction of `Fp61BitPrime` -/
  mersenne : Bool
  deriving Repr

/-- `Fp61BitPrime::modulo_prime_u128`: two folding rounds, then the final conditional. -/
def mersenneReduce (P : Params) (val : Nat) : Nat :=
  let v1 := (val &&& P.p) + (val >>> P.bits)
  let v2 := (v1 &&& P.p) + (v1 >>> P.bits)
  if v2 ≥ P.p then v2 - P.p else v2

/-- `modulo_prime_base` / `modulo_prime_u128`. -/
def reduce (P : Params) (val : Nat) : Nat :=
  if P.mersenne then mersenneReduce P val else val % P.p

def add (P : Params) (a b : Nat) : Nat := reduce P (a + b)
def sub (P : Params) (a b : Nat) : Nat := reduce P (P.p + a - b)
def mul (P : Params) (a b : Nat) : Nat := reduce P (a * b)
/-- `Neg`: `(PRIME - self.0) % PRIME`. -/
def neg (P : Params) (a : Nat) : Nat := (P.p - a) % P.p

/-- `U128Conversions::truncate_from` on a `u128`. -/
def truncateFrom (P : Params) (v : Nat) : Nat := reduce P v

/-- number of significant bits (`u128::BITS - v.leading_zeros()`). -/
def bitLen (v : Nat) : Nat := if v = 0 then 0 else Nat.log2 v + 1

/-- `TryFrom<u128>`. -/
def tryFrom (P : Params) (v : Nat) : Option Nat :=
  if bitLen v ≤ P.bits then some (truncateFrom P v) else none

/-- One iteration of the sign-tracking extended Euclid loop of `PrimeField::invert`. -/
structure InvState where
  t : Nat
  newt : Nat
  r : Nat
  newr : Nat
  sign : Nat
  deriving Repr, DecidableEq

def invStep (s : InvState) : InvState :=
  let q := s.r / s.newr
  -- swap(t,newt); swap(r,newr); newt += q*t; newr -= q*r
  { t := s.newt, newt := s.t + q * s.newt, r := s.newr, newr := s.r - q * s.newr, sign := 1 - s.sign }

def invLoop : Nat → InvState → InvState
  | 0, s => s
  | fuel + 1, s => if s.newr = 0 then s else invLoop fuel (invStep s)

/-- `PrimeField::invert`; `none` models the `assert_ne!(self, ZERO)` panic. -/
def invert (P : Params) (a : Nat) : Option Nat :=
  if a = 0 then none else
  let s := invLoop 200 { t := 0, newt := 1, r := P.p, newr := a, sign := 1 }
  tryFrom P ((1 - s.sign) * s.t + s.sign * (P.p - s.t))

/-- `batch_invert` (N ≥ 1); `none` if some inversion panics. -/
def batchInvert (P : Params) (xs : List Nat) : Option (List Nat) :=
  match xs with
  | [] => none
  | x0 :: rest =>
    -- prefix products
    let prefixes := rest.foldl (fun (acc : List Nat) x => acc ++ [mul P x (acc.getLastD 0)]) [x0]
    match invert P (prefixes.getLastD 0) with
    | none => none
    | some inv =>
      -- walk from the back: running = inverse of prefix product up to i
      let n := xs.length
      let rec go (i : Nat) (running : Nat) (out : List Nat) : List Nat :=
        match i with
        | 0 => running :: out
        | i' + 1 =>
          let invI := mul P running (prefixes.getD i' 0)
          let running' := mul P running (xs.getD (i' + 1) 0)
          go i' running' (invI :: out)
      some (go (n - 1) inv [])

/-- Deferred-reduction accumulator (`Accumulator<F, u128, INTERVAL>`); `none` = u128 overflow. -/
structure Acc where
  value : Nat
  count : Nat
  deriving Repr

def accStep (P : Params) (interval : Nat) (s : Option Acc) (ab : Nat × Nat) : Option Acc :=
  match s with
  | none => none
  | some s =>
    let v := s.value + ab.1 * ab.2
    if v ≥ 2 ^ 128 then none else
    if s.count + 1 = interval then some { value := truncateFrom P v, count := 0 }
    else some { value := v, count := s.count + 1 }

def accDot (P : Params) (interval : Nat) (pairs : List (Nat × Nat)) : Option Nat :=
  match pairs.foldl (accStep P interval) (some { value := 0, count := 0 }) with
  | none => none
  | some s => some (truncateFrom P s.value)

/-- Plain dot product with reduction after every operation (the generic `MultiplyAccumulate`). -/
def plainDot (P : Params) (pairs : List (Nat × Nat)) : Nat :=
  pairs.foldl (fun acc ab => add P acc (mul P ab.1 ab.2)) 0

/-- `Serializable::serialize`: little-endian, `storeBits/8` bytes. -/
def serialize (P : Params) (a : Nat) : List Nat := Util.leBytes a (P.storeBits / 8)

/-- `Serializable::deserialize`: `none` = `GreaterThanPrimeError` (or wrong length). -/
def deserialize (P : Params) (bs : List Nat) : Option Nat :=
  if bs.length ≠ P.storeBits / 8 then none else
  let v := Util.ofLeBytes bs
  if v < P.p then some v else none

end IpaVerif.PrimeField
