import IpaVerif.Model.PrimeField
import IpaVerif.Generated.PrimeFields
import IpaVerif.Generated.Dzkp
import IpaVerif.Generated.DzkpGDiff
/-!
Executable model of the DZKP multiplication-proof machinery (property C03):

* `protocol/context/dzkp_field.rs`: `intermediates_to_table_indices`, the three `table_indices_*`
  (the tables, the constants and the straight-line body of `bits_to_table_indices` are machine-translated:
  `IpaVerif.Generated.Dzkp`);
* `protocol/ipa_prf/malicious_security/lagrange.rs`: `CanonicalLagrangeDenominator::new`,
  `LagrangeTable::{new, from, eval}`, `compute_table_row`, `dot_product`;
* `…/prover.rs`: `UVValues::from_iter`, `set_masks`, `compute_proof`, `compute_proof_from_uv`, `eval_at_r`;
* `…/verifier.rs`: `interpolate_at_r`, `compute_sum_share`, `compute_final_sum_share`,
  `compute_g_differences`, `recursively_compute_final_check`;
* `helpers/hashing.rs`: the arithmetic tail of `hash_to_field` (SHA-256 is a parameter);
* the single-gate three-helper view model used by `gate_views`.

Field elements are canonical `Nat`s of `Fp61BitPrime` (`IpaVerif.PrimeField` with `fp61`). A Rust panic is `none`.
Import-free (core only).
-/
namespace IpaVerif.Dzkp
open IpaVerif.PrimeField IpaVerif.Generated IpaVerif.Generated.Dzkp

/-! ## table indices -/

/-- `i[..128].load_le::<u128>()` (h = 0) / `i[128..].load_le::<u128>()` (h = 1). -/
def half (x h : Nat) : Nat := (x >>> (128 * h)) % 2 ^ 128

/-- the two emission loops of `intermediates_to_table_indices` for one half: iteration `t` emits, for
`w = 0..3` in turn, `(z_w as u8) & 0x7` where `z_w` has been shifted right by `4·t`; so output position
`4·t + w` comes from word `w`. -/
def emitHalf (zs : List Nat) : List Nat :=
  (List.range (4 * idxIterations)).map fun pos =>
    ((zs.getD (pos % 4) 0 >>> (idxShift * (pos / 4))) % 256) &&& idxMask

def intermediatesToTableIndices (i0 i1 i2 : Nat) : List Nat :=
  emitHalf (bitsToTableIndices (half i0 0) (half i1 0) (half i2 0)) ++
  emitHalf (bitsToTableIndices (half i0 1) (half i1 1) (half i2 1))

def triple (t : Nat × Nat × Nat) : List Nat := intermediatesToTableIndices t.1 t.2.1 t.2.2

def tableIndicesProver (B : Block) : List (Nat × Nat) :=
  (triple (proverTriples B).1).zip (triple (proverTriples B).2)
def tableIndicesFromRightProver (B : Block) : List Nat := triple (fromRightProverTriple B)
def tableIndicesFromLeftProver (B : Block) : List Nat := triple (fromLeftProverTriple B)

/-! ## Lagrange tables -/

def others (n i : Nat) : List Nat := (List.range n).filter (· ≠ i)

/-- `CanonicalLagrangeDenominator::<F, N>::new().denominator`; `none` = panic inside `batch_invert`. -/
def denominators (n : Nat) : Option (List Nat) :=
  batchInvert fp61 ((List.range n).map fun i => (others n i).foldl (fun acc j => fmul acc (fsub i j)) 1)

/-- `LagrangeTable::compute_table_row(x_output, denominator)`. -/
def tableRow (n : Nat) (den : List Nat) (x : Nat) : List Nat :=
  ((List.range n).zip den).map fun (i, d) => fmul d ((others n i).foldl (fun acc j => fmul acc (fsub x j)) 1)

/-- `dot_product` (deferred-reduction accumulator of `Fp61BitPrime`). -/
def dot (a b : List Nat) : Option Nat := accDot fp61 accInterval (a.zip b)

/-- `LagrangeTable::<F, N, M>::from(denominator)`: rows for x = N … N+M−1. -/
def tableFrom (n m : Nat) (den : List Nat) : List (List Nat) :=
  (List.range m).map fun k => tableRow n den (n + k)

/-- `LagrangeTable::eval`. -/
def evalTable (table : List (List Nat)) (ys : List Nat) : Option (List Nat) :=
  table.mapM fun row => dot row ys

/-- `LagrangeTable::<F, N, 1>::new(denominator, r).eval(ys)[0]`. -/
def evalAt (n : Nat) (den : List Nat) (r : Nat) (ys : List Nat) : Option Nat := dot (tableRow n den r) ys

/-! ## prover -/

/-- split into chunks of `L`, the last one zero-padded (`UVValues::from_iter`, `chunk_array`). -/
def chunkPad (L : Nat) (xs : List Nat) : List (List Nat) :=
  if L = 0 then [] else
  let n := (xs.length + L - 1) / L
  (List.range n).map fun k => (List.range L).map fun i => xs.getD (k * L + i) 0

structure UV where
  chunks : List (List Nat × List Nat)
  length : Nat
  deriving Repr

/-- `iter.collect::<UVValues<F, L>>()`. -/
def collectUV (L : Nat) (us vs : List Nat) : UV :=
  { chunks := (chunkPad L us).zip (chunkPad L vs), length := us.length }

/-- `UVValues::set_masks`; `none` = `Err(DZKPMasks)` or an out-of-bounds panic on an empty vector
(both abort proof generation: the caller `unwrap`s). -/
def setMasks (L : Nat) (uv : UV) (p q : Nat) : Option UV :=
  if uv.length ≥ L then none else
  match uv.chunks with
  | [] => none
  | (u, v) :: rest =>
      let u' := (u.set (L - 1) (u.getD 0 0)).set 0 p
      let v' := (v.set (L - 1) (v.getD 0 0)).set 0 q
      some { chunks := (u', v') :: rest, length := uv.length }

/-- `ProofGenerator::compute_proof` on already extrapolated `(u, v)` arrays of length `P`:
component-wise multiply-accumulate (`AccumulatorArray<P>`). -/
def computeProof (P : Nat) (pairs : List (List Nat × List Nat)) : Option (List Nat) :=
  (List.range P).mapM fun i => accDot fp61 accInterval (pairs.map fun (u, v) => (u.getD i 0, v.getD i 0))

/-- `ProofGenerator::compute_proof_from_uv(uv, lagrange_table)`. -/
def computeProofFromUv (P : Nat) (table : List (List Nat)) (chunks : List (List Nat × List Nat)) :
    Option (List Nat) := do
  let ext ← chunks.mapM fun (u, v) => do
    let ue ← evalTable table u
    let ve ← evalTable table v
    pure (u ++ ue, v ++ ve)
  computeProof P ext

/-- `ProverValues::eval_at_r`: the next level's `(u, v)` values. -/
def evalChunksAt (L : Nat) (den : List Nat) (r : Nat) (chunks : List (List Nat × List Nat)) :
    Option (List (Nat × Nat)) :=
  chunks.mapM fun (u, v) => do pure ((← evalAt L den r u), (← evalAt L den r v))

/-! ## verifier -/

def interpolateAtR (P : Nat) (den : List Nat) (zkp : List Nat) (r : Nat) : Option Nat := evalAt P den r zkp

def computeSumShare (L : Nat) (zkp : List Nat) : Nat := (zkp.take L).foldl fadd 0
def computeFinalSumShare (L : Nat) (zkp : List Nat) : Nat := ((zkp.take L).drop 1).foldl fadd 0

/-- `compute_g_differences::<F, P, L, P_FIRST, L_FIRST>`; `none` = panic (no compressed proof, or no challenge).
The links of the two iterator chains and their order are the generated `expectedChain` / `gChain`. -/
def computeGDifferences (L P Lf Pf : Nat) (firstZkp : List Nat) (zkps : List (List Nat)) (challenges : List Nat)
    (sumOfUv pTimesQ : Nat) : Option (List Nat) := do
  let denF ← denominators Pf
  let den ← denominators P
  let c0 ← challenges.head?
  let last ← zkps.getLast?
  let expected ← IpaVerif.Generated.DzkpGDiff.expectedChain.mapM fun
    | .sumOfUv => some [sumOfUv]
    | .firstAtC0 => (interpolateAtR Pf denF firstZkp c0).map fun e => [e]
    | .zkpsAtTail => (challenges.tail.zip zkps).mapM fun (c, z) => interpolateAtR P den z c
  let gsums := IpaVerif.Generated.DzkpGDiff.gChain.map fun
    | .firstSum => [computeSumShare Lf firstZkp]
    | .initSums => zkps.dropLast.map (computeSumShare L)
    | .lastFinalSum => [computeFinalSumShare L last]
    | .pTimesQ => [pTimesQ]
  pure ((gsums.flatten.zip expected.flatten).map fun (g, e) =>
    if IpaVerif.Generated.DzkpGDiff.diffIsGMinusE then fsub g e else fsub e g)

/-- `recursively_compute_final_check::<F, L>` on the first-level values already looked up through
`table` (`VerifierTableIndices`); `none` = panic. -/
def recursivelyComputeFinalCheck (L Lf : Nat) (table : List (List Nat)) (indices : List Nat)
    (challenges : List Nat) (mask : Nat) : Option Nat := do
  if ¬ (challenges.length ≥ minProofRecursion ∧ challenges.length ≤ maxProofRecursion) then none else
  let denF ← denominators Lf
  let den ← denominators L
  let c0 ← challenges.head?
  let rowF := tableRow Lf denF c0
  let rows := challenges.tail.map fun r => tableRow L den r
  let lut ← table.mapM fun row => dot rowF row
  let first := indices.map fun i => lut.getD i 0
  let vals ← (rows.take (challenges.length - 2)).foldlM
    (fun (it : List Nat) row => (chunkPad L it).mapM fun c => dot row c) first
  if vals.length ≥ L then none else
  let v0 ← vals.head?
  let base := ((List.replicate L 0).set (L - 1) v0).set 0 mask
  let lastArr := (List.range L).map fun i => if 1 ≤ i ∧ i < vals.length then vals.getD i 0 else base.getD i 0
  let lastRow ← rows.getLast?
  dot lastRow lastArr

/-- arithmetic tail of `hash_to_field::<Fp61BitPrime>` given the 32 bytes of `compute_hash([left, right])`. -/
def hashToField (combined : List Nat) (excludeTo : Nat) : Option Nat :=
  if ¬ (2 * excludeTo < fp61.p) then none else
  let val := IpaVerif.Util.ofLeBytes (combined.take 16)
  some (truncateFrom fp61 (val % (fp61.p - excludeTo) + excludeTo))

/-! ## the recursion schedule of `ProofBatch::generate` (lengths only) -/

/-- number of iterations of `while !did_set_masks` for `n = uv_values.len()` after the first step,
compression factor `L` (each iteration maps `n` to `⌈n/L⌉`; the iteration that sees `n < L` sets the masks
and is the last one). Fuel-bounded: `none` = fuel exhausted. -/
def recursionIters (L : Nat) : Nat → Nat → Option Nat
  | 0, _ => none
  | fuel + 1, n => if n < L then some 1 else (recursionIters L fuel ((n + L - 1) / L)).map (· + 1)

/-- `non_zero_prev_power_of_two`. -/
def nonZeroPrevPowerOfTwo (target : Nat) : Nat := 2 ^ (max 1 (bitLen target) - 1)

/-! ## one multiplication gate seen by the three helpers (`gate_views`) -/

/-- helper identities H1, H2, H3 with `next` = the helper to the right, `prev` = the helper to the left. -/
inductive Hid | h0 | h1 | h2
  deriving DecidableEq, Repr

def Hid.next : Hid → Hid | .h0 => .h1 | .h1 => .h2 | .h2 => .h0
def Hid.prev : Hid → Hid | .h0 => .h2 | .h1 => .h0 | .h2 => .h1
def Hid.all : List Hid := [.h0, .h1, .h2]
/-- Boolean equality by pattern matching (cheap for kernel evaluation). -/
def Hid.same : Hid → Hid → Bool
  | .h0, .h0 => true | .h1, .h1 => true | .h2, .h2 => true | _, _ => false
def Hid.mem (h : Hid) : List Hid → Bool
  | [] => false
  | a :: r => h.same a || Hid.mem h r
def Hid.toNat : Hid → Nat | .h0 => 0 | .h1 => 1 | .h2 => 2
def Hid.ofIdx (n : Nat) : Hid := match n % 3 with | 0 => .h0 | 1 => .h1 | _ => .h2

/-- The nine free bits of one multiplication: share `i` of x, y and PRSS value `i` (helper `i` holds
shares `i` (left) and `i+1` (right)). -/
structure Gate where
  x : Hid → Bool
  y : Hid → Bool
  p : Hid → Bool

/-- what a helper records for one multiplication (`MultiplicationInputsBlock` restricted to one bit). -/
structure View where
  xl : Bool
  xr : Bool
  yl : Bool
  yr : Bool
  pl : Bool
  pr : Bool
  zr : Bool
  deriving DecidableEq, Repr

/-- `z_left` of `multiplication_protocol` over GF(2): what helper `i` sends to helper `i−1`. -/
def zOf (g : Gate) (i : Hid) : Bool :=
  ((g.x i && g.y i) ^^ (g.x i && g.y i.next) ^^ (g.x i.next && g.y i)) ^^ g.p i ^^ g.p i.next

/-- honest record of helper `i` (it receives `z_{i+1}` from its right neighbour). -/
def honestView (g : Gate) (i : Hid) : View :=
  { xl := g.x i, xr := g.x i.next, yl := g.y i, yr := g.y i.next, pl := g.p i, pr := g.p i.next,
    zr := zOf g i.next }

/-- The eight single-bit deviations of helper `j`: one of its seven recorded bits, or the `z` it transmits
(which lands in the record of helper `j−1`). -/
inductive Flip | xl | xr | yl | yr | pl | pr | zr | sentZ
  deriving DecidableEq, Repr

def Flip.all : List Flip := [.xl, .xr, .yl, .yr, .pl, .pr, .zr, .sentZ]

def flipView (v : View) : Flip → View
  | .xl => { v with xl := !v.xl } | .xr => { v with xr := !v.xr }
  | .yl => { v with yl := !v.yl } | .yr => { v with yr := !v.yr }
  | .pl => { v with pl := !v.pl } | .pr => { v with pr := !v.pr }
  | .zr => { v with zr := !v.zr } | .sentZ => v

/-- records of the three helpers when helper `j` deviates by `f` (everything else honest). -/
def views (g : Gate) (dev : Option (Hid × Flip)) (i : Hid) : View :=
  match dev with
  | none => honestView g i
  | some (j, .sentZ) => if i.next.same j then { honestView g i with zr := !(honestView g i).zr } else honestView g i
  | some (j, f) => if i.same j then flipView (honestView g i) f else honestView g i

/-- single-bit versions of the generated `proverTriples` / `fromRightProverTriple` / `fromLeftProverTriple`. -/
def proverU (v : View) : Bool × Bool × Bool := (v.xl, v.yl, (v.xl && v.yr) ^^ (v.yl && v.xr) ^^ v.pr)
def proverV (v : View) : Bool × Bool × Bool := (v.yr, v.xr, v.pr)
def leftVerifierU (v : View) : Bool × Bool × Bool := (v.xr, v.yr, (v.xr && v.yr) ^^ v.pr ^^ v.zr)
def rightVerifierV (v : View) : Bool × Bool × Bool := (v.yl, v.xl, v.pl)

/-- the proof of prover `i` is about the same `(u, v)` indices as its two verifiers recompute
(left verifier `i−1` recomputes `u`, right verifier `i+1` recomputes `v`). -/
def eq3 (s t : Bool × Bool × Bool) : Bool := !(s.1 ^^ t.1) && !(s.2.1 ^^ t.2.1) && !(s.2.2 ^^ t.2.2)
def proverMatches (vw : Hid → View) (i : Hid) : Bool :=
  eq3 (proverU (vw i)) (leftVerifierU (vw i.prev)) && eq3 (proverV (vw i)) (rightVerifierV (vw i.next))

/-- the triple `(a,c,e′)` of the left verifier and `(b,d,f)` of the right verifier satisfy `e′ = ab ⊕ cd ⊕ f`. -/
def verifierTripleConsistent (vw : Hid → View) (i : Hid) : Bool :=
  let (a, c, e) := leftVerifierU (vw i.prev)
  let (b, d, f) := rightVerifierV (vw i.next)
  !(e ^^ ((a && b) ^^ (c && d) ^^ f))

/-- helper `h` reports `DZKPValidationFailed` exactly for the prover on its right (`h + 1`):
`BatchToVerify::verify` combines its own `diff_right` with the other verifier's share of it. -/
def rejects (vw : Hid → View) (h : Hid) : Bool := !proverMatches vw h.next

/-- predicted rejecting helpers for a deviation of helper `j` (any gate state): used by the
`c03_validate` correspondence and proved to agree with `rejects` in `gate_views`. -/
def predictedRejecters (j : Hid) : Flip → List Hid
  | .xl => [j.prev, j.next]    -- own proof (a) + right verifier of prover j−1 (d)
  | .yl => [j.prev, j.next]    -- own proof (c) + right verifier of prover j−1 (b)
  | .xr => [j.prev, j]         -- own proof (d) + left verifier of prover j+1 (a)
  | .yr => [j.prev, j]         -- own proof (b) + left verifier of prover j+1 (c)
  | .pr => [j.prev, j]         -- own proof (f, e) + left verifier of prover j+1 (e′)
  | .pl => [j.next]            -- right verifier of prover j−1 (f)
  | .zr => [j]                 -- left verifier of prover j+1 (e′)
  | .sentZ => [j.prev]         -- recorded by helper j−1: left verifier of prover j (e′)

end IpaVerif.Dzkp
