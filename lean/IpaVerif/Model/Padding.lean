import IpaVerif.Model.Dp
import IpaVerif.Model.Hybrid
/-
Dummy records appended by `apply_dp_padding` (protocol/ipa_prf/oprf_padding/mod.rs), as functions of the `u64`
stream of the pair's shared sequential PRSS.  Import-free.

`apply_dp_padding`: three passes, excluded helper H3, then H2, then H1 (`PaddingDpPass1..3`).  In a pass the two
non-excluded helpers open the SAME stream (`ctx.prss_rng()`, the generator shared with the other non-excluded
helper), run `T::add_padding_items` and send `total_number_of_fake_rows` to the excluded helper, which appends that
many all-zero rows (`T::add_zero_shares`) after checking that both counts agree (`InconsistentPadding`).

* `IndistinguishableHybridReport<BK, V>` (OPRF padding): `for cardinality in 1..=matchkey_cardinality_cap`:
  `sample = oprf_padding.sample(rng)`, then `sample` times: `dummy_mk: BA64 = rng.gen()` (one `u128` = two `u64`
  draws, low word first, truncated to 64 bits) repeated `cardinality` times with `breakdown_key = value = ZERO`;
  `total += sample * cardinality`.
* `IndistinguishableHybridReport<BK, V, ()>` (aggregation padding): `for breakdownkey in 0..B`:
  `sample = aggregation_padding.sample(rng)`, `sample` rows with that breakdown key
  (`BK::truncate_from(breakdownkey)`) and value `(ZERO, ZERO)`; `total += sample`.
* shares: `new_excluding_direction(v, dir)`: `Left ↦ (ZERO, v)`, `Right ↦ (v, ZERO)`.
-/
namespace IpaVerif.Padding
open IpaVerif.Dp IpaVerif.Hybrid

/-- `rng.gen::<BA64>()`. -/
def genKey : List Nat → Option (Nat × List Nat)
  | k :: _ :: rest => some (k % 2 ^ 64, rest)
  | _ => none

/-- a dummy report: random match key, zero breakdown key, zero value. -/
def dummyRec (k : Nat) : Rec := ⟨k, 0, 0⟩

/-- `repeat_with(|| { let mk = rng.gen(); repeat_n(report(mk), c) }).take(sample)`: the groups, in order. -/
def keyGroups (c : Nat) : Nat → List Nat → Option (List (List Rec) × List Nat)
  | 0, s => some ([], s)
  | n + 1, s =>
    match genKey s with
    | none => none
    | some (k, rest) => (keyGroups c n rest).map fun (gs, r) => (List.replicate c (dummyRec k) :: gs, r)

/-- what one cardinality contributes: `(cardinality, sample drawn, the groups)`. -/
abbrev CardGroups := Nat × Nat × List (List Rec)

/-- the loop `for cardinality in c..c+n` of the OPRF `add_padding_items`; `none` = stream exhausted. -/
def oprfLoop (pInt shift : Nat) : Nat → Nat → List Nat → Option (List CardGroups × List Nat)
  | _, 0, s => some ([], s)
  | c, n + 1, s =>
    match truncatedSample pInt shift (s.length + 1) s with
    | none => none
    | some (sample, s1) =>
      match keyGroups c sample s1 with
      | none => none
      | some (gs, s2) => (oprfLoop pInt shift (c + 1) n s2).map fun (rest, r) => ((c, sample, gs) :: rest, r)

/-- OPRF `add_padding_items` with `matchkey_cardinality_cap = cap`. -/
def oprfPass (pInt shift cap : Nat) (s : List Nat) : Option (List CardGroups × List Nat) := oprfLoop pInt shift 1 cap s

/-- the rows appended, in order. -/
def oprfRows (gs : List CardGroups) : List Rec := (gs.map fun g => g.2.2.flatten).flatten
/-- `total_number_of_fake_rows` (sent to the excluded helper). -/
def oprfTotal (gs : List CardGroups) : Nat := (gs.map fun g => g.2.1 * g.1).sum

/-- the loop `for breakdownkey in bk..bk+n` of the aggregation `add_padding_items`: `(breakdown key, sample)`. -/
def aggLoop (pInt shift : Nat) : Nat → Nat → List Nat → Option (List (Nat × Nat) × List Nat)
  | _, 0, s => some ([], s)
  | bk, n + 1, s =>
    match truncatedSample pInt shift (s.length + 1) s with
    | none => none
    | some (sample, s1) => (aggLoop pInt shift (bk + 1) n s1).map fun (rest, r) => ((bk, sample) :: rest, r)

def aggPass (pInt shift b : Nat) (s : List Nat) : Option (List (Nat × Nat) × List Nat) := aggLoop pInt shift 0 b s

/-- rows `(breakdown key, value)`; `bkBits = BK::BITS` (`BK::truncate_from`). -/
def aggRows (bkBits : Nat) (l : List (Nat × Nat)) : List Row :=
  (l.map fun e => List.replicate e.2 (e.1 % 2 ^ bkBits, 0)).flatten
def aggTotal (l : List (Nat × Nat)) : Nat := (l.map (·.2)).sum

/-- the three helpers' `(left, right)` shares of one field value `v` of a dummy generated in a pass with excluded
helper `e` (roles 0, 1, 2): the helper right of `e` sees `e` on its LEFT and holds `(0, v)`; the helper left of `e`
holds `(v, 0)`; `e` holds `(0, 0)`. -/
def placeShares (v excluded h : Nat) : Nat × Nat :=
  if h % 3 == excluded % 3 then (0, 0)
  else if (h + 2) % 3 == excluded % 3 then (0, v) else (v, 0)

/-- excluded helper of pass `i ∈ {1, 2, 3}` of `apply_dp_padding`: H3, H2, H1. -/
def excludedOfPass (i : Nat) : Nat := 3 - i

end IpaVerif.Padding
