/-!
# Model for C13: gateway channels

* `SendChannelConfig::new_with` (`helpers/gateway/send.rs`) with `non_zero_prev_power_of_two`
  (`utils/power_of_two.rs`), panics (`assert!`, `unwrap` of `NonZeroUsize::try_from`) as outcomes;
* `StreamCollection` (`helpers/transport/stream/collection.rs`): `add_stream`, `add_waker`, `clear`
  over `StreamState ∈ {Waiting(waker), Ready(stream), Completed}` keyed by `(query, peer, gate)`;
* `GatewaySender::send` (`TooManyRecords`, `is_last ⇒ close(i + 1)`) over the ordered-queue
  specification of C14.
Import-free.
-/
namespace IpaVerif.Channel

/-! ## `SendChannelConfig::new_with` -/

/-- `usize::BITS - target.leading_zeros()`: the bit length of `target`. -/
def bitLen (t : Nat) : Nat := if t = 0 then 0 else Nat.log2 t + 1

/-- `non_zero_prev_power_of_two`: `1 << (max(1, bits) - 1)`. -/
def prevPow2 (t : Nat) : Nat := 2 ^ (max 1 (bitLen t) - 1)

structure SendCfg where
  totalCapacity : Nat
  recordSize : Nat
  readSize : Nat
deriving Repr, BEq, DecidableEq

/-- `new_with(gateway_config { active, read_size }, total_records, record_size)`;
`indeterminate` = `total_records.is_indeterminate()`. -/
def newWith (active readSizeCfg recordSize : Nat) (indeterminate : Bool) : Except String SendCfg :=
  if recordSize = 0 then .error "Message size cannot be 0"
  else
    let totalCapacity := active * recordSize
    let mult := prevPow2 (readSizeCfg / recordSize)
    let readSize := if indeterminate then recordSize else min totalCapacity (mult * recordSize)
    if totalCapacity = 0 ∨ readSize = 0 then .error "called `Result::unwrap()` on an `Err` value"
    else if ¬ (totalCapacity ≥ recordSize * active) then .error "assertion failed"
    else if totalCapacity % readSize ≠ 0 then .error "assertion `left == right` failed"
    else .ok ⟨totalCapacity, recordSize, readSize⟩

/-! ## `GatewayConfig`: the per-channel window override (`helpers/gateway/mod.rs`)

`Gateway::get_mpc_sender(channel, total_records, active_work)` sizes the send buffer with
`SendChannelConfig::new_with(self.config.set_active_work(active_work), total_records, M::Size)`. -/

/-- `GatewayConfig` as far as channels use it. -/
structure GwCfg where
  active : Nat
  readSize : Nat
deriving Repr, BEq, DecidableEq

/-- `GatewayConfig::set_active_work(&self, active_work)`: `Self { active: active_work, ..*self }` —
the requested window replaces the configured one, nothing else changes, *no cap*. -/
def setActiveWork (cfg : GwCfg) (activeWork : Nat) : GwCfg := { cfg with active := activeWork }

/-- `usize::next_power_of_two`: the smallest power of two `≥ n`. -/
def nextPow2 (n : Nat) : Nat := if n ≤ 1 then 1 else 2 ^ bitLen (n - 1)

/-- `GatewayConfig::set_active_work_from_query_config`:
`active = max(2, min(Self::default().active, query_size)).next_power_of_two()`. -/
def setActiveWorkFromQuery (defaultActive : Nat) (cfg : GwCfg) (querySize : Nat) : GwCfg :=
  { cfg with active := nextPow2 (max 2 (min defaultActive querySize)) }

/-- The send-channel configuration of an MPC channel opened with the window `activeWork`
(`get_mpc_sender`). -/
def mpcSendCfg (cfg : GwCfg) (activeWork recordSize : Nat) (indeterminate : Bool) : Except String SendCfg :=
  let c := setActiveWork cfg activeWork
  newWith c.active c.readSize recordSize indeterminate

/-! ## `StreamCollection` -/

/-- `(QueryId, I, Gate)` as three numbers. -/
abbrev Key := Nat × Nat × Nat

inductive StreamState where
  | waiting (waker : Nat)
  | ready (stream : Nat)
  | completed
deriving Repr, BEq, DecidableEq

abbrev Coll := List (Key × StreamState)

def Coll.get (c : Coll) (k : Key) : Option StreamState := (c.find? (fun p => p.1 == k)).map (·.2)

def Coll.set (c : Coll) (k : Key) (s : StreamState) : Coll := (k, s) :: c.filter (fun p => p.1 != k)

inductive CollOp where
  | addStream (k : Key) (stream : Nat)
  | addWaker (k : Key) (waker : Nat)
  | clear
deriving Repr, BEq, DecidableEq

inductive CollOut where
  | unit (woken : Option Nat)     -- `add_stream` returned, waking the parked requester if any
  | got (stream : Option Nat)     -- `add_waker` returned `Some(stream)` / `None`
  | panic                          -- the mutex guard is dropped first: the state is unchanged
deriving Repr, BEq, DecidableEq

def collStep (c : Coll) : CollOp → Coll × CollOut
  | .addStream k s =>
    match c.get k with
    | none => (c.set k (.ready s), .unit none)
    | some (.waiting w) => (c.set k (.ready s), .unit (some w))
    | some (.ready _) | some .completed => (c, .panic)
  | .addWaker k w =>
    match c.get k with
    | none => (c.set k (.waiting w), .got none)
    | some (.waiting _) => (c.set k (.waiting w), .got none)
    | some (.ready s) => (c.set k .completed, .got (some s))
    | some .completed => (c, .panic)
  | .clear => ([], .unit none)

def collRun (c : Coll) : List CollOp → List CollOut
  | [] => []
  | op :: rest => let r := collStep c op; r.2 :: collRun r.1 rest

/-! ## `GatewaySender::send` / channel close -/

/-- `TotalRecords`. -/
inductive Total where
  | unspecified
  | specified (n : Nat)
  | indeterminate
deriving Repr, BEq, DecidableEq

inductive SendRes where
  | sent                          -- `ordering_tx.send(i, msg)` only
  | sentAndClosed (closeAt : Nat)      -- `is_last`: followed by `ordering_tx.close(i + 1)`
  | tooManyRecords                -- `Err(Error::TooManyRecords { .. })`, nothing reaches the buffer
deriving Repr, BEq, DecidableEq

/-- The part of `GatewaySender::send` before/after the ordered write. -/
def gatewaySend (total : Total) (recordId : Nat) : SendRes :=
  match total with
  | .specified n =>
    if recordId ≥ n then .tooManyRecords
    else if recordId = n - 1 then .sentAndClosed (recordId + 1) else .sent
  | _ => .sent

end IpaVerif.Channel
