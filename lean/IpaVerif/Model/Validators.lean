import IpaVerif.Model.Batcher
/-!
Executable model of the validator WRAPPERS around `Batcher` (C16):

* `MaliciousDZKPValidator` (`protocol/context/dzkp_validator.rs`): `new`, the `DZKPValidator` trait
  methods `set_total_records`, `validate` / `validate_indexed`, `is_verified`, `Drop`, and
  `DZKPUpgraded::{new, validate_record}` (`dzkp_malicious.rs`);
* the MAC `BatchValidator` (`protocol/context/validator.rs`): `new`, `context`, and
  `Upgraded::validate_record` (`malicious.rs`).

Each wrapper is a thin function over the `Batcher` model (`IpaVerif.Batcher`): what it takes from the
context used to create the validator (the initial total, the batch size), and what it forwards.
Wrapper-level panics are explicit outcomes: the `Mutex` around the batcher is poisoned by a panic
inside a batcher call (the guard is alive during the call), the `Option<Arc<…>>` of the DZKP validator
is taken by `validate_indexed`, and a pending DZKP `validate_record` future holds a strong reference to
the validator's inner state.

Core only (no Mathlib).
-/
namespace IpaVerif.Validators
open IpaVerif.Batcher

inductive Kind where
  /-- `MaliciousDZKPValidator` -/
  | dzkp
  /-- `BatchValidator` (MAC) -/
  | mac
  deriving Repr, DecidableEq, Inhabited

inductive WPanic where
  /-- a panic of the `Batcher` method the wrapper forwarded to -/
  | batcher (p : Panic)
  /-- `.lock().unwrap()` / `.into_inner().unwrap()` on the poisoned batcher mutex -/
  | poisoned
  /-- "validator should be active" / "validator is active" / "nothing else should be consuming the batcher" -/
  | inactive
  /-- "validator should hold the only strong reference to batcher" -/
  | strongRef
  /-- `NonZeroUsize::new(records_per_batch).unwrap()` in `DZKPUpgraded::new` -/
  | zeroBatch
  /-- `active_work.get().try_into().unwrap()` (`NonZeroU32PowerOfTwo`) in `DZKPUpgraded::new` -/
  | notPowerOfTwo
  /-- "Total records must be specified before creating the validator" (`BatchValidator::new`) -/
  | totalRequired
  /-- `self.is_verified().unwrap()` in `Drop for MaliciousDZKPValidator` -/
  | contextUnsafe
  deriving Repr, DecidableEq, Inhabited

def usizeMax : Nat := 2 ^ 64 - 1

/-- `NonZeroU32PowerOfTwo::try_from(usize)` succeeds. -/
def isPow2U32 (n : Nat) : Bool :=
  decide (0 < n) && decide (n < 2 ^ 32 - 1) && (n &&& (n - 1) == 0)

structure V where
  kind : Kind
  /-- DZKP: `inner_ref.is_some()` (taken by `validate_indexed`); MAC: always `true` -/
  hasInner : Bool
  /-- the mutex around the batcher is poisoned -/
  poisoned : Bool
  /-- `total_records()` of the context the validator was created from (kept by `protocol_ctx`;
  the wrappers never consult it again after `new`) -/
  ctxTotal : Total
  /-- the batcher, the `validate_record` futures and the watch channels -/
  world : World
  deriving Repr, Inhabited

/-- `MaliciousDZKPValidator::new(ctx, steps, max_multiplications_per_gate)`:
`Batcher::new(max_multiplications_per_gate, ctx.total_records(), …)`, then `DZKPUpgraded::new`
adjusts `active_work` to the batch size (panics unless it is 1, `usize::MAX` or a power of two that
fits `NonZeroU32PowerOfTwo`). -/
def newDzkp (ctxTotal : Total) (rpb tps : Nat) : Except WPanic V :=
  let v : V := { kind := .dzkp, hasInner := true, poisoned := false, ctxTotal := ctxTotal,
                 world := World.new rpb ctxTotal tps [] }
  if rpb = 1 ∨ rpb = usizeMax then .ok v
  else if rpb = 0 then .error .zeroBatch
  else if isPow2U32 rpb then .ok v
  else .error .notPowerOfTwo

/-- `BatchValidator::new(ctx)`: the total MUST be specified on the context;
`records_per_batch = ctx.active_work()`. -/
def newMac (ctxTotal : Total) (activeWork tps : Nat) : Except WPanic V :=
  match ctxTotal with
  | .specified n =>
    .ok { kind := .mac, hasInner := true, poisoned := false, ctxTotal := ctxTotal,
          world := World.new activeWork (.specified n) tps [] }
  | _ => .error .totalRequired

def V.liveFuts (v : V) : Bool := v.world.futs.any (· != .gone)

/-- `self.validator_inner.upgrade()` succeeds: the validator still owns its `Arc`, or (DZKP only) a
pending `validate_record` future does — its body keeps the upgraded `Arc` across the `.await`. -/
def V.alive (v : V) : Bool :=
  v.hasInner || (v.kind == .dzkp && v.liveFuts)

/-- `DZKPValidator::set_total_records` for `MaliciousDZKPValidator`:
`self.inner_ref.as_ref().expect(…).batcher.lock().unwrap().set_total_records(total_records)` —
forwarded unconditionally. -/
def V.setTotalRecords (v : V) (t : Total) : V × Except WPanic Unit :=
  if !v.hasInner then (v, .error .inactive)
  else if v.poisoned then (v, .error .poisoned)
  else match v.world.batcher with
    | none => (v, .error .inactive)
    | some s =>
      match setTotal s t with
      | .ok s' => ({ v with world := { v.world with batcher := some s' } }, .ok ())
      | .error p => ({ v with poisoned := true }, .error (.batcher p))

/-- the environment lets the check of batch `b` finish: always for a DZKP batch into which nothing
was pushed (`Batch::validate` returns at once); for the MAC check — three message rounds on channels
whose records are the batch indices, sent in order — once the checks of all earlier batches have
finished and all three helpers poll the checking future (what the suite's `p` op does). -/
def V.checkCanFinish (v : V) (b : Nat) : Bool :=
  match v.kind with
  | .dzkp => true
  | .mac => (List.range b).all (fun b' => (lookupVerdict v.world.verdicts b').isSome)

/-- one poll of `validate_record` future `i` (MAC: driven on all three helpers until nothing moves). -/
def V.poll (v : V) (i : Nat) : V × PollOut :=
  let w := match v.world.futs.getD i .gone with
    | .validator b _ _ => if v.checkCanFinish b then v.world.release b else v.world
    | _ => v.world
  ({ v with world := (w.poll i).1 }, (w.poll i).2)

/-- the first poll of the future right after `Batcher::validate_record` returned it: as `poll` for
DZKP; for MAC the check needs a message round trip, so the checking future starts (the closure is
invoked) and stays pending. -/
def V.firstPoll (v : V) (i : Nat) : V × PollOut :=
  match v.kind with
  | .dzkp => v.poll i
  | .mac => ({ v with world := (v.world.poll i).1 }, (v.world.poll i).2)

/-- `ctx.validate_record(record_id)` created and polled once
(`DZKPUpgraded::validate_record` / `Upgraded::validate_record`: upgrade the weak reference, lock the
batcher, `batcher.validate_record(record_id, |idx, batch| batch.validate(…))`, await the future).
A panic leaves no future behind. -/
def V.validateRecord (v : V) (r : Nat) : V × Except WPanic PollOut :=
  if !v.alive then (v, .error .inactive)
  else if v.poisoned then (v, .error .poisoned)
  else
    match (v.world.validate r).2 with
    | .error p => ({ v with world := (v.world.validate r).1, poisoned := true }, .error (.batcher p))
    | .ok i =>
      let v1 := { v with world := (v.world.validate r).1 }
      ((v1.firstPoll i).1, .ok (v1.firstPoll i).2)

def V.dropFut (v : V) (i : Nat) : V := { v with world := v.world.dropFut i }

/-- `DZKPValidator::validate_indexed(self, _)` (and `validate` = `validate_indexed(0)`):
take `inner_ref`, `Arc::into_inner`, `Mutex::into_inner`, `Batcher::into_single_batch`, then the batch
check (trivial for a batch nothing was pushed into). -/
def V.validateIndexed (v : V) : V × Except WPanic Unit :=
  if !v.hasInner then (v, .error .inactive)
  else
    let v1 := { v with hasInner := false }
    if v.liveFuts then (v1, .error .strongRef)
    else if v.poisoned then ({ v1 with world := v.world.intoSingle.1 }, .error .poisoned)
    else
      match v.world.intoSingle.2 with
      | .ok _ => ({ v1 with world := v.world.intoSingle.1 }, .ok ())
      | .error p => ({ v1 with world := v.world.intoSingle.1 }, .error (.batcher p))

/-- `DZKPValidator::is_verified`: `Ok` iff the batcher holds no batch. -/
def V.isVerified (v : V) : Except WPanic Bool :=
  if !v.hasInner then .error .inactive
  else if v.poisoned then .error .poisoned
  else match v.world.batcher with
    | some s => .ok s.batches.isEmpty
    | none => .error .inactive

/-- dropping the validator: `Drop for MaliciousDZKPValidator` runs `is_verified().unwrap()` while
`inner_ref` is `Some`; `BatchValidator` has no `Drop`. -/
def V.dropOutcome (v : V) : Option WPanic :=
  match v.kind with
  | .mac => none
  | .dzkp =>
    if !v.hasInner then none
    else match v.isVerified with
      | .ok true => none
      | .ok false => some .contextUnsafe
      | .error p => some p

/-- the batcher's current total (what every later `validate_record` closes batches at). -/
def V.total (v : V) : Option Total := v.world.batcher.map (·.total)

end IpaVerif.Validators
