import IpaVerif.Generated.DzkpValidator
import IpaVerif.Model.DzkpStore
/-!
Executable model of how the malicious DZKP validator files the intermediates that multiplications `push`
(`protocol/context/dzkp_validator.rs`: `MaliciousDZKPValidator::new` — the batch constructor closure handed to
the `Batcher` —, `Batch::new`, `Batch::push`; `protocol/context/dzkp_malicious.rs`: `DZKPUpgraded::push`,
`with_batch`).

A validator created with `max_multiplications_per_gate = rpb` keeps one `Batch` per proof batch. The batch a
record belongs to is chosen by `Batcher::get_batch(record_id)`; the `Batcher` builds batch `b` by calling the
constructor closure with the absolute batch index `b` (`first_batch + batches.len()`; C16
`each_batch_ready_exactly_once` (3): slot `k` of the deque is constructor call `first_batch + k`, and
`batch_offset = record / records_per_batch − first_batch`). The closure decides the **anchor** of the batch,
the `first_record` every per-gate store of the batch lays its segments out against:
`IpaVerif.Generated.DzkpValidator.firstRecordOf rpb b` (machine-translated from the closure). With no explicit
anchor a gate's store anchors itself at the first record that is pushed (`get_or_insert`).

`Tables` is parametric in the anchor function so that variants can be stated (`Props/C03Order.lean`:
counterexamples for "anchor on the first pushed record").  Import-free (core only).
-/
namespace IpaVerif.DzkpValidator
open IpaVerif.DzkpStore IpaVerif.Generated.DzkpValidator

/-- The tables of one validator: constructor index ↦ batch content (most recent binding first). -/
structure Tables where
  /-- `max_multiplications_per_gate` = the batcher's `records_per_batch` -/
  rpb : Nat
  /-- `first_record` the batch constructor passes to `Batch::new` for batch `b` -/
  anchor : Nat → Option Nat
  batches : List (Nat × Batch)

/-- `MaliciousDZKPValidator::new(ctx, steps, rpb)`: the code as it is. -/
def Tables.new (rpb : Nat) : Tables := { rpb := rpb, anchor := firstRecordOf rpb, batches := [] }

/-- the same validator with another anchoring rule (variants, counterexamples). -/
def Tables.newWith (rpb : Nat) (anchor : Nat → Option Nat) : Tables := { rpb := rpb, anchor := anchor, batches := [] }

/-- the batch constructor closure: `Batch::new(first_record, max_multiplications_per_gate)`. -/
def Tables.fresh (t : Tables) (b : Nat) : Batch := { max := t.rpb, first := t.anchor b, inner := [] }

/-- batch built by constructor call `b` (built on first access). -/
def Tables.get (t : Tables) (b : Nat) : Batch :=
  ((t.batches.find? (·.1 == b)).map (·.2)).getD (t.fresh b)

/-- `batch.push(gate, record_id, segment)` on the batch built by constructor call `b`. -/
def Tables.pushAt (t : Tables) (b : Nat) (g : String) (r : Nat) (s : Segment) : Outcome Tables :=
  match (t.get b).push g r s with
  | .ok bt => .ok { t with batches := (b, bt) :: t.batches }
  | .panic m => .panic m

/-- `DZKPUpgraded::push(record_id, segment)` from a context at gate `g`: the batch is
`get_batch(record_id)`, i.e. constructor call `record_id / records_per_batch`. -/
def Tables.push (t : Tables) (g : String) (r : Nat) (s : Segment) : Outcome Tables :=
  t.pushAt (r / t.rpb) g r s

/-- the per-gate store of batch `b`, if the gate has pushed into that batch. -/
def Tables.store (t : Tables) (b : Nat) (g : String) : Option Store :=
  ((t.get b).inner.find? (·.1 == g)).map (·.2)

/-- a scripted sequence of pushes `(gate, record, segment)`. -/
def Tables.pushAll : Tables → List (String × Nat × Segment) → Outcome Tables
  | t, [] => .ok t
  | t, (g, r, s) :: rest =>
    match t.push g r s with
    | .ok t' => t'.pushAll rest
    | .panic m => .panic m

def Outcome.isPanic {α : Type} : Outcome α → Bool
  | .ok _ => false
  | .panic _ => true

end IpaVerif.DzkpValidator
