import IpaVerif.Generated.ShuffleConsts
/-!
Executable model of the sharded shuffle (`ipa-core/src/protocol/ipa_prf/shuffle/{sharded,malicious}.rs`).

* Rows are naturals under XOR (`+` of the boolean-array share types); a *table* is the list of the
  shards' row lists of one helper.
* `maskAndShuffle` = `ShuffleContext::mask_and_shuffle` seen for all shards of a helper at once:
  add the index-addressed PRSS mask, reshard by the PRSS-chosen destination (rows arrive ordered by
  source shard, then by index — C19), local permutation. All three are functions of the *position*
  `(shard, index)` only — never of the row contents — which is why the two helpers that share the
  randomness of a round route their tables identically (`Round`).
* `shuffle` = `h1/h2/h3_shuffle_for_shard`: the three rounds, the cardinality message, `Ã`, `B̃`, `Ĉ`.
* MAC tags of the malicious wrapper (`compute_and_add_tags`, `compute_and_hash_tags`) over GF(2^32)
  with the reduction polynomial regenerated from `ff/galois_field.rs`.
-/
namespace IpaVerif.Shuffle
open IpaVerif.Generated

abbrev Row := Nat
/-- one helper's rows on every shard -/
abbrev Table := List (List Row)

/-- The pairwise shared randomness of one `mask_and_shuffle` round. -/
structure Round where
  /-- `prss().generate_one_side(RecordId::from(i), direction)` on shard `j` -/
  mask : Nat → Nat → Row
  /-- `ctx.pick_shard(record_id, direction)` on shard `j` -/
  dest : Nat → Nat → Nat
  /-- `resharded.shuffle(&mut prss_rng)` on shard `d`, as a rearrangement of the arrived positions -/
  shuf : Nat → List (Nat × Nat) → List (Nat × Nat)

/-- all `(shard, index)` positions of a table with the given per-shard lengths, in order -/
def positionsFrom : Nat → List Nat → List (Nat × Nat)
  | _, [] => []
  | j, n :: rest => (List.range n).map (fun i => (j, i)) ++ positionsFrom (j + 1) rest

def positions (shape : List Nat) : List (Nat × Nat) := positionsFrom 0 shape

def shape (t : Table) : List Nat := t.map List.length

def get (t : Table) (p : Nat × Nat) : Row := (t.getD p.1 []).getD p.2 0

/-- Where every row ends up: for each destination shard, the source positions in final order. -/
def route (S : Nat) (ρ : Round) (sh : List Nat) : List (List (Nat × Nat)) :=
  (List.range S).map (fun d => ρ.shuf d ((positions sh).filter (fun p => ρ.dest p.1 p.2 == d)))

/-- `mask_and_shuffle` on all `S` shards of a helper. -/
def maskAndShuffle (S : Nat) (ρ : Round) (t : Table) : Table :=
  (route S ρ (shape t)).map (fun l => l.map (fun p => get t p ^^^ ρ.mask p.1 p.2))

def txor (a b : Table) : Table := List.zipWith (List.zipWith (· ^^^ ·)) a b

/-- Input of one helper: left and right share tables. -/
structure HelperIn where
  left : Table
  right : Table

/-- Output of one helper: `(left, right)` per row and shard. -/
structure HelperOut where
  left : Table
  right : Table

/-- tables of PRSS values `Ã`, `B̃` indexed like `x3` -/
def prTable (f : Nat → Nat → Row) (sh : List Nat) : Table :=
  (List.range sh.length).map (fun d => (List.range (sh.getD d 0)).map (fun i => f d i))

structure Rand where
  r12 : Round
  r23 : Round
  r31 : Round
  /-- `Ã` (shared by H3 and H1) -/
  a : Nat → Nat → Row
  /-- `B̃` (shared by H1 and H2) -/
  b : Nat → Nat → Row

/-- The whole protocol (`shuffle` on every shard of every helper). Returns the three outputs and the
intermediate messages `x1, x2, y1, y2` (kept for the malicious verification). -/
def shuffle (S : Nat) (ρ : Rand) (h1 h2 : HelperIn) :
    (HelperOut × HelperOut × HelperOut) × (Table × Table × Table × Table) :=
  -- H1
  let x1 := maskAndShuffle S ρ.r12 (txor h1.left h1.right)
  let x2 := maskAndShuffle S ρ.r31 x1
  -- H2
  let y1 := maskAndShuffle S ρ.r12 h2.right
  let x3 := maskAndShuffle S ρ.r23 x2
  -- H3
  let y2 := maskAndShuffle S ρ.r31 y1
  let y3 := maskAndShuffle S ρ.r23 y2
  -- cardinality message: |x3| per shard; Ã, B̃ generated for that many rows
  let a := prTable ρ.a (shape x3)
  let b := prTable ρ.b (shape x3)
  let c1 := txor x3 b
  let c2 := txor y3 a
  let c := txor c1 c2
  (({ left := a, right := b }, { left := b, right := c }, { left := c, right := a }), (x1, x2, y1, y2))

/-- Row counts per destination shard after one `mask_and_shuffle` round, from the counts before it:
a function of the PRSS destinations only. -/
def routeShape (S : Nat) (dest : Nat → Nat → Nat) (sh : List Nat) : List Nat :=
  (List.range S).map (fun d => ((positions sh).filter (fun p => dest p.1 p.2 == d)).length)

/-- The cardinality message: `|x3|` on every shard of H2 (`send_word(Direction::Left, x3.len())`), i.e.
the input shape routed through the three permutation rounds 12, 31, 23. -/
def cardinalities (S : Nat) (ρ : Rand) (sh : List Nat) : List Nat :=
  routeShape S ρ.r23.dest (routeShape S ρ.r31.dest (routeShape S ρ.r12.dest sh))

/-- H1's output table on one shard: ONE loop `(0..sz).map(|i| S::new(a_i, b_i))` over the announced
cardinality `sz` — row `i` exists for every `i < sz`, no slicing, no other bound. -/
def h1Table (a b : Nat → Row) (sz : Nat) : List (Row × Row) :=
  (List.range sz).map (fun i => (a i, b i))

/-- XOR of `left` of H1, `right` of H1 and `right` of H2 — the reconstructed rows. -/
def reconstruct (o : HelperOut × HelperOut × HelperOut) : Table :=
  txor (txor o.1.left o.1.right) o.2.1.right

/-! ## GF(2^32) and MAC tags -/

/-- carry-less product (`clmul`) -/
def clmul (a b : Nat) : Nat :=
  (List.range (a.log2 + 1)).foldl (fun acc i => if a.testBit i then acc ^^^ (b <<< i) else acc) 0

/-- the reduction loop of `impl Mul for $name` in `galois_field.rs` -/
def gfReduce (bits poly product : Nat) : Nat :=
  (List.range (bits - 1)).reverse.foldl
    (fun p i => p ^^^ ((poly * (p >>> (bits + i))) <<< i)) product

def gfMul (a b : Nat) : Nat := gfReduce ShuffleC.gf32Bits ShuffleC.gf32Poly (clmul a b)

def ofLe : List Nat → Nat
  | [] => 0
  | b :: r => b + 256 * ofLe r

def toLe : Nat → Nat → List Nat
  | 0, _ => []
  | n + 1, v => (v % 256) :: toLe n (v / 256)

/-- `TryFrom<BAn> for Vec<Gf32Bit>`: 32-bit little-endian words of the raw bytes (last one short). -/
def words : Nat → List Nat → List Nat
  | 0, _ => []
  | _, [] => []
  | fuel + 1, bs => ofLe (bs.take 4) :: words fuel (bs.drop 4)

/-- `Σ keyᵢ · wordᵢ` -/
def innerProduct (keys ws : List Nat) : Nat :=
  (ws.zip keys).foldl (fun acc wk => acc ^^^ gfMul wk.1 wk.2) 0

/-- the value hashed per row by `compute_and_hash_tags` (keys with `ONE` appended): `Σ keyᵢ·wordᵢ + tag` -/
def rowCheck (bits : Nat) (keys : List Nat) (rowAndTag : List Nat) : Nat :=
  let off := (bits + 7) / 8
  let row := rowAndTag.take off
  let tag := ofLe ((rowAndTag.drop off).take 4)
  innerProduct (keys ++ [1]) (words (row.length + 1) row ++ [tag])

/-- `compute_and_add_tags` on reconstructed values: row bytes followed by the tag bytes -/
def addTag (bits : Nat) (keys : List Nat) (row : Nat) : List Nat :=
  let rb := toLe ((bits + 7) / 8) row
  rb ++ toLe 4 (innerProduct keys (words (rb.length + 1) rb))

end IpaVerif.Shuffle
