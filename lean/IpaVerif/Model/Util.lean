/-
Shared helpers for the line-protocol driver and the executable models.
Import-free (core + Std only) so that `driver` links as a `lean_exe`.
-/
namespace IpaVerif.Util

def hexDigit (c : Char) : Option Nat :=
  if '0' ≤ c ∧ c ≤ '9' then some (c.toNat - '0'.toNat)
  else if 'a' ≤ c ∧ c ≤ 'f' then some (c.toNat - 'a'.toNat + 10)
  else if 'A' ≤ c ∧ c ≤ 'F' then some (c.toNat - 'A'.toNat + 10)
  else none

/-- Parse a hex string (no prefix) into bytes; `none` on odd length / bad digit. `-` is the empty string. -/
def parseHexBytes (s : String) : Option (List Nat) :=
  if s = "-" then some [] else
  let rec go : List Char → Option (List Nat)
    | [] => some []
    | [_] => none
    | a :: b :: rest => do
        let x ← hexDigit a
        let y ← hexDigit b
        let r ← go rest
        pure ((x * 16 + y) :: r)
  go s.toList

def hexChar (n : Nat) : Char :=
  if n < 10 then Char.ofNat (n + '0'.toNat) else Char.ofNat (n - 10 + 'a'.toNat)

def byteHex (b : Nat) : String := String.ofList [hexChar (b / 16 % 16), hexChar (b % 16)]

/-- Render bytes as lowercase hex; the empty list is `-`. -/
def bytesHex (bs : List Nat) : String :=
  if bs.isEmpty then "-" else String.join (bs.map byteHex)

/-- Parse a hexadecimal natural number (no prefix). -/
def parseHexNat (s : String) : Option Nat :=
  if s.isEmpty then none else
  s.toList.foldl (fun acc c => do
    let a ← acc
    let d ← hexDigit c
    pure (a * 16 + d)) (some 0)

def natHex (n : Nat) : String := String.ofList (Nat.toDigits 16 n)

/-- little-endian bytes of `n`, exactly `len` bytes (truncating). -/
def leBytes (n : Nat) : Nat → List Nat
  | 0 => []
  | len + 1 => (n % 256) :: leBytes (n / 256) len

/-- value of little-endian bytes. -/
def ofLeBytes : List Nat → Nat
  | [] => 0
  | b :: rest => b + 256 * ofLeBytes rest

def parseNats (ss : List String) : Option (List Nat) := ss.mapM String.toNat?

def showNats (ns : List Nat) : String := String.intercalate "," (ns.map toString)

/-- Parse `a,b,c` into naturals; `-` is the empty list. -/
def parseNatList (s : String) : Option (List Nat) :=
  if s = "-" then some [] else (s.splitOn ",").mapM String.toNat?

def showNatList (ns : List Nat) : String := if ns.isEmpty then "-" else showNats ns

def boolStr (b : Bool) : String := if b then "1" else "0"

end IpaVerif.Util
