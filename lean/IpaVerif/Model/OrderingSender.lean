import IpaVerif.Model.CircularBuf
import IpaVerif.Generated.Buffers
/-!
# Poll-level model of `ipa-core/src/helpers/buffers/ordering_sender.rs`

One `Op` is one call of `Future::poll` on a `Send`/`Close` future or of `take_next` (the
`OrderedStream::poll_next`), executed atomically.  Wakers are identified by a task id; every
`wake()` performed during the poll is listed, in order, in the step's output.  Panics are explicit
outcomes.  What is *not* represented: the interleaving of the atomic load of `next`, the shard mutex
and the state mutex between concurrently running polls (tie at poll granularity).  Import-free.
-/
namespace IpaVerif.OrderingSender
open IpaVerif.CircularBuf

abbrev Task := Nat

/-- `WakerItem { i, w }`. -/
structure WakerItem where
  i : Nat
  w : Task
deriving Repr, BEq, DecidableEq

/-- `WaitingShard { woken_at, wakers }`. -/
structure Shard where
  wokenAt : Nat := 0
  wakers : List WakerItem := []
deriving Repr

/-- The backwards scan of `WaitingShard::add`, on the reversed list: skip greater indices, replace
an equal one, insert after the first smaller one, or at position 0. -/
def addRev (item : WakerItem) : List WakerItem → List WakerItem
  | [] => [item]
  | x :: rest =>
    if x.i > item.i then x :: addRev item rest
    else if x.i = item.i then item :: rest
    else item :: x :: rest

/-- `WaitingShard::add`: `none` = `Err(())` (the caller's view of `next` is behind `woken_at`). -/
def Shard.add (s : Shard) (current i : Nat) (w : Task) : Option Shard :=
  if current < s.wokenAt then none
  else some { s with wakers := (addRev ⟨i, w⟩ s.wakers.reverse).reverse }

/-- The iterator chain of `WaitingShard::wake`:
`wakers.iter().take_while(|wi| wi.i <= i).position(|wi| wi.i == i)` followed by
`drain(0..idx)` and `pop_front()`: walk the list while indices are `≤ i`; at the first index `= i`
return its waker and what follows it (everything before it is dropped without being woken). -/
def wakeList (i : Nat) : List WakerItem → Option (Task × List WakerItem)
  | [] => none
  | x :: rest =>
    if x.i = i then some (x.w, rest)
    else if x.i ≤ i then wakeList i rest
    else none

/-- `WaitingShard::wake`: bump `woken_at`; wake the waker saved for index `i`, if any. -/
def Shard.wake (s : Shard) (i : Nat) : Shard × List Task :=
  match wakeList i s.wakers with
  | some (w, rest) => ({ wokenAt := max s.wokenAt i, wakers := rest }, [w])
  | none => ({ s with wokenAt := max s.wokenAt i }, [])

def shardIdx (i : Nat) : Nat :=
  (i >>> Generated.Buffers.senderContiguousBits) % Generated.Buffers.senderShards

/-- `OrderingSender { next, state: Mutex<State { buf, write_ready, stream_ready }>, waiting }`. -/
structure State where
  next : Nat
  buf : Buf
  writeReady : Option Task
  streamReady : Option Task
  shards : Nat → Shard

def State.new (cap ws rs : Nat) : Except String State :=
  match Buf.new cap ws rs with
  | .ok b => .ok { next := 0, buf := b, writeReady := none, streamReady := none, shards := fun _ => {} }
  | .error e => .error e

inductive Op where
  /-- `Send { i, m }.poll(cx)` with `cx.waker()` = task `t`. -/
  | pollSend (t : Task) (i : Nat) (m : List Nat)
  /-- `Close { i }.poll(cx)`. -/
  | pollClose (t : Task) (i : Nat)
  /-- `take_next(cx)` (= `OrderedStream::poll_next`). -/
  | pollTake (t : Task)
deriving Repr, BEq, DecidableEq

inductive Res where
  | ready                    -- `Poll::Ready(())`
  | pending                  -- `Poll::Pending`
  | chunk (v : List Nat)     -- `Poll::Ready(Some(v))`
  | finished                 -- `Poll::Ready(None)`
deriving Repr, BEq, DecidableEq

/-- Result of one poll and the wakers woken during it (in order). -/
structure Out where
  res : Res
  woken : List Task
deriving Repr, BEq, DecidableEq

def State.waitingWake (s : State) (i : Nat) : State × List Task :=
  let r := (s.shards (shardIdx i)).wake i
  ({ s with shards := fun k => if k = shardIdx i then r.1 else s.shards k }, r.2)

/-- The `Ordering::Less` arm of `next_op`: `waiting.add(curr, i, waker)`; on `Err` the loop re-reads
`next`, which at poll granularity is unchanged — the poll would spin (outcome `spin`). -/
def State.waitingAdd (s : State) (i : Nat) (t : Task) : Except String State :=
  match (s.shards (shardIdx i)).add s.next i t with
  | some sh => .ok { s with shards := fun k => if k = shardIdx i then sh else s.shards k }
  | none => .error "spin"

def step (s : State) : Op → Except String (State × Out)
  | .pollSend t i m =>
    if s.next > i then .error "attempt to write/close at index"
    else if s.next = i then
      if s.buf.closed then .error "writing on a closed stream"
      else if !s.buf.canWrite then
        -- State::write: save_waker(write_ready); Pending
        .ok ({ s with writeReady := some t }, ⟨.pending, []⟩)
      else
        match s.buf.writeMsg m with
        | .error e => .error e
        | .ok b' =>
          -- if can_read { wake(stream_ready) }
          let (sr, w1) := if b'.canRead then (none, s.streamReady.toList) else (s.streamReady, [])
          -- next.fetch_add(1); then (outside the lock) waiting.wake(i + 1)
          let s1 : State := { s with buf := b', streamReady := sr, next := s.next + 1 }
          let (s2, w2) := s1.waitingWake (i + 1)
          .ok (s2, ⟨.ready, w1 ++ w2⟩)
    else
      match s.waitingAdd i t with
      | .ok s' => .ok (s', ⟨.pending, []⟩)
      | .error e => .error e
  | .pollClose t i =>
    if s.next > i then .error "attempt to write/close at index"
    else if s.next = i then
      match s.buf.close with
      | .error e => .error e
      | .ok b' =>
        .ok ({ s with buf := b', streamReady := none, next := s.next + 1 }, ⟨.ready, s.streamReady.toList⟩)
    else
      match s.waitingAdd i t with
      | .ok s' => .ok (s', ⟨.pending, []⟩)
      | .error e => .error e
  | .pollTake t =>
    if s.buf.canRead then
      let cw := s.buf.canWrite
      let r := s.buf.take
      let (wr, w1) := if !cw then (none, s.writeReady.toList) else (s.writeReady, [])
      let s1 : State := { s with buf := r.1, writeReady := wr }
      let (s2, w2) := s1.waitingWake s1.next
      .ok (s2, ⟨.chunk r.2, w1 ++ w2⟩)
    else
      let s1 : State := { s with streamReady := some t }
      if s.buf.closed then .ok (s1, ⟨.finished, []⟩) else .ok (s1, ⟨.pending, []⟩)

/-- Trace of a schedule; stops at the first panic. -/
def run (s : State) : List Op → List (Except String Out)
  | [] => []
  | op :: rest =>
    match step s op with
    | .error e => [.error e]
    | .ok (s', o) => .ok o :: run s' rest

/-- Final state of a schedule (`.error` at the first panic). -/
def exec (s : State) : List Op → Except String State
  | [] => .ok s
  | op :: rest =>
    match step s op with
    | .error e => .error e
    | .ok (s', _) => exec s' rest

end IpaVerif.OrderingSender
