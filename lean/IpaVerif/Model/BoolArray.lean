import IpaVerif.Model.Util
/-!
Executable model of `ipa-core/src/ff/boolean.rs` and `ipa-core/src/ff/boolean_array.rs`
(`boolean_array_impl!`, `boolean_array_impl_small!`, `boolean_array_impl_large!`,
`impl_serializable_trait!`).

A Boolean array `BA<n>` is modelled by the `Nat` value of its **whole store** (`storeBytes` bytes,
little-endian, bit `i` of the array = bit `i` of the value), i.e. *including* the
`8*storeBytes - bits` padding bits. An element is canonical when all padding bits are zero
(`value < 2^bits`). "Every operation keeps the padding zero" is a theorem (Props/C08Ba).
-/
namespace IpaVerif.BoolArray

structure Params where
  name : String
  /-- `SharedValue::BITS` -/
  bits : Nat
  /-- bytes of the `BitArr!` store, `⌈bits/8⌉` -/
  storeBytes : Nat
  /-- `impl_serializable_trait!(…, fallible)`: deserialisation rejects non-zero padding -/
  fallible : Bool
  /-- `boolean_array_impl_small!`: has the `u128` conversions -/
  small : Bool
  /-- extracted from the source: `impl Not` clears the padding bits after `self.0.not()` -/
  notClearsPadding : Bool
  deriving Repr

def storeMask (P : Params) : Nat := 2 ^ (8 * P.storeBytes) - 1
def mask (P : Params) : Nat := 2 ^ P.bits - 1

/-- `Add`/`Sub` (and the assign forms): `self.0 ^ rhs.0`. -/
def add (_ : Params) (a b : Nat) : Nat := a ^^^ b
def sub (P : Params) (a b : Nat) : Nat := add P a b
/-- `Mul`: `self.0 & rhs.0`. -/
def mul (_ : Params) (a b : Nat) : Nat := a &&& b
/-- `Neg`: identity. -/
def neg (_ : Params) (a : Nat) : Nat := a
/-- `Mul<Boolean>`. -/
def mulBool (_ : Params) (a : Nat) (c : Bool) : Nat := if c then a else 0

/-- `Not`: `self.0.not()` complements every bit of the store; the (fixed) code then clears the
padding bits `[$bits..]`. -/
def not (P : Params) (a : Nat) : Nat :=
  let flipped := storeMask P ^^^ a
  if P.notClearsPadding then flipped &&& mask P else flipped

/-- `U128Conversions::truncate_from` (small arrays): bits `0..min(128, BITS)` of `v`. -/
def truncateFrom (P : Params) (v : Nat) : Nat := v % 2 ^ (min 128 P.bits)

def bitLen (v : Nat) : Nat := if v = 0 then 0 else Nat.log2 v + 1

/-- `TryFrom<u128>`. -/
def tryFrom (P : Params) (v : Nat) : Option Nat :=
  if bitLen v ≤ P.bits then some (truncateFrom P v) else none

/-- `From<BA> for u128`: folds over **all** bits of the store (padding included). -/
def asU128 (_ : Params) (a : Nat) : Nat := a

def serialize (P : Params) (a : Nat) : List Nat := Util.leBytes a P.storeBytes

/-- `deserialize`: the fallible flavour rejects non-zero padding; `none` also for a wrong length. -/
def deserialize (P : Params) (bs : List Nat) : Option Nat :=
  if bs.length ≠ P.storeBytes then none else
  let v := Util.ofLeBytes bs
  if P.fallible then (if v < 2 ^ P.bits then some v else none) else some v

/-- `ArrayAccess::get`. -/
def get (P : Params) (a i : Nat) : Option Bool := if i < P.bits then some (a.testBit i) else none

/-- `ArrayAccess::set` (index within `BITS`). -/
def set (_ : Params) (a i : Nat) (b : Bool) : Nat := if a.testBit i = b then a else a ^^^ 2 ^ i

/-- `Expand<Boolean>::expand`. -/
def expand (P : Params) (b : Bool) : Nat := if b then mask P else 0

def ofBits : List Bool → Nat
  | [] => 0
  | b :: rest => (if b then 1 else 0) + 2 * ofBits rest

/-- `FromIterator<Boolean>`: takes the first `BITS` items; `none` = panic (iterator too short). -/
def fromIter (P : Params) (bs : List Bool) : Option Nat :=
  if bs.length < P.bits then none else some (ofBits (bs.take P.bits))

/-- `TryFrom<Vec<Boolean>>`: exact length required. -/
def tryFromVec (P : Params) (bs : List Bool) : Option Nat :=
  if bs.length = P.bits then some (ofBits bs) else none

/-- `iter()` / `into_iter()`: the first `BITS` bits. -/
def toBits (P : Params) (a : Nat) : List Bool := (List.range P.bits).map a.testBit

/-- `TryFrom<BA> for Vec<Gf32Bit>`: the raw store in 4-byte chunks, the last one zero-extended. -/
def toGf32 (P : Params) (a : Nat) : List Nat :=
  let n := (8 * P.storeBytes + 31) / 32
  (List.range n).map (fun i => (a / 2 ^ (32 * i)) % 2 ^ 32)

/-- `FromRandom` (large arrays): little-endian bytes of the `u128` words, truncated to the store. -/
def fromRandom (P : Params) (words : List Nat) : Nat :=
  let bytes := (words.map (fun w => Util.leBytes w 16)).flatten
  Util.ofLeBytes (bytes.take P.storeBytes)

/-! ### `Boolean` (`ff/boolean.rs`): the field GF(2) on `bool` -/
namespace Boolean
def add (a b : Bool) : Bool := xor a b
def sub (a b : Bool) : Bool := add a b
def mul (a b : Bool) : Bool := a && b
def neg (a : Bool) : Bool := a
def not (a : Bool) : Bool := !a
def truncateFrom (v : Nat) : Bool := v % 2 != 0
def tryFrom (v : Nat) : Option Bool := if v < 2 then some (v != 0) else none
def asU128 (a : Bool) : Nat := if a then 1 else 0
def serialize (a : Bool) : List Nat := [asU128 a]
def deserialize (bs : List Nat) : Option Bool :=
  match bs with
  | [b] => if b > 1 then none else some (b != 0)
  | _ => none
end Boolean

end IpaVerif.BoolArray
