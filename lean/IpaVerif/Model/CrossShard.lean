import IpaVerif.Generated.CrossShard
/-!
# Model of `gen_and_distribute` (helpers/cross_shard_prss.rs), one helper, per shard, under faults (C06)

Each shard of a helper owns a per-shard PRSS (negotiated with the SAME shard of the two other helpers).
The leader shard draws a seed pair from ITS per-shard PRSS (`prss.generate(RecordId::FIRST)`), sends it to
every other shard and sets its endpoint up from it. A follower waits for one record on the channel
`(leader, gate)`:
* a record arrives ⇒ endpoint from the received pair;
* the channel ends without a record ⇒ `Error::EndOfStream` — NEVER an endpoint of its own making.

The fault pattern is what the leader's channels deliver: `deliver j = true` iff the seed record reached shard
`j` before the channel was closed. Import-free.
-/
namespace IpaVerif.CrossShard

/-- what a follower's `get_shard_receiver(..).try_next().await?` answers -/
inductive Recv (Seed : Type) where
  | record (s : Seed)   -- `Some((l_seed, r_seed))`
  | closed              -- `None`: the stream ended without a record
  deriving DecidableEq, Repr

/-- outcome of `gen_and_distribute` on one shard: the seed pair its endpoint is set up from, or the error -/
inductive Outcome (Seed : Type) where
  | ok (s : Seed)
  | endOfStream
  deriving DecidableEq, Repr

/-- the follower arm as written: `.ok_or_else(|| Error::EndOfStream { .. })?` -/
def followerStrict {Seed : Type} (_own : Seed) : Recv Seed → Outcome Seed
  | .record s => .ok s
  | .closed => .endOfStream

/-- NOT the code — the "graceful" variant: `None => prss.generate(RecordId::FIRST)`, the shard's OWN seeds -/
def followerFallback {Seed : Type} (own : Seed) : Recv Seed → Outcome Seed
  | .record s => .ok s
  | .closed => .ok own

/-- one shard: `own` = what `prss.generate(RecordId::FIRST)` of ITS per-shard PRSS would give -/
def genAndDistributeWith {Seed : Type} (follower : Seed → Recv Seed → Outcome Seed)
    (isLeader : Bool) (own : Seed) (recv : Recv Seed) : Outcome Seed :=
  if isLeader then .ok own else follower own recv

/-- the follower arm the translator found in the source (fallback of the generated record: strict) -/
def codeFollower {Seed : Type} : Seed → Recv Seed → Outcome Seed :=
  if IpaVerif.Generated.CrossShard.followerErrOnEmpty && IpaVerif.Generated.CrossShard.followerNeverGenerates
  then followerStrict else followerFallback

/-- a helper with any number of shards: shard 0 is the leader (`ShardIndex::FIRST`), `own j` the seed pair of
shard j's per-shard PRSS, `deliver j` whether the leader's record reached shard j -/
def shardOutcomeWith {Seed : Type} (follower : Seed → Recv Seed → Outcome Seed)
    (own : Nat → Seed) (deliver : Nat → Bool) (j : Nat) : Outcome Seed :=
  genAndDistributeWith follower (j == 0) (own j) (if deliver j then .record (own 0) else .closed)

def shardOutcome {Seed : Type} : (Nat → Seed) → (Nat → Bool) → Nat → Outcome Seed := shardOutcomeWith codeFollower

/-- number of distinct seed pairs among the shards `0..n-1` that returned `Ok` -/
def distinctOk {Seed : Type} [DecidableEq Seed] (outs : List (Outcome Seed)) : Nat :=
  (outs.foldl (fun acc o => match o with
    | .ok s => if acc.contains s then acc else s :: acc
    | .endOfStream => acc) ([] : List Seed)).length

end IpaVerif.CrossShard
