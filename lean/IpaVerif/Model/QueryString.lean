import IpaVerif.Model.Util
/-!
Executable model (property C09) of the `QueryConfig` ↔ HTTP query string layout:
`impl Display for QueryConfigQueryParams` and `impl FromRequestParts for QueryConfigQueryParams`
(`net/http_serde.rs`), `QuerySize::try_from` (`helpers/transport/query/mod.rs`).

The model works on the list of key/value pairs; percent-encoding, the splitting at `&` / `=` and the
text form of the scalars (`u32` decimal, `f64` Display / `FromStr`, `bool`) are serde_urlencoded's and
std's business — parameters of the theorem. `epsilon` is therefore an opaque token.
-/
namespace IpaVerif.QueryString

inductive FieldType | fp31 | fp32
  deriving DecidableEq, Repr

structure HybridParams where
  maxBreakdownKey : Nat
  withDp : Nat
  /-- text of the `f64` (as produced by `Display`, accepted by `FromStr`) -/
  epsilon : String
  plaintextMatchKeys : Bool
  deriving DecidableEq, Repr

inductive QueryType
  | testMultiply | testAdd | testShardedShuffle
  | maliciousHybrid (p : HybridParams)
  deriving DecidableEq, Repr

structure QueryConfig where
  size : Nat
  fieldType : FieldType
  queryType : QueryType
  deriving DecidableEq, Repr

/-- a scalar as it appears in a key/value pair -/
inductive Scalar
  | nat (n : Nat)
  | str (s : String)
  | bool (b : Bool)
  deriving DecidableEq, Repr

abbrev Pairs := List (String × Scalar)

def maxSize : Nat := 1000000000

def fieldName : FieldType → String
  | .fp31 => "Fp31"
  | .fp32 => "Fp32BitPrime"

def queryTypeStr : QueryType → String
  | .testMultiply => "test-multiply"
  | .testAdd => "test-add"
  | .testShardedShuffle => "test-sharded-shuffle"
  | .maliciousHybrid _ => "malicious-hybrid"

/-- `Display for QueryConfigQueryParams`: `query_type=…&field_type=…&size=…` and, for the hybrid query,
`&max_breakdown_key=…&with_dp=…&epsilon=…[&plaintext_match_keys=true]`. -/
def toPairs (c : QueryConfig) : Pairs :=
  [("query_type", .str (queryTypeStr c.queryType)), ("field_type", .str (fieldName c.fieldType)),
   ("size", .nat c.size)] ++
  match c.queryType with
  | .maliciousHybrid p =>
    [("max_breakdown_key", .nat p.maxBreakdownKey), ("with_dp", .nat p.withDp), ("epsilon", .str p.epsilon)] ++
      (if p.plaintextMatchKeys then [("plaintext_match_keys", .bool true)] else [])
  | _ => []

def lookup (ps : Pairs) (k : String) : Option Scalar := (ps.find? (·.1 == k)).map (·.2)

def getNat (ps : Pairs) (k : String) (bound : Nat) : Option Nat :=
  match lookup ps k with
  | some (.nat n) => if n < bound then some n else none
  | _ => none

def getStr (ps : Pairs) (k : String) : Option String :=
  match lookup ps k with
  | some (.str s) => some s
  | _ => none

/-- `FromRequestParts for QueryConfigQueryParams`: `size` (u32, then `QuerySize::try_from`: 1..=10^9),
`field_type`, `query_type`; for `malicious-hybrid` a second extraction of `HybridQueryParams`
(`plaintext_match_keys` defaults to false). `none` = rejected (400). -/
def fromPairs (ps : Pairs) : Option QueryConfig := do
  let size ← getNat ps "size" (2 ^ 32)
  if size = 0 ∨ size > maxSize then none else
  let ft ← getStr ps "field_type"
  let fieldType ← if ft = "Fp31" then some FieldType.fp31 else if ft = "Fp32BitPrime" then some .fp32 else none
  let qt ← getStr ps "query_type"
  let queryType ←
    if qt = "test-multiply" then some QueryType.testMultiply
    else if qt = "test-add" then some .testAdd
    else if qt = "test-sharded-shuffle" then some .testShardedShuffle
    else if qt = "malicious-hybrid" then do
      let mbk ← getNat ps "max_breakdown_key" (2 ^ 32)
      let dp ← getNat ps "with_dp" (2 ^ 32)
      let eps ← getStr ps "epsilon"
      let pm ← match lookup ps "plaintext_match_keys" with
        | none => some false
        | some (.bool b) => some b
        | _ => none
      some (.maliciousHybrid { maxBreakdownKey := mbk, withDp := dp, epsilon := eps, plaintextMatchKeys := pm })
    else none
  pure { size := size, fieldType := fieldType, queryType := queryType }

/-- configurations that can exist: `QuerySize` within 1..=10^9, `u32` parameters -/
def QueryConfig.Valid (c : QueryConfig) : Prop :=
  0 < c.size ∧ c.size ≤ maxSize ∧
    match c.queryType with
    | .maliciousHybrid p => p.maxBreakdownKey < 2 ^ 32 ∧ p.withDp < 2 ^ 32
    | _ => True

end IpaVerif.QueryString
