import IpaVerif.Generated.MacAtomic
/-!
# The running MACs `(u, w)` of one validation batch under concurrent `accumulate_macs` calls (C04)

`ipa-core/src/protocol/context/malicious.rs`: every wire a helper records (share upgrade, `mac_multiply`, MAC reshare) goes
through
```
pub fn accumulate_macs(self, record_id, share) {
    self.with_batch(record_id, |v| { v.accumulator.accumulate_macs(&self.prss(), record_id, share); });
}
fn with_batch(&self, record_id, action) -> T {
    let batcher = self.batch.upgrade().expect("Validator is active");
    let mut batch = batcher.lock().unwrap();          // ONE acquisition of the batcher mutex
    let state = batch.get_batch(record_id);
    (action)(&mut state.batch)                        // the closure runs under the guard
}
```
and `MaliciousAccumulator::accumulate_macs(&mut self, ..)` ends with `self.inner.u += u_contribution; self.inner.w +=
w_contribution;`. The records of one batch are driven concurrently (`seq_join` / `parallel_join`; on several OS threads with
the `multi-threading` feature), so on ONE helper many calls race for the same `(u, w)`.

One helper, `k` calls; call `t` adds its local contribution `(du t, dw t)` (a function of the PRSS coefficient of the call's
record and of the share — independent of `(u, w)`). Under the mutex a call is ONE atomic step (`atomicStep`). `splitStep`
is the read-modify-write variant (independent seed `C04e`): fetch `(u, w)` under the lock, add outside, store back under
a second acquisition — two atomic steps with other calls in between. Which of the two the code is, is read from the
sources by the translator (`Generated/MacAtomic.lean`); `codeStep` is defined from that.

Calls are natural numbers; a schedule is the list of call ids in the order in which they are given the processor for their
next atomic step (ids of finished calls are no-ops, so every list is a schedule). The carrier `F` and its addition are
parameters (`Nat` for the `decide`d examples, a commutative ring in the theorems). Import-free.
-/
namespace IpaVerif.MacAtomic

/-- one helper's `AccumulatorState` of one batch plus the bookkeeping of the interleaving -/
structure State (F : Type) where
  /-- `inner.u` -/
  u : F
  /-- `inner.w` -/
  w : F
  /-- split variant only: calls that hold a private copy `(u, w)` fetched earlier and have not yet stored it back -/
  fetched : List (Nat × F × F)
  /-- calls that have returned -/
  done : List Nat
  deriving DecidableEq, Repr

variable {F : Type}

def init (u0 w0 : F) : State F := { u := u0, w := w0, fetched := [], done := [] }

/-- the code: lock; `inner.u += du; inner.w += dw`; unlock — one step. -/
def atomicStep (add : F → F → F) (du dw : Nat → F) (s : State F) (t : Nat) : State F :=
  if s.done.contains t then s
  else { s with u := add s.u (du t), w := add s.w (dw t), done := t :: s.done }

/-- fetch / compute / store: first step = lock; clone `(u, w)`; unlock. Second step = (add the contribution to the private
copy;) lock; overwrite `(u, w)` with the copy; unlock. -/
def splitStep (add : F → F → F) (du dw : Nat → F) (s : State F) (t : Nat) : State F :=
  if s.done.contains t then s
  else match s.fetched.lookup t with
    | some (u0, w0) =>
      { u := add u0 (du t), w := add w0 (dw t), fetched := s.fetched.filter (fun e => e.1 != t), done := t :: s.done }
    | none => { s with fetched := (t, s.u, s.w) :: s.fetched }

def run (step : State F → Nat → State F) (s : State F) (sched : List Nat) : State F := sched.foldl step s

/-- what the sources say (translator): `Upgraded::accumulate_macs` is a single `with_batch` call whose closure performs the
update, nothing is copied out or stored back; `with_batch` locks once and runs the closure under the guard; the
accumulator is updated in place. -/
def codeIsAtomic : Bool :=
  open IpaVerif.Generated.MacAtomic in
  withBatchCalls == 1 && accumulatorCopies == 0 && accumulatorStoreBacks == 0 && updateInsideClosure
    && withBatchLockAcquisitions == 1 && actionUnderGuard && updateInPlace

/-- `Upgraded::accumulate_macs` as the code has it -/
def codeStep (add : F → F → F) (du dw : Nat → F) : State F → Nat → State F :=
  if codeIsAtomic then atomicStep add du dw else splitStep add du dw

/-- sequential specification: the contributions of the calls `0 … k-1` added one after the other -/
def seqSum (add : F → F → F) (d : Nat → F) (x0 : F) (k : Nat) : F := (List.range k).foldl (fun x t => add x (d t)) x0

/-- the DZKP side has the same shape (`DZKPUpgraded::push` = one `with_batch` whose closure calls `Batch::push`) -/
def dzkpPushIsAtomic : Bool := IpaVerif.Generated.MacAtomic.dzkpPushSingleSection

end IpaVerif.MacAtomic
