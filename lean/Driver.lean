import IpaVerif.Driver.C01
import IpaVerif.Driver.C02
import IpaVerif.Driver.C03
import IpaVerif.Driver.C04
import IpaVerif.Driver.C05
import IpaVerif.Driver.C06
import IpaVerif.Driver.C07
import IpaVerif.Driver.C08
import IpaVerif.Driver.C09
import IpaVerif.Driver.C10
import IpaVerif.Driver.C11
import IpaVerif.Driver.C12
import IpaVerif.Driver.C13
import IpaVerif.Driver.C14
import IpaVerif.Driver.C15
import IpaVerif.Driver.C16
import IpaVerif.Driver.C17
import IpaVerif.Driver.C18
import IpaVerif.Driver.C19
import IpaVerif.Driver.C20
/-!
Line-protocol driver. One request per line on stdin, one response per line on stdout.

  `<op> <args…>`                       → the model's response for that request
  `oracle <op> <args…>\t<impl resp>`   → `holds` | `fails <why>` | `unknown`

Requests nobody handles are answered `unhandled`.
-/
open IpaVerif.Driver

def handlers : List (List String → Option String) :=
  [C01.handle, C02.handle, C03.handle, C04.handle, C05.handle, C06.handle, C07.handle,
   C08.handle, C09.handle, C10.handle, C11.handle, C12.handle, C13.handle, C14.handle,
   C15.handle, C16.handle, C17.handle, C18.handle, C19.handle, C20.handle]

def oracles : List (List String → String → Option String) :=
  [C01.oracle, C02.oracle, C03.oracle, C04.oracle, C05.oracle, C06.oracle, C07.oracle,
   C08.oracle, C09.oracle, C10.oracle, C11.oracle, C12.oracle, C13.oracle, C14.oracle,
   C15.oracle, C16.oracle, C17.oracle, C18.oracle, C19.oracle, C20.oracle]

def toks (s : String) : List String := (s.splitOn " ").filter (· ≠ "")

def respond (line : String) : String :=
  match line.splitOn "\t" with
  | [req] =>
      let t := toks req
      (handlers.findSome? (· t)).getD "unhandled"
  | [req, impl] =>
      match toks req with
      | "oracle" :: t => (oracles.findSome? (fun o => o t impl)).getD "unknown"
      | _ => "bad-request"
  | _ => "bad-request"

partial def loop (h : IO.FS.Stream) (out : IO.FS.Stream) : IO Unit := do
  let line ← h.getLine
  if line.isEmpty then return ()
  let l := if line.endsWith "\n" then (line.dropEnd 1).toString else line
  out.putStrLn (respond l)
  loop h out

def main : IO Unit := do
  let out ← IO.getStdout
  loop (← IO.getStdin) out
  out.flush
