-- Root of the `IpaVerif` library: executable models only (the driver links against these).
-- Property theorems live in `IpaVerif.Props.Cxx` and are built per property by `./check`.
import IpaVerif.Model.Util
