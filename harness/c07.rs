// Correspondence suites for property C07 (secure arithmetic and Boolean circuits compute the stated
// plaintext functions). Each suite is a #[test] fn named verif_c07_<suite>.
//
// One request line = ONE TestWorld run of the real protocol on a batch of operand pairs (vector lanes or
// records), in mode `sh` (semi-honest, DZKP-upgraded semi-honest context for the Boolean circuits) or `mal`
// (DZKP-malicious context, validated with `validate()` before the outputs are used).
//
//   c07.mul <Field> <mode> <as> <bs>                 -> <products> <ok|inconsistent>
//   c07.vmul <mode> <W> <as> <bs>                    -> Boolean multiplication on W lanes (bits)
//   c07.add|satadd|gt|mulint|or|and <mode> <W> <n> <m> <xs> <ys>   (W lanes, |x| = n bits, |y| = m bits)
//        add    -> <sums> <carries> <flag>
//        others -> <values> <flag>
//   c07.sub|geq <mode> <n> <m> <xs> <ys>            (N = 1, one record per pair) -> <values> <flag>
//   c07.satsub <mode> <BAw> <xs> <ys>               -> <values> <flag>
//   c07.select <mode> <BAw> <conds> <ts> <fs>       -> <values> <flag>
//   c07.agg <mode> <B> <w> <tv> <row/row/…>         (B columns, output width w, input width tv) -> <values> <flag>
//   c07.merge sh <S> <row/row/…>                    (S shards, one row of 16 BA8 bucket values per shard; the leader's
//                                                    merged histogram after `FinalizerContext::finalize`) -> 8 <values> ok
//   c07.orf <Field> <as> <bs>                       -> <values> <flag>     (a, b in {0,1})
//   c07.known <Field> <v>                           -> <v> <flag>
//   c07.reshare <Field> <to> <vs>                   -> <values> <flag>
//   c07.conv <mode> <bits> <xs>                     -> <values mod l> <flag>
//   c07.prf <mode> <N> <k> <xs>                     (k, x = Fp25519 elements, 32 bytes little-endian hex; N = 1 | 16 lanes)
//        -> <pseudonyms of H1> <agree|disagree> <(x+k)^-1 hex list> <u64::from(RP25519::from((x+k)^-1)) list>
// Values are decimal; the flag says whether every output sharing was consistent between adjacent helpers.
use std::{array, iter::repeat};

use futures::stream::iter as stream_iter;
use futures_util::{StreamExt, TryStreamExt};

use super::proto::*;
use crate::{
    ff::{
        Field, Serializable, Fp31, Fp32BitPrime, Fp61BitPrime, Gf2, Gf3Bit, Gf8Bit, Gf9Bit, Gf20Bit,
        Gf32Bit, Gf40Bit, U128Conversions,
        boolean::Boolean,
        boolean_array::{BA3, BA5, BA8, BA16, BA20, BA32, BA64},
        ec_prime_field::Fp25519,
    },
    helpers::Role,
    protocol::{
        RecordId,
        basics::{Reshare, SecureMul, ShareKnownValue, select, shard_fin::{FinalizerContext, Histogram}},
        boolean::{and::bool_and_8_bit, or::bool_or, or::or, step::DefaultBitStep},
        context::{Context, TEST_DZKP_STEPS, UpgradableContext, dzkp_validator::DZKPValidator},
        ipa_prf::{
            aggregation::aggregate_values,
            boolean_ops::convert_to_fp25519,
            boolean_ops::{
                addition_sequential::{integer_add, integer_sat_add},
                comparison_and_subtraction_sequential::{
                    compare_geq, compare_gt, integer_sat_sub, integer_sub,
                },
                ipa_verif_integer_mul as integer_mul,
            },
        },
    },
    secret_sharing::{
        BitDecomposed, SharedValue, Vectorizable,
        replicated::{ReplicatedSecretSharing, semi_honest::AdditiveShare},
    },
    seq_join::{SeqJoin, seq_join},
    test_fixture::{Reconstruct, Runner, TestWorld, TestWorldConfig, WithShards},
};

const RUN_TIMEOUT_S: u64 = 60;

fn seed_of(req: &str) -> u64 {
    let mut h = 0xcbf2_9ce4_8422_2325u64;
    for b in req.bytes() {
        h = (h ^ u64::from(b)).wrapping_mul(0x0000_0100_0000_01B3);
    }
    h
}

fn world(req: &str) -> TestWorld {
    TestWorld::new_with(TestWorldConfig::default().with_seed(seed_of(req)).with_timeout_secs(RUN_TIMEOUT_S))
}

fn flag(ok: bool) -> &'static str {
    if ok { "ok" } else { "inconsistent" }
}

/// reconstruct one vectorised sharing without asserting; returns (value array, consistent?)
fn recon<V, const N: usize>(s: [&AdditiveShare<V, N>; 3]) -> (<V as Vectorizable<N>>::Array, bool)
where
    V: SharedValue + Vectorizable<N>,
{
    let ok = s[0].right_arr() == s[1].left_arr()
        && s[1].right_arr() == s[2].left_arr()
        && s[2].right_arr() == s[0].left_arr();
    (s[0].left_arr().clone() + s[1].left_arr() + s[2].left_arr(), ok)
}

/// bits (LSB first) of `N` lanes -> per-lane values, plus consistency of every bit sharing
fn recon_bits<const N: usize>(s: &[BitDecomposed<AdditiveShare<Boolean, N>>; 3]) -> (Vec<u128>, bool)
where
    Boolean: Vectorizable<N>,
{
    let mut vals = vec![0u128; N];
    let mut ok = s[0].len() == s[1].len() && s[1].len() == s[2].len();
    for i in 0..s[0].len() {
        let (arr, c) = recon([&s[0][i], &s[1][i], &s[2][i]]);
        ok &= c;
        for (v, b) in vals.iter_mut().zip(arr.into_iter()) {
            if bool::from(b) {
                *v |= 1u128 << i;
            }
        }
    }
    (vals, ok)
}

fn lanes<const N: usize>(bits: usize, xs: &[u128]) -> BitDecomposed<[Boolean; N]> {
    BitDecomposed::new((0..bits).map(|i| array::from_fn(|lane| Boolean::from((xs.get(lane).copied().unwrap_or(0) >> i) & 1 == 1))))
}

fn scalar_bits(bits: usize, x: u128) -> BitDecomposed<Boolean> {
    BitDecomposed::new((0..bits).map(|i| Boolean::from((x >> i) & 1 == 1)))
}

// ---------------------------------------------------------------- vectorised Boolean circuits
macro_rules! vec_ops_fn {
    ($fname:ident, $method:ident, $N:literal) => {
        fn $fname(req: &str, op: &str, n: usize, m: usize, xs: &[u128], ys: &[u128]) -> String {
            const N: usize = $N;
            let used = xs.len().min(N);
            let xb = lanes::<N>(n, xs);
            let yb = lanes::<N>(m, ys);
            let op = op.to_string();
            let res = block_on_timeout(RUN_TIMEOUT_S + 5, async {
                let w = world(req);
                w.$method((xb, yb), |ctx, (x, y): (BitDecomposed<AdditiveShare<Boolean, N>>, BitDecomposed<AdditiveShare<Boolean, N>>)| {
                    let op = op.clone();
                    async move {
                        let v = ctx.set_total_records(1).dzkp_validator(TEST_DZKP_STEPS, 8);
                        let c = v.context();
                        let rid = RecordId::FIRST;
                        let out: BitDecomposed<AdditiveShare<Boolean, N>> = match op.as_str() {
                            "add" => {
                                let (mut s, carry) = integer_add::<_, DefaultBitStep, N>(c, rid, &x, &y).await.unwrap();
                                s.push(carry);
                                s
                            }
                            "satadd" => integer_sat_add::<_, DefaultBitStep, N>(c, rid, &x, &y).await.unwrap(),
                            "gt" => BitDecomposed::new([compare_gt::<_, DefaultBitStep, N>(c, rid, &x, &y).await.unwrap()]),
                            "mulint" => integer_mul::<_, DefaultBitStep, N>(c, rid, &x, &y).await.unwrap(),
                            "or" => bool_or::<_, DefaultBitStep, _, N>(c, rid, &x, y.iter()).await.unwrap(),
                            "and" => bool_and_8_bit(c, rid, &x, y.iter()).await.unwrap(),
                            "vmul" => BitDecomposed::new([x[0].multiply(&y[0], c, rid).await.unwrap()]),
                            o => panic!("harness: unknown vector op {o}"),
                        };
                        v.validate().await.unwrap();
                        out
                    }
                })
                .await
            });
            let res = match res {
                Ok(r) => r,
                Err(e) => return e,
            };
            let (vals, ok) = recon_bits::<N>(&res);
            let vals = &vals[..used];
            match op.as_str() {
                "add" => {
                    let mask = if n >= 128 { u128::MAX } else { (1u128 << n) - 1 };
                    let sums: Vec<u128> = vals.iter().map(|v| v & mask).collect();
                    let carries: Vec<u128> = vals.iter().map(|v| if n >= 128 { 0 } else { v >> n }).collect();
                    format!("{} {} {} {}", res[0].len(), nat_list(&sums), nat_list(&carries), flag(ok))
                }
                _ => format!("{} {} {}", res[0].len(), nat_list(vals), flag(ok)),
            }
        }
    };
}

vec_ops_fn!(vec_sh_1, semi_honest, 1);
vec_ops_fn!(vec_sh_3, semi_honest, 3);
vec_ops_fn!(vec_sh_8, semi_honest, 8);
vec_ops_fn!(vec_sh_16, semi_honest, 16);
vec_ops_fn!(vec_sh_32, semi_honest, 32);
vec_ops_fn!(vec_sh_256, semi_honest, 256);
vec_ops_fn!(vec_mal_1, malicious, 1);
vec_ops_fn!(vec_mal_16, malicious, 16);
vec_ops_fn!(vec_mal_32, malicious, 32);
vec_ops_fn!(vec_mal_256, malicious, 256);

fn vec_dispatch(req: &str, op: &str, mode: &str, w: usize, n: usize, m: usize, xs: &[u128], ys: &[u128]) -> String {
    match (mode, w) {
        ("sh", 1) => vec_sh_1(req, op, n, m, xs, ys),
        ("sh", 3) => vec_sh_3(req, op, n, m, xs, ys),
        ("sh", 8) => vec_sh_8(req, op, n, m, xs, ys),
        ("sh", 16) => vec_sh_16(req, op, n, m, xs, ys),
        ("sh", 32) => vec_sh_32(req, op, n, m, xs, ys),
        ("sh", 256) => vec_sh_256(req, op, n, m, xs, ys),
        ("mal", 1) => vec_mal_1(req, op, n, m, xs, ys),
        ("mal", 16) => vec_mal_16(req, op, n, m, xs, ys),
        ("mal", 32) => vec_mal_32(req, op, n, m, xs, ys),
        ("mal", 256) => vec_mal_256(req, op, n, m, xs, ys),
        _ => panic!("harness: no BooleanProtocols impl for mode {mode} width {w}"),
    }
}

// ---------------------------------------------------------------- N = 1 circuits, one record per pair
macro_rules! rec_ops_fn {
    ($fname:ident, $method:ident) => {
        fn $fname(req: &str, op: &str, n: usize, m: usize, xs: &[u128], ys: &[u128]) -> String {
            let inputs: Vec<(BitDecomposed<Boolean>, BitDecomposed<Boolean>)> =
                xs.iter().zip(ys.iter()).map(|(&x, &y)| (scalar_bits(n, x), scalar_bits(m, y))).collect();
            let cnt = inputs.len();
            let op = op.to_string();
            let res = block_on_timeout(RUN_TIMEOUT_S + 5, async {
                let w = world(req);
                w.$method(inputs.into_iter(), |ctx, shares: Vec<(BitDecomposed<AdditiveShare<Boolean>>, BitDecomposed<AdditiveShare<Boolean>>)>| {
                    let op = op.clone();
                    async move {
                        let v = ctx.set_total_records(cnt).dzkp_validator(TEST_DZKP_STEPS, cnt);
                        let c = v.context();
                        let outs: Vec<BitDecomposed<AdditiveShare<Boolean>>> = seq_join(
                            c.active_work(),
                            stream_iter(shares.into_iter().zip(repeat((c.clone(), op))).enumerate().map(|(i, ((x, y), (c, op)))| async move {
                                let rid = RecordId::from(i);
                                match op.as_str() {
                                    "sub" => integer_sub::<_, DefaultBitStep>(c, rid, &x, &y).await,
                                    "geq" => compare_geq::<_, DefaultBitStep>(c, rid, &x, &y).await.map(|b| BitDecomposed::new([b])),
                                    o => panic!("harness: unknown record op {o}"),
                                }
                            })),
                        )
                        .try_collect()
                        .await
                        .unwrap();
                        v.validate().await.unwrap();
                        outs
                    }
                })
                .await
            });
            let res = match res {
                Ok(r) => r,
                Err(e) => return e,
            };
            let mut vals = vec![];
            let mut ok = res[0].len() == cnt && res[1].len() == cnt && res[2].len() == cnt;
            let mut len = 0;
            for i in 0..res[0].len() {
                let (v, c) = recon_bits::<1>(&[res[0][i].clone(), res[1][i].clone(), res[2][i].clone()]);
                len = res[0][i].len();
                vals.push(v[0]);
                ok &= c;
            }
            format!("{} {} {}", len, nat_list(&vals), flag(ok))
        }
    };
}
rec_ops_fn!(rec_sh, semi_honest);
rec_ops_fn!(rec_mal, malicious);

// ---------------------------------------------------------------- boolean-array typed circuits (sat_sub, select)
macro_rules! ba_ops_fn {
    ($fname:ident, $method:ident, $BA:ty) => {
        fn $fname(req: &str, op: &str, cs: &[u128], xs: &[u128], ys: &[u128]) -> String {
            let inputs: Vec<(Boolean, ($BA, $BA))> = (0..xs.len())
                .map(|i| (Boolean::from(cs.get(i).copied().unwrap_or(0) & 1 == 1), (<$BA>::truncate_from(xs[i]), <$BA>::truncate_from(ys[i]))))
                .collect();
            let cnt = inputs.len();
            let op = op.to_string();
            let res = block_on_timeout(RUN_TIMEOUT_S + 5, async {
                let w = world(req);
                w.$method(inputs.into_iter(), |ctx, shares: Vec<(AdditiveShare<Boolean>, (AdditiveShare<$BA>, AdditiveShare<$BA>))>| {
                    let op = op.clone();
                    async move {
                        let v = ctx.set_total_records(cnt).dzkp_validator(TEST_DZKP_STEPS, cnt);
                        let c = v.context();
                        let outs: Vec<AdditiveShare<$BA>> = seq_join(
                            c.active_work(),
                            stream_iter(shares.into_iter().zip(repeat((c.clone(), op))).enumerate().map(|(i, ((cond, (x, y)), (c, op)))| async move {
                                let rid = RecordId::from(i);
                                match op.as_str() {
                                    "satsub" => integer_sat_sub::<_, $BA, DefaultBitStep>(c, rid, &x, &y).await,
                                    "select" => select(c, rid, &cond, &x, &y).await,
                                    o => panic!("harness: unknown BA op {o}"),
                                }
                            })),
                        )
                        .try_collect()
                        .await
                        .unwrap();
                        v.validate().await.unwrap();
                        outs
                    }
                })
                .await
            });
            let res = match res {
                Ok(r) => r,
                Err(e) => return e,
            };
            let mut vals = vec![];
            let mut ok = res[0].len() == cnt && res[1].len() == cnt && res[2].len() == cnt;
            for i in 0..res[0].len() {
                let (v, c) = recon::<$BA, 1>([&res[0][i], &res[1][i], &res[2][i]]);
                vals.push(v.into_iter().next().unwrap().as_u128());
                ok &= c;
            }
            format!("{} {}", nat_list(&vals), flag(ok))
        }
    };
}

macro_rules! ba_dispatch {
    ($(($w:literal, $BA:ty, $sh:ident, $mal:ident)),*) => {
        $( ba_ops_fn!($sh, semi_honest, $BA); ba_ops_fn!($mal, malicious, $BA); )*
        fn ba_dispatch(req: &str, op: &str, mode: &str, w: usize, cs: &[u128], xs: &[u128], ys: &[u128]) -> String {
            match (mode, w) {
                $( ("sh", $w) => $sh(req, op, cs, xs, ys), ("mal", $w) => $mal(req, op, cs, xs, ys), )*
                _ => panic!("harness: no boolean array of width {w}"),
            }
        }
    };
}
ba_dispatch!(
    (3, BA3, ba_sh_3, ba_mal_3),
    (5, BA5, ba_sh_5, ba_mal_5),
    (8, BA8, ba_sh_8, ba_mal_8),
    (16, BA16, ba_sh_16, ba_mal_16),
    (20, BA20, ba_sh_20, ba_mal_20),
    (32, BA32, ba_sh_32, ba_mal_32),
    (64, BA64, ba_sh_64, ba_mal_64)
);

// ---------------------------------------------------------------- multiplication / or / known value / reshare over every Field
fn field_ops<F>(req: &str, op: &str, arg: usize, xs: &[u128], ys: &[u128]) -> String
where
    F: Field + U128Conversions,
    rand::distributions::Standard: rand::distributions::Distribution<F>,
{
    let inputs: Vec<(F, F)> = (0..xs.len()).map(|i| (F::truncate_from(xs[i]), F::truncate_from(ys.get(i).copied().unwrap_or(0)))).collect();
    let cnt = inputs.len();
    let op = op.to_string();
    let res = block_on_timeout(RUN_TIMEOUT_S + 5, async {
        let w = world(req);
        w.semi_honest(inputs.into_iter(), |ctx, shares: Vec<(AdditiveShare<F>, AdditiveShare<F>)>| {
            let op = op.clone();
            async move {
                let c = ctx.set_total_records(cnt);
                let outs: Vec<AdditiveShare<F>> = seq_join(
                    c.active_work(),
                    stream_iter(shares.into_iter().zip(repeat((c.clone(), op))).enumerate().map(|(i, ((x, y), (c, op)))| async move {
                        let rid = RecordId::from(i);
                        match op.as_str() {
                            "mul" => x.multiply(&y, c, rid).await,
                            "orf" => or(c, rid, &x, &y).await,
                            "reshare" => x.reshare(c, rid, [Role::H1, Role::H2, Role::H3][arg - 1]).await,
                            "known" => Ok(AdditiveShare::<F>::share_known_value(&c, F::truncate_from(arg as u128))),
                            o => panic!("harness: unknown field op {o}"),
                        }
                    })),
                )
                .try_collect()
                .await
                .unwrap();
                outs
            }
        })
        .await
    });
    let res = match res {
        Ok(r) => r,
        Err(e) => return e,
    };
    let mut vals = vec![];
    let mut ok = res[0].len() == cnt && res[1].len() == cnt && res[2].len() == cnt;
    for i in 0..res[0].len() {
        let (v, c) = recon::<F, 1>([&res[0][i], &res[1][i], &res[2][i]]);
        vals.push(v.into_iter().next().unwrap().as_u128());
        ok &= c;
    }
    format!("{} {}", nat_list(&vals), flag(ok))
}

fn field_dispatch(req: &str, field: &str, op: &str, arg: usize, xs: &[u128], ys: &[u128]) -> String {
    match field {
        "Fp31" => field_ops::<Fp31>(req, op, arg, xs, ys),
        "Fp32BitPrime" => field_ops::<Fp32BitPrime>(req, op, arg, xs, ys),
        "Fp61BitPrime" => field_ops::<Fp61BitPrime>(req, op, arg, xs, ys),
        "Boolean" => field_ops::<Boolean>(req, op, arg, xs, ys),
        "Gf2" => field_ops::<Gf2>(req, op, arg, xs, ys),
        "Gf3Bit" => field_ops::<Gf3Bit>(req, op, arg, xs, ys),
        "Gf8Bit" => field_ops::<Gf8Bit>(req, op, arg, xs, ys),
        "Gf9Bit" => field_ops::<Gf9Bit>(req, op, arg, xs, ys),
        "Gf20Bit" => field_ops::<Gf20Bit>(req, op, arg, xs, ys),
        "Gf32Bit" => field_ops::<Gf32Bit>(req, op, arg, xs, ys),
        "Gf40Bit" => field_ops::<Gf40Bit>(req, op, arg, xs, ys),
        f => panic!("harness: unknown field {f}"),
    }
}

// ---------------------------------------------------------------- aggregation (B columns)
macro_rules! agg_fn {
    ($fname:ident, $method:ident, $B:literal, $OV:ty) => {
        fn $fname(req: &str, tv: usize, rows: &[Vec<u128>]) -> String {
            const B: usize = $B;
            let inputs: Vec<BitDecomposed<[Boolean; B]>> = rows.iter().map(|r| lanes::<B>(tv, r)).collect();
            let used = rows.first().map_or(B, |r| r.len().min(B));
            let res = block_on_timeout(RUN_TIMEOUT_S + 5, async {
                let w = world(req);
                w.$method(inputs.into_iter(), |ctx, rows: Vec<BitDecomposed<AdditiveShare<Boolean, B>>>| async move {
                    let v = ctx.dzkp_validator(TEST_DZKP_STEPS, usize::MAX);
                    let c = v.context();
                    let n = rows.len();
                    let out = aggregate_values::<_, $OV, B>(c, stream_iter(rows.into_iter().map(Ok)).boxed(), n, None).await.unwrap();
                    v.validate().await.unwrap();
                    out
                })
                .await
            });
            let res = match res {
                Ok(r) => r,
                Err(e) => return e,
            };
            let (vals, ok) = recon_bits::<B>(&res);
            format!("{} {} {}", res[0].len(), nat_list(&vals[..used]), flag(ok))
        }
    };
}
agg_fn!(agg_sh_8_8, semi_honest, 8, BA8);
agg_fn!(agg_sh_16_8, semi_honest, 16, BA8);
agg_fn!(agg_sh_32_16, semi_honest, 32, BA16);
agg_fn!(agg_sh_256_32, semi_honest, 256, BA32);
agg_fn!(agg_sh_32_3, semi_honest, 32, BA3);
agg_fn!(agg_sh_32_5, semi_honest, 32, BA5);
agg_fn!(agg_mal_16_8, malicious, 16, BA8);
agg_fn!(agg_mal_32_16, malicious, 32, BA16);
agg_fn!(agg_mal_256_32, malicious, 256, BA32);
agg_fn!(agg_mal_32_3, malicious, 32, BA3);
agg_fn!(agg_mal_32_5, malicious, 32, BA5);

fn agg_dispatch(req: &str, mode: &str, b: usize, w: usize, tv: usize, rows: &[Vec<u128>]) -> String {
    match (mode, b, w) {
        ("sh", 8, 8) => agg_sh_8_8(req, tv, rows),
        ("sh", 16, 8) => agg_sh_16_8(req, tv, rows),
        ("sh", 32, 16) => agg_sh_32_16(req, tv, rows),
        ("sh", 256, 32) => agg_sh_256_32(req, tv, rows),
        ("sh", 32, 3) => agg_sh_32_3(req, tv, rows),
        ("sh", 32, 5) => agg_sh_32_5(req, tv, rows),
        ("mal", 16, 8) => agg_mal_16_8(req, tv, rows),
        ("mal", 32, 16) => agg_mal_32_16(req, tv, rows),
        ("mal", 256, 32) => agg_mal_256_32(req, tv, rows),
        ("mal", 32, 3) => agg_mal_32_3(req, tv, rows),
        ("mal", 32, 5) => agg_mal_32_5(req, tv, rows),
        _ => panic!("harness: no aggregate_values instantiation for mode {mode} B={b} OV=BA{w}"),
    }
}


// ---------------------------------------------------------------- cross-shard histogram merge (protocol/basics/shard_fin.rs)
// `ctx.finalize(steps, Histogram)` on S shards: every shard sends its histogram to the leader, which folds them with
// `Histogram::merge` (= `integer_sat_add` per bucket). Inputs are dealt round-robin: item j goes to shard j % S.
macro_rules! merge_fn {
    ($fname:ident, $S:literal) => {
        fn $fname(req: &str, rows: &[Vec<u128>]) -> String {
            const S: usize = $S;
            let input: Vec<BA8> =
                (0..16 * S).map(|j| BA8::truncate_from(rows[j % S].get(j / S).copied().unwrap_or(0))).collect();
            let res = block_on_timeout(RUN_TIMEOUT_S + 5, async {
                let w: TestWorld<WithShards<S>> = TestWorld::with_shards(
                    TestWorldConfig::default().with_seed(seed_of(req)).with_timeout_secs(RUN_TIMEOUT_S),
                );
                let results = w
                    .semi_honest(input.into_iter(), |ctx, input: Vec<AdditiveShare<BA8>>| async move {
                        let h = Histogram::<BA8, 16>::new(&input).unwrap();
                        ctx.finalize(TEST_DZKP_STEPS, h).await.unwrap()
                    })
                    .await;
                let leader: Vec<BA8> = results[0].reconstruct();
                leader.iter().map(U128Conversions::as_u128).collect::<Vec<u128>>()
            });
            match res {
                Ok(v) => format!("8 {} ok", nat_list(&v)),
                Err(e) => e,
            }
        }
    };
}
merge_fn!(merge_sh_2, 2);
merge_fn!(merge_sh_3, 3);
merge_fn!(merge_sh_4, 4);

fn merge_dispatch(req: &str, mode: &str, s: usize, rows: &[Vec<u128>]) -> String {
    assert!(rows.len() == s, "harness: c07.merge needs one row per shard");
    match (mode, s) {
        ("sh", 2) => merge_sh_2(req, rows),
        ("sh", 3) => merge_sh_3(req, rows),
        ("sh", 4) => merge_sh_4(req, rows),
        _ => panic!("harness: no finalize instantiation for mode {mode} S={s}"),
    }
}


// ---------------------------------------------------------------- bit-to-field share conversion (256 lanes -> 16 x 16)
macro_rules! conv_fn {
    ($fname:ident, $method:ident, $chunk:expr) => {
        fn $fname(req: &str, bits: usize, xs: &[u128]) -> String {
            let used = xs.len().min(256);
            let xb = lanes::<256>(bits, xs);
            let res = block_on_timeout(RUN_TIMEOUT_S + 5, async {
                let w = world(req);
                w.$method(xb, |ctx, x: BitDecomposed<AdditiveShare<Boolean, 256>>| async move {
                    let c_ctx = ctx.set_total_records(1);
                    let validator = &c_ctx.dzkp_validator(TEST_DZKP_STEPS, $chunk);
                    let m_ctx = validator.context();
                    convert_to_fp25519::<_, 256, 16>(m_ctx, RecordId::FIRST, x).await.unwrap()
                })
                .await
            });
            let res = match res {
                Ok(r) => r,
                Err(e) => return e,
            };
            let mut vals: Vec<String> = vec![];
            let mut ok = res[0].len() == 16 && res[1].len() == 16 && res[2].len() == 16;
            for i in 0..res[0].len() {
                let (arr, c) = recon::<Fp25519, 16>([&res[0][i], &res[1][i], &res[2][i]]);
                ok &= c;
                for v in arr.into_iter() {
                    let mut buf = generic_array::GenericArray::<u8, <Fp25519 as Serializable>::Size>::default();
                    v.serialize(&mut buf);
                    // canonical little-endian bytes; inputs are < 2^127, so a correct result fits 16 bytes
                    let lo = u128::from_le_bytes(buf[..16].try_into().unwrap());
                    let hi = u128::from_le_bytes(buf[16..32].try_into().unwrap());
                    vals.push(if hi == 0 { lo.to_string() } else { format!("big{}", hex(&buf)) });
                }
            }
            format!("{} {}", vals[..used.min(vals.len())].join(","), flag(ok))
        }
    };
}
conv_fn!(conv_sh, semi_honest, crate::protocol::hybrid::oprf::conv_proof_chunk());
conv_fn!(conv_mal, malicious, 1);

// ---------------------------------------------------------------- eval_dy_prf (MAC-upgraded semi-honest / malicious contexts)
fn fp_of_hex(s: &str) -> Fp25519 {
    let b = unhex(s);
    assert_eq!(b.len(), 32, "harness: Fp25519 elements are 32 bytes");
    Fp25519::deserialize_infallible(generic_array::GenericArray::from_slice(&b))
}

fn fp_hex(x: Fp25519) -> String {
    let mut buf = generic_array::GenericArray::<u8, <Fp25519 as Serializable>::Size>::default();
    x.serialize(&mut buf);
    hex(&buf)
}

macro_rules! prf_fn {
    ($fname:ident, $method:ident, $n:expr) => {
        fn $fname(req: &str, k: Fp25519, xs: &[Fp25519]) -> String {
            use crate::protocol::{context::Validator, ipa_prf::prf_eval::eval_dy_prf};
            const N: usize = $n;
            let used = xs.len();
            // pad the last chunk with the first element (never a new zero of x + k unless one is already present)
            let mut padded = xs.to_vec();
            while padded.len() % N != 0 || padded.is_empty() {
                padded.push(xs.first().copied().unwrap_or(Fp25519::ONE));
            }
            let res = block_on_timeout(RUN_TIMEOUT_S + 5, async {
                let w = world(req);
                w.$method(
                    (padded.into_iter(), k),
                    |ctx, (x_shares, key): (Vec<AdditiveShare<Fp25519>>, AdditiveShare<Fp25519>)| async move {
                        let chunks: Vec<AdditiveShare<Fp25519, N>> = x_shares
                            .chunks(N)
                            .map(|c| {
                                let l: Vec<Fp25519> = c.iter().map(|s| s.left()).collect();
                                let r: Vec<Fp25519> = c.iter().map(|s| s.right()).collect();
                                AdditiveShare::<Fp25519, N>::new_arr(
                                    <Fp25519 as Vectorizable<N>>::Array::try_from(l).unwrap(),
                                    <Fp25519 as Vectorizable<N>>::Array::try_from(r).unwrap(),
                                )
                            })
                            .collect();
                        let ctx = ctx.set_total_records(chunks.len());
                        let validator = ctx.validator::<Fp25519>();
                        let ctx = validator.context();
                        let key = &key;
                        futures::future::try_join_all(
                            chunks
                                .into_iter()
                                .enumerate()
                                .map(|(i, x)| eval_dy_prf::<_, N>(ctx.clone(), RecordId::from(i), key, x)),
                        )
                        .await
                        .map(|v| v.into_iter().flatten().collect::<Vec<u64>>())
                        .map_err(|e| format!("{e:?}"))
                    },
                )
                .await
            });
            let res = match res {
                Ok(r) => r,
                Err(e) => return e,
            };
            let outs: Vec<Vec<u64>> = match res.into_iter().collect::<Result<Vec<_>, _>>() {
                Ok(o) => o,
                Err(e) => return format!("err:{}", e.split(['(', ' ', '{']).next().unwrap_or("")),
            };
            let agree = outs[0] == outs[1] && outs[1] == outs[2];
            // harness-side oracle parameters: the scalar (x + k)^-1 (checked by the driver against its own
            // arithmetic modulo l) and the external map scalar -> base-point multiple -> compressed -> HKDF -> u64
            let mut es = vec![];
            let mut hs = vec![];
            for &x in xs {
                let d = x + k;
                if d == Fp25519::ZERO {
                    es.push("zero".to_string());
                    hs.push("-".to_string());
                } else {
                    let e = d.invert();
                    es.push(fp_hex(e));
                    hs.push(u64::from(crate::ff::curve_points::RP25519::from(e)).to_string());
                }
            }
            format!(
                "{} {} {} {}",
                nat_list(&outs[0][..used.min(outs[0].len())]),
                if agree { "agree" } else { "disagree" },
                if es.is_empty() { "-".into() } else { es.join(",") },
                if hs.is_empty() { "-".into() } else { hs.join(",") }
            )
        }
    };
}
prf_fn!(prf_sh_1, semi_honest, 1);
prf_fn!(prf_sh_16, semi_honest, 16);
prf_fn!(prf_mal_1, malicious, 1);
prf_fn!(prf_mal_16, malicious, 16);

pub fn exec(req: &str) -> String {
    let t: Vec<&str> = req.split(' ').collect();
    let l = |s: &str| parse_nat_list::<u128>(s);
    let u = |s: &str| s.parse::<usize>().unwrap();
    match t[0] {
        "c07.mul" | "c07.orf" => field_dispatch(req, t[1], &t[0][4..], 0, &l(t[2]), &l(t[3])),
        "c07.known" => field_dispatch(req, t[1], "known", u(t[2]), &[0], &[0]),
        "c07.reshare" => field_dispatch(req, t[1], "reshare", u(t[2]), &l(t[3]), &[]),
        "c07.vmul" => vec_dispatch(req, "vmul", t[1], u(t[2]), 1, 1, &l(t[3]), &l(t[4])),
        "c07.add" | "c07.satadd" | "c07.gt" | "c07.mulint" | "c07.or" | "c07.and" => {
            vec_dispatch(req, &t[0][4..], t[1], u(t[2]), u(t[3]), u(t[4]), &l(t[5]), &l(t[6]))
        }
        "c07.sub" | "c07.geq" => match t[1] {
            "sh" => rec_sh(req, &t[0][4..], u(t[2]), u(t[3]), &l(t[4]), &l(t[5])),
            "mal" => rec_mal(req, &t[0][4..], u(t[2]), u(t[3]), &l(t[4]), &l(t[5])),
            m => panic!("harness: unknown mode {m}"),
        },
        "c07.satsub" => ba_dispatch(req, "satsub", t[1], u(t[2]), &[], &l(t[3]), &l(t[4])),
        "c07.select" => ba_dispatch(req, "select", t[1], u(t[2]), &l(t[3]), &l(t[4]), &l(t[5])),
        "c07.conv" => match t[1] {
            "sh" => conv_sh(req, u(t[2]), &l(t[3])),
            "mal" => conv_mal(req, u(t[2]), &l(t[3])),
            m => panic!("harness: unknown mode {m}"),
        },
        "c07.prf" => {
            let k = fp_of_hex(t[3]);
            let xs: Vec<Fp25519> = if t[4] == "-" { vec![] } else { t[4].split(',').map(fp_of_hex).collect() };
            match (t[1], t[2]) {
                ("sh", "1") => prf_sh_1(req, k, &xs),
                ("sh", "16") => prf_sh_16(req, k, &xs),
                ("mal", "1") => prf_mal_1(req, k, &xs),
                ("mal", "16") => prf_mal_16(req, k, &xs),
                _ => panic!("harness: no eval_dy_prf instantiation for {} N={}", t[1], t[2]),
            }
        }
        "c07.agg" => {
            let rows: Vec<Vec<u128>> = if t[5] == "-" { vec![] } else { t[5].split('/').map(l).collect() };
            agg_dispatch(req, t[1], u(t[2]), u(t[3]), u(t[4]), &rows)
        }
        "c07.merge" => {
            let rows: Vec<Vec<u128>> = t[3].split('/').map(l).collect();
            merge_dispatch(req, t[1], u(t[2]), &rows)
        }
        _ => panic!("harness: unknown request {req}"),
    }
}

// ---------------------------------------------------------------- generators
fn boundary_vals(bits: usize) -> Vec<u128> {
    if bits == 0 {
        return vec![0];
    }
    let max = if bits >= 128 { u128::MAX } else { (1u128 << bits) - 1 };
    let mut v = vec![0, 1, 2, max, max - 1, max / 2, max / 2 + 1];
    for k in 0..bits.min(127) {
        v.push(1u128 << k);
        v.push((1u128 << k) - 1);
        v.push(((1u128 << k) + 1) & max);
    }
    v.iter_mut().for_each(|x| *x &= max);
    v.sort_unstable();
    v.dedup();
    v
}

fn rand_bits(rng: &mut Rng, bits: usize) -> u128 {
    if bits == 0 {
        0
    } else if bits >= 128 {
        rng.next_u128()
    } else {
        rng.next_u128() & ((1u128 << bits) - 1)
    }
}

/// operand pairs for widths (n, m): boundary x boundary (thinned), equal, x = y ± 1, random; `cap` pairs.
fn pairs(rng: &mut Rng, n: usize, m: usize, cap: usize) -> (Vec<u128>, Vec<u128>) {
    let (bx, by) = (boundary_vals(n), boundary_vals(m));
    let mut ps: Vec<(u128, u128)> = vec![];
    let maxx = if n >= 128 { u128::MAX } else { (1u128 << n) - 1 };
    let maxy = if m >= 128 { u128::MAX } else { (1u128 << m) - 1 };
    for &x in &bx {
        for &y in &by {
            if x < 3 || y < 3 || x + 2 > maxx || y + 2 > maxy || x == y || (x ^ y) % 5 == 0 {
                ps.push((x, y));
            }
        }
    }
    for _ in 0..8 {
        let x = rand_bits(rng, n.min(m));
        ps.push((x, x));
        ps.push((x, x.wrapping_add(1) & maxy));
        ps.push((x.wrapping_add(1) & maxx, x));
        // saturation exactly at the limit: x + y = 2^n - 1 and 2^n
        let y = (maxx - x) & maxy;
        ps.push((x, y));
        ps.push((x, y.wrapping_add(1) & maxy));
    }
    rng.shuffle(&mut ps[..]);
    // keep the corners in front
    let mut front = vec![(0, 0), (maxx, maxy), (maxx, 0), (0, maxy), (maxx, 1 & maxy), (1 & maxx, maxy), (maxx & maxy, maxx & maxy)];
    front.extend(ps);
    front.truncate(cap.saturating_sub(cap / 4));
    while front.len() < cap {
        front.push((rand_bits(rng, n), rand_bits(rng, m)));
    }
    front.into_iter().unzip()
}

fn exhaustive(n: usize, m: usize) -> (Vec<u128>, Vec<u128>) {
    let mut xs = vec![];
    let mut ys = vec![];
    for x in 0..(1u128 << n) {
        for y in 0..(1u128 << m) {
            xs.push(x);
            ys.push(y);
        }
    }
    (xs, ys)
}

fn gen_small(_rng: &mut Rng, thorough: bool, out: &mut Vec<String>) {
    // exhaustive operand pairs for all (n, m) with n, m <= 4: 2^(n+m) <= 256 lanes in one run
    for mode in ["sh", "mal"] {
        for n in 0..=4usize {
            for m in 0..=4usize {
                let (xs, ys) = exhaustive(n, m);
                let (xl, yl) = (nat_list(&xs), nat_list(&ys));
                for op in ["add", "satadd", "gt", "mulint"] {
                    if op == "mulint" && m == 0 {
                        if n == 1 && mode == "sh" {
                            out.push(format!("c07.{op} {mode} 256 {n} {m} {xl} {yl}")); // documents the panic on empty y
                        }
                        continue;
                    }
                    out.push(format!("c07.{op} {mode} 256 {n} {m} {xl} {yl}"));
                }
                // N = 1 protocols: one record per pair
                if !(n == 0 && m == 0) || mode == "sh" {
                    for op in ["sub", "geq"] {
                        if thorough || (n + m) % 2 == 0 || n == m + 1 || n == 4 || m == 4 {
                            out.push(format!("c07.{op} {mode} {n} {m} {xl} {yl}"));
                        }
                    }
                }
                if n == m && n >= 1 {
                    out.push(format!("c07.or {mode} 256 {n} {m} {xl} {yl}"));
                    out.push(format!("c07.and {mode} 256 {n} {m} {xl} {yl}"));
                }
            }
        }
        // sat_sub / select on the sub-byte boolean arrays: all pairs of BA3, BA4; (cond, t, f) for BA3
        for w in [3usize, 5] {
            let (xs, ys) = exhaustive(w, w);
            out.push(format!("c07.satsub {mode} {w} {} {}", nat_list(&xs), nat_list(&ys)));
        }
        let (xs, ys) = exhaustive(3, 3);
        for c in [0u128, 1] {
            out.push(format!("c07.select {mode} 3 {} {} {}", nat_list(&vec![c; xs.len()]), nat_list(&xs), nat_list(&ys)));
        }
        out.push(format!("c07.vmul {mode} 256 0,0,1,1 0,1,0,1"));
        out.push(format!("c07.vmul {mode} 1 1 1"));
    }
    // unequal lengths panic in bool_or / bool_and_8_bit; more than 8 bits panic in bool_and_8_bit
    out.push("c07.or sh 8 3 2 1,2,3 1,2,3".into());
    out.push("c07.and sh 8 2 3 1,2,3 1,2,3".into());
    out.push("c07.and sh 8 9 9 1,2,3 1,2,3".into());
}

fn gen_wide(rng: &mut Rng, thorough: bool, out: &mut Vec<String>) {
    let reps = if thorough { 6 } else { 1 };
    for _ in 0..reps {
        for mode in ["sh", "mal"] {
            let widths: &[usize] = if mode == "sh" { &[1, 3, 8, 16, 32, 256] } else { &[1, 16, 32, 256] };
            // equal widths that exist as boolean arrays, then unequal both ways
            let shapes: &[(usize, usize)] = &[
                (8, 8), (16, 16), (32, 32), (64, 64), (5, 5), (7, 7), (20, 20), (112, 112), (127, 127),
                (8, 3), (3, 8), (16, 5), (5, 16), (32, 8), (8, 32), (64, 32), (32, 64), (1, 9), (9, 1), (0, 7), (7, 0), (40, 33),
            ];
            for (k, &(n, m)) in shapes.iter().enumerate() {
                let w = widths[k % widths.len()];
                let big = if w == 256 { 256 } else { w };
                let (xs, ys) = pairs(rng, n, m, big);
                let (xl, yl) = (nat_list(&xs), nat_list(&ys));
                for op in ["add", "satadd", "gt"] {
                    out.push(format!("c07.{op} {mode} {w} {n} {m} {xl} {yl}"));
                }
                // the unvectorised protocols: a handful of records
                let cnt = if thorough { 64 } else { 32 }; // the DZKP batch size must be a power of two
                let (xs, ys) = pairs(rng, n, m, cnt);
                let (xl, yl) = (nat_list(&xs), nat_list(&ys));
                out.push(format!("c07.sub {mode} {n} {m} {xl} {yl}"));
                out.push(format!("c07.geq {mode} {n} {m} {xl} {yl}"));
                if n + m <= 48 && m >= 1 {
                    let (xs, ys) = pairs(rng, n, m, big.min(64));
                    out.push(format!("c07.mulint {mode} {w} {n} {m} {} {}", nat_list(&xs), nat_list(&ys)));
                }
                if n == m && n <= 64 {
                    let (xs, ys) = pairs(rng, n, m, big.min(64));
                    out.push(format!("c07.or {mode} {w} {n} {m} {} {}", nat_list(&xs), nat_list(&ys)));
                    if n <= 8 {
                        out.push(format!("c07.and {mode} {w} {n} {m} {} {}", nat_list(&xs), nat_list(&ys)));
                    }
                }
            }
            for w in [3usize, 5, 8, 16, 20, 32, 64] {
                let cnt = if thorough { 128 } else { 32 };
                let (xs, ys) = pairs(rng, w, w, cnt);
                out.push(format!("c07.satsub {mode} {w} {} {}", nat_list(&xs), nat_list(&ys)));
                let cs: Vec<u128> = (0..cnt).map(|i| if i < 4 { (i % 2) as u128 } else { u128::from(rng.bool()) }).collect();
                out.push(format!("c07.select {mode} {w} {} {} {}", nat_list(&cs), nat_list(&xs), nat_list(&ys)));
            }
        }
    }
}

const FIELDS: &[(&str, u32, u128)] = &[
    // name, bits, modulus (0 for binary fields)
    ("Fp31", 5, 31),
    ("Fp32BitPrime", 32, 4_294_967_291),
    ("Fp61BitPrime", 61, 2_305_843_009_213_693_951),
    ("Boolean", 1, 0),
    ("Gf2", 1, 0),
    ("Gf3Bit", 3, 0),
    ("Gf8Bit", 8, 0),
    ("Gf9Bit", 9, 0),
    ("Gf20Bit", 20, 0),
    ("Gf32Bit", 32, 0),
    ("Gf40Bit", 40, 0),
];

fn gen_fields(rng: &mut Rng, thorough: bool, out: &mut Vec<String>) {
    for &(f, bits, p) in FIELDS {
        let card: u128 = if p != 0 { p } else { 1u128 << bits };
        let (xs, ys): (Vec<u128>, Vec<u128>) = if card <= 32 {
            let mut xs = vec![];
            let mut ys = vec![];
            for a in 0..card {
                for b in 0..card {
                    xs.push(a);
                    ys.push(b);
                }
            }
            (xs, ys)
        } else {
            let mut b: Vec<u128> = vec![0, 1, 2, card - 1, card - 2, card / 2, card / 2 + 1];
            for k in 0..bits {
                b.push((1u128 << k) % card);
                b.push(((1u128 << k) + 1) % card);
            }
            b.sort_unstable();
            b.dedup();
            let mut ps = vec![];
            for &x in &b {
                for &y in &b {
                    if x < 3 || y < 3 || x + 3 > card || y + 3 > card || (x ^ y) % 3 == 0 {
                        ps.push((x, y));
                    }
                }
            }
            rng.shuffle(&mut ps[..]);
            ps.truncate(if thorough { 600 } else { 120 });
            for _ in 0..(if thorough { 400 } else { 80 }) {
                ps.push((rng.next_u128() % card, rng.next_u128() % card));
            }
            ps.into_iter().unzip()
        };
        out.push(format!("c07.mul {f} {} {}", nat_list(&xs), nat_list(&ys)));
        out.push(format!("c07.orf {f} 0,0,1,1 0,1,0,1"));
        for v in [0u128, 1, card - 1] {
            out.push(format!("c07.known {f} {v}"));
        }
        for to in 1..=3 {
            let vs: Vec<u128> = (0..8).map(|i| if i < 3 { [0, 1, card - 1][i] } else { rng.next_u128() % card }).collect();
            out.push(format!("c07.reshare {f} {to} {}", nat_list(&vs)));
        }
    }
}

fn gen_agg(rng: &mut Rng, thorough: bool, out: &mut Vec<String>) {
    // (mode, B, OV bits): instantiations compiled above
    let insts: &[(&str, usize, usize)] = &[
        ("sh", 8, 8), ("sh", 16, 8), ("sh", 32, 16), ("sh", 256, 32), ("sh", 32, 3), ("sh", 32, 5),
        ("mal", 16, 8), ("mal", 32, 16), ("mal", 256, 32), ("mal", 32, 3), ("mal", 32, 5),
    ];
    for &(mode, b, w) in insts {
        let mut shapes: Vec<(usize, usize)> = vec![]; // (rows, tv)
        for rows in [0usize, 1, 2, 3, 4, 5, 7, 8, 9, 16, 17, 31] {
            for tv in [1usize, 2, 3, w.saturating_sub(1).max(1), w] {
                if tv <= w {
                    shapes.push((rows, tv));
                }
            }
        }
        shapes.sort_unstable();
        shapes.dedup();
        if !thorough {
            // thin: keep every shape for the small output types, a third for the others
            let keep_all = w <= 5;
            let mut k = 0;
            shapes.retain(|_| {
                k += 1;
                keep_all && k % 2 == 0 || k % 4 == 0
            });
        }
        for (rows, tv) in shapes {
            let maxv = (1u128 << tv) - 1;
            let data: Vec<Vec<u128>> = (0..rows)
                .map(|r| {
                    (0..b.min(16))
                        .map(|c| match c {
                            0 => 0,
                            1 => maxv,                                  // saturates quickly
                            2 => u128::from(r == 0),                     // a single one
                            3 => if r % 2 == 0 { maxv } else { 0 },
                            4 => 1,                                      // counts rows
                            5 => if r + 1 == rows { maxv } else { 0 },   // only the odd pass-through row
                            _ => rand_bits(rng, tv),
                        })
                        .collect()
                })
                .collect();
            let enc = if data.is_empty() { "-".to_string() } else { data.iter().map(|r| nat_list(r)).collect::<Vec<_>>().join("/") };
            out.push(format!("c07.agg {mode} {b} {w} {tv} {enc}"));
        }
    }
    gen_agg_carry(rng, thorough, out);
    gen_merge(rng, thorough, out);
}

/// Cross-shard merge of per-shard histograms (8-bit buckets): every per-shard value fits, the sums sit below, at and above
/// the saturation point (seed C07h: the merge wrapped instead of saturating).
fn gen_merge(rng: &mut Rng, thorough: bool, out: &mut Vec<String>) {
    let shard_counts: &[usize] = if thorough { &[2, 3, 4] } else { &[2, 3] };
    for &s in shard_counts {
        let reps = if thorough { 6 } else { 2 };
        for rep in 0..reps {
            let data: Vec<Vec<u128>> = (0..s)
                .map(|i| {
                    (0..16usize)
                        .map(|k| match k {
                            0 => 0,
                            1 => 255,                                        // every shard at the maximum
                            2 => if i == 0 { 255 } else { 0 },               // exactly the maximum, no overflow
                            3 => if i == 0 { 255 } else { 1 },               // one above
                            4 => if i == 0 { 250 } else if i == 1 { 5 } else { 0 },   // sum = 255
                            5 => if i == 0 { 250 } else if i == 1 { 5 } else { 1 },   // sum = 256 (S > 2)
                            6 => if i == 0 { 200 } else if i == 1 { 100 } else { 3 }, // wraps to a small value if not saturating
                            7 => 128,                                        // top bit in every shard
                            8 => if i + 1 == s { 255 } else { 1 },           // overflow only at the last merge
                            9 => 255 / (s as u128),                          // just below / at the limit
                            10 => 255 / (s as u128) + 1,                     // just above
                            11 => u128::from(i == rep % s),                  // a single one
                            _ => rand_bits(rng, 8),
                        })
                        .collect()
                })
                .collect();
            let enc = data.iter().map(|r| nat_list(r)).collect::<Vec<_>>().join("/");
            out.push(format!("c07.merge sh {s} {enc}"));
        }
    }
}

/// The carry-keeping phase of the tree (`a.len() < OV::BITS`: `integer_add` + `sum.push(carry)`) with an
/// odd tail row that is passed through several levels before it meets a (much wider) partial sum:
/// input widths 4..8 bits well below the output width (BA16 / BA32), row counts 2^k - 1, 2^k, 2^k + 1
/// for k = 1..5, columns at / next to the maximum so that every addition carries out
/// (e.g. nine 4-bit rows of 15 -> 135: the tail row is added at depth 3 to a 7-bit sum of 120).
fn gen_agg_carry(rng: &mut Rng, thorough: bool, out: &mut Vec<String>) {
    for &(mode, b, w) in &[("sh", 32usize, 16usize), ("sh", 256, 32), ("mal", 32, 16), ("mal", 256, 32)] {
        for tv in [4usize, 5, 7, 8] {
            for k in 1..=6u32 {
                for rows in [(1usize << k) - 1, 1 << k, (1 << k) + 1] {
                    // quick: the proof-carrying mode for the small counts and every 2^k + 1 up to 33;
                    // 63..65 rows (tail passed through six levels) for the wide values only
                    if !thorough && (mode == "mal" && rows > 9 && (rows != (1 << k) + 1 || k == 6) || k == 6 && (tv < 7 || rows != 65)) {
                        continue;
                    }
                    let maxv = (1u128 << tv) - 1;
                    let zero_at = rng.usize_below(rows);
                    let data: Vec<Vec<u128>> = (0..rows)
                        .map(|r| {
                            (0..12)
                                .map(|c| match c {
                                    0 => maxv,                                        // all rows at the maximum
                                    1 => if r == zero_at { 0 } else { maxv },         // maximum with one zero
                                    2 => if r % 2 == 0 { maxv } else { 1 },           // alternating max / 1
                                    3 => if r % 2 == 0 { 1 } else { maxv },
                                    4 => if r + 1 == rows { maxv } else { maxv - 1 }, // tail row differs from the rest
                                    5 => if r + 1 == rows { 1 } else { maxv },        // tail row just enough to carry
                                    6 => if r + 1 == rows { 0 } else { maxv },        // tail row adds nothing
                                    7 => if r == 0 { 0 } else { maxv },
                                    8 => 1u128 << (tv - 1),                           // only the top bit: carries at every level
                                    _ => rand_bits(rng, tv),
                                })
                                .collect()
                        })
                        .collect();
                    let enc = data.iter().map(|r| nat_list(r)).collect::<Vec<_>>().join("/");
                    out.push(format!("c07.agg {mode} {b} {w} {tv} {enc}"));
                }
            }
        }
    }
}

#[test]
fn verif_c07_small() {
    run_suite("c07_small", |rng, th| { let mut o = vec![]; gen_small(rng, th, &mut o); o }, exec);
}

#[test]
fn verif_c07_wide() {
    run_suite("c07_wide", |rng, th| { let mut o = vec![]; gen_wide(rng, th, &mut o); o }, exec);
}

#[test]
fn verif_c07_fields() {
    run_suite("c07_fields", |rng, th| { let mut o = vec![]; gen_fields(rng, th, &mut o); o }, exec);
}

#[test]
fn verif_c07_agg() {
    run_suite("c07_agg", |rng, th| { let mut o = vec![]; gen_agg(rng, th, &mut o); o }, exec);
}

fn gen_conv(rng: &mut Rng, thorough: bool, out: &mut Vec<String>) {
    // (bits, mode): the production width is 64; 127 is the largest width the debug_assert admits
    let mut shapes: Vec<(usize, &str)> = vec![(64, "sh"), (64, "mal"), (127, "sh"), (1, "sh"), (8, "mal")];
    if thorough {
        shapes.extend([(127, "mal"), (32, "sh"), (100, "mal"), (0, "sh")]);
    }
    for (bits, mode) in shapes {
        let mut xs = boundary_vals(bits);
        xs.truncate(200);
        while xs.len() < 256 {
            xs.push(rand_bits(rng, bits));
        }
        out.push(format!("c07.conv {mode} {bits} {}", nat_list(&xs)));
    }
}

#[test]
fn verif_c07_conv() {
    run_suite("c07_conv", |rng, th| { let mut o = vec![]; gen_conv(rng, th, &mut o); o }, exec);
}

/// group order l of Ristretto / modulus of Fp25519, little-endian bytes
const ELL_LE: [u8; 32] = [
    0xed, 0xd3, 0xf5, 0x5c, 0x1a, 0x63, 0x12, 0x58, 0xd6, 0x9c, 0xf7, 0xa2, 0xde, 0xf9, 0xde, 0x14, 0, 0, 0, 0, 0, 0, 0, 0, 0, 0, 0, 0, 0, 0, 0,
    0x10,
];

fn gen_prf(rng: &mut Rng, thorough: bool, out: &mut Vec<String>) {
    use std::ops::Neg;
    let small = |v: u128| Fp25519::from(v as u64) + Fp25519::from((v >> 64) as u64) * Fp25519::from(u64::MAX) + Fp25519::from((v >> 64) as u64);
    let rand_fp = |rng: &mut Rng| {
        let b = rng.bytes(32);
        Fp25519::deserialize_infallible(generic_array::GenericArray::from_slice(&b))
    };
    let minus_one = Fp25519::ONE.neg();
    let ks: Vec<Fp25519> = vec![Fp25519::from(3_216_412_445u64), Fp25519::ONE, minus_one, rand_fp(rng), rand_fp(rng)];
    let reps = if thorough { 6 } else { 1 };
    for rep in 0..reps {
        for (ki, &k) in ks.iter().enumerate() {
            for (mode, n) in [("sh", 1usize), ("mal", 1), ("sh", 16), ("mal", 16)] {
                if !thorough && ki >= 3 && n == 1 {
                    continue;
                }
                // boundary match keys: 0, 1, 2, l-1, l-2, 2^64-1, 2^64, duplicates, -k ± 1, 1/… ; then random 64-bit and full-range values
                let mut xs: Vec<Fp25519> = vec![
                    Fp25519::ZERO, Fp25519::ONE, Fp25519::from(2u64), minus_one, minus_one - Fp25519::ONE,
                    Fp25519::from(u64::MAX), small(1u128 << 64), Fp25519::from(3u64), Fp25519::from(3u64),
                    k.neg() + Fp25519::ONE, k.neg() - Fp25519::ONE, k, Fp25519::ONE - k,
                ];
                xs.retain(|&x| x + k != Fp25519::ZERO);
                let total = if n == 16 { 32 } else { 18 };
                while xs.len() < total {
                    let x = match rng.below(4) {
                        0 => rand_fp(rng),
                        1 => *rng.pick(&xs), // repeated match key
                        _ => Fp25519::from(rng.next_u64()),
                    };
                    if x + k != Fp25519::ZERO {
                        xs.push(x);
                    }
                }
                if rep > 0 {
                    rng.shuffle(&mut xs[..]);
                }
                let xl: Vec<String> = xs.iter().map(|&x| fp_hex(x)).collect();
                out.push(format!("c07.prf {mode} {n} {} {}", fp_hex(k), xl.join(",")));
            }
        }
    }
    // x + k = 0: outside the hypothesis of `prf_value`; `Scalar::batch_invert` trips its debug assertion
    // (release builds return 0 for EVERY lane of the chunk). Position first / middle / last of a chunk.
    let k = ks[0];
    for (mode, n, pos) in [("sh", 1usize, 0usize), ("sh", 16, 0), ("mal", 16, 7), ("sh", 16, 15)] {
        let mut xs: Vec<Fp25519> = (0..n).map(|i| Fp25519::from(100 + i as u64)).collect();
        xs[pos] = k.neg();
        let xl: Vec<String> = xs.iter().map(|&x| fp_hex(x)).collect();
        out.push(format!("c07.prf {mode} {n} {} {}", fp_hex(k), xl.join(",")));
    }
    let _ = ELL_LE;
}

#[test]
fn verif_c07_prf() {
    run_suite("c07_prf", |rng, th| { let mut o = vec![]; gen_prf(rng, th, &mut o); o }, exec);
}
