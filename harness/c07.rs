// Correspondence suites for property C07. Each suite is a #[test] fn named verif_c07_<suite>.
