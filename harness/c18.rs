// Correspondence suites for property C18. Each suite is a #[test] fn named verif_c18_<suite>.
