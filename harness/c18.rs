// Correspondence suites for property C18 live in harness/hooks/query.rs (they need the private
// `processor`/`state` modules of `crate::query`): verif_c18_tables, verif_c18_histories.
