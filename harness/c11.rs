// Correspondence suites for property C11. Each suite is a #[test] fn named verif_c11_<suite>.
