// Correspondence suites for property C11 (duplicate report detection).
//   verif_c11_pure (here): UniqueTag::shard_picker, UniqueTagValidator sequences / batches
//   verif_c11_path (harness/hooks/runner.rs): the real reshard_aad + validator under TestWorld with shards
//
// Request grammar
//   c11.pick <tag: 32 hex digits = the 16 tag bytes> <n>     -> shard index | panic:…
//   c11.seq <t,t,…>     one check_duplicate call per tag (decimal u128) -> ok|dup:<counter> per call
//   c11.batch <t,t,…>   one check_duplicates call                        -> ok | dup:<counter>
use super::proto::*;
use crate::{
    error::Error,
    report::hybrid::{UniqueBytes, UniqueTag, UniqueTagValidator},
    sharding::ShardIndex,
};

pub struct RawTag(pub [u8; 16]);

impl UniqueBytes for RawTag {
    fn unique_bytes(&self) -> [u8; 16] {
        self.0
    }
}

pub fn tag_of(v: u128) -> UniqueTag {
    UniqueTag::from_unique_bytes(&RawTag(v.to_le_bytes()))
}

fn verdict(r: Result<(), Error>) -> String {
    match r {
        Ok(()) => "ok".into(),
        Err(Error::DuplicateBytes(k)) => format!("dup:{k}"),
        Err(e) => format!("err:{}", canon(&format!("{e:?}"))),
    }
}

pub fn exec(req: &str) -> String {
    let t: Vec<&str> = req.split(' ').collect();
    match t[0] {
        "c11.pick" => {
            let b = unhex(t[1]);
            let mut a = [0u8; 16];
            a.copy_from_slice(&b);
            let n: u32 = t[2].parse().unwrap();
            let tag = UniqueTag::from_unique_bytes(&RawTag(a));
            u32::from(tag.shard_picker(ShardIndex::from(n))).to_string()
        }
        "c11.seq" => {
            let tags = parse_nat_list::<u128>(t[1]);
            let mut v = UniqueTagValidator::new(tags.len());
            tags.iter().map(|x| verdict(v.check_duplicate(&tag_of(*x)))).collect::<Vec<_>>().join(",")
        }
        "c11.batch" => {
            let tags: Vec<UniqueTag> = parse_nat_list::<u128>(t[1]).into_iter().map(tag_of).collect();
            let mut v = UniqueTagValidator::new(tags.len());
            verdict(v.check_duplicates(&tags))
        }
        _ => panic!("harness: unknown request {req}"),
    }
}

pub fn boundary_tags() -> Vec<u128> {
    let mut v = vec![0u128, 1, 2, 3, 4, 5, 6, 59, 60, 61, u128::MAX, u128::MAX - 1, u128::MAX - 4];
    for j in [7u32, 8, 31, 32, 33, 63, 64, 65, 96, 127] {
        for d in [-1i128, 0, 1] {
            v.push(((1u128 << j) as i128).wrapping_add(d) as u128);
        }
    }
    v.sort_unstable();
    v.dedup();
    v
}

pub fn generate(rng: &mut Rng, thorough: bool) -> Vec<String> {
    let mut v = Vec::new();
    let mut tags = boundary_tags();
    for _ in 0..(if thorough { 400 } else { 40 }) {
        tags.push(rng.next_u128());
    }
    for t in &tags {
        for n in [1u32, 2, 3, 4, 5, 7, 255, 256, 65537, u32::MAX - 1, u32::MAX] {
            v.push(format!("c11.pick {} {n}", hex(&t.to_le_bytes())));
        }
    }
    v.push(format!("c11.pick {} 0", hex(&5u128.to_le_bytes())));
    // validator sequences: empty, single, immediate repeat, repeat at the end, many repeats, all equal
    let seqs: Vec<Vec<u128>> = vec![
        vec![], vec![0], vec![0, 0], vec![1, 2, 3, 1], vec![1, 2, 3, 3], vec![u128::MAX, 0, u128::MAX],
        vec![5; 6], vec![1, 2, 1, 2, 3, 3], (0..40).collect(), (0..40).chain(std::iter::once(17)).collect(),
        vec![1 << 64, 1, (1 << 64) + 1, 1 << 64],
    ];
    for s in &seqs {
        v.push(format!("c11.seq {}", nat_list(s)));
        v.push(format!("c11.batch {}", nat_list(s)));
    }
    // more tags than any bounded batch / set size: 5000 tags, one repeated (first & 4097th; adjacent
    // across 4096; both beyond 4096; none)
    for (i, j) in [(0usize, 4096usize), (4095, 4096), (4097, 4999), (5000, 5000)] {
        let s: Vec<u128> = (0..5000usize).map(|k| if k == j { i as u128 } else { k as u128 } * 0x1_0000_0001 + 7).collect();
        v.push(format!("c11.batch {}", nat_list(&s)));
        if i == 4097 {
            v.push(format!("c11.seq {}", nat_list(&s)));
        }
    }
    for _ in 0..(if thorough { 2000 } else { 200 }) {
        let len = rng.usize_below(30);
        let dom = 1 + rng.below(40) as u128;
        let wide = rng.bool();
        let s: Vec<u128> = (0..len).map(|_| if wide && rng.below(3) == 0 { rng.next_u128() } else { u128::from(rng.below(dom as u64)) << (if wide { 64 } else { 0 }) }).collect();
        v.push(format!("c11.seq {}", nat_list(&s)));
        v.push(format!("c11.batch {}", nat_list(&s)));
    }
    v
}

#[test]
fn verif_c11_pure() {
    run_suite("c11_pure", generate, exec);
}
