// Root of the verification harness. This file is `include!`d into `ipa-core/src/lib.rs` as
// `crate::ipa_verif` when the crate is built for tests with `--features ipa-verif` and
// IPA_VERIF_DIR pointing at this directory. Nothing here is compiled otherwise.

macro_rules! verif_mod {
    ($name:ident, $file:literal) => {
        pub mod $name {
            include!(concat!(env!("IPA_VERIF_DIR"), "/", $file));
        }
    };
}

verif_mod!(proto, "proto.rs");
verif_mod!(c01, "c01.rs");
verif_mod!(c02, "c02.rs");
verif_mod!(c03, "c03.rs");
verif_mod!(c04, "c04.rs");
verif_mod!(c05, "c05.rs");
verif_mod!(c06, "c06.rs");
verif_mod!(c07, "c07.rs");
verif_mod!(c08, "c08.rs");
verif_mod!(c09, "c09.rs");
verif_mod!(c10, "c10.rs");
verif_mod!(c11, "c11.rs");
verif_mod!(c12, "c12.rs");
verif_mod!(c13, "c13.rs");
verif_mod!(c14, "c14.rs");
verif_mod!(c15, "c15.rs");
verif_mod!(c16, "c16.rs");
verif_mod!(c17, "c17.rs");
verif_mod!(c18, "c18.rs");
verif_mod!(c19, "c19.rs");
verif_mod!(c20, "c20.rs");
