// Correspondence suites for property C12 (privacy noise and dummy records follow the documented (ε, δ) law).
// Each suite is a #[test] fn named verif_c12_<suite>.
//
// Floats travel as IEEE-754 bit patterns (decimal u64).  `r = E.powf(-ε)` and `p = 1 − E.powf(−1/s)` come from
// libm and are external to the model: the generator computes them on this machine and puts them in the request.
//
//   c12.oprf <eps> <delta> <sens> <r> <p>          OPRFPaddingDp::new -> ok <shift> | err <Variant>
//   c12.tdg <s> <shift> <p>                        TruncatedDoubleGeometric::new -> ok <shift_doubled> | err <Variant>
//   c12.dg <s> <shift> <p>                         DoubleGeometric::new -> ok | err <Variant>
//   c12.geo <p>                                    Geometric::new -> ok | err <Variant>
//   c12.noise <eps> <delta> <succ> <dims> <qs> <l1> <l2> <linf>    NoiseParams::new -> ok | err <message>
//   c12.maxeps                                     -> bits of MAX_EPSILON
//   c12.sample geo|dg|tdg <s> <p> <p_int> <shift> <u64,…>   real sampler on a scripted RNG -> <sample> <consumed>
//        (p = 1 − E.powf(−1/s) and p_int = (p·2^64) as u64 are computed by the generator: libm / rand internals)
//   c12.shares <eps> <delta> <cap> <r> <p> <p_int> <bit_size> <ov_bits> <L|R> <u64,…>
//                                                  -> <shift> <sample> <left> <right> <consumed>
//   c12.e2e <sh|mal> <B> <w> <ss_bits> <seed> <eps> <delta> <r> <p> <p_int> <hist> <s1> <s2> <s3>
//        real dp_for_histogram::<_, B, BA<w>, ss_bits>(DiscreteLaplace{eps}) under TestWorld(seed) on the histogram <hist>;
//        s_i = the u64 stream the pair of helpers excluding helper i draws from its shared sequential PRSS at the
//        gate of LaplacePass<i> (obtained by the GENERATOR from a second TestWorld with the same seed — a sequential
//        PRSS can be opened only once per gate, so the run itself cannot be instrumented)
//        -> <noisy histogram> <ok|inconsistent>
//   c12.pad oprf <sh|mal> <seed> <eps> <delta> <sens> <cap> <r> <p> <p_int> <s1> <s2> <s3>
//   c12.pad agg <sh|mal> <seed> <B> <bk_bits> <eps> <delta> <sens> <r> <p> <p_int> <s1> <s2> <s3>
//        real apply_dp_padding (three passes) on an empty input; s_i = stream of the generating pair of pass i
//        -> <rows mk.bk.v.zmask,…> <ok|inconsistent> <lens-equal|lens-differ>
//        (reconstructed fields; zmask = bit h set iff ALL shares of the row held by helper h+1 are zero)
use std::f64::consts::E;

use rand::distributions::Distribution;

use super::proto::*;
use crate::protocol::{
    dp::NoiseParams,
    ipa_prf::oprf_padding::{
        distributions::{DoubleGeometric, Geometric, TruncatedDoubleGeometric},
        insecure::OPRFPaddingDp,
    },
};

/// A scripted `RngCore`: returns the given `u64` values in order; panics when exhausted.
pub struct ScriptRng {
    pub script: Vec<u64>,
    pub pos: usize,
}

impl rand_core::RngCore for ScriptRng {
    fn next_u32(&mut self) -> u32 {
        (self.next_u64() >> 32) as u32
    }
    fn next_u64(&mut self) -> u64 {
        let v = *self.script.get(self.pos).unwrap_or_else(|| panic!("script exhausted"));
        self.pos += 1;
        v
    }
    fn fill_bytes(&mut self, dest: &mut [u8]) {
        for chunk in dest.chunks_mut(8) {
            let b = self.next_u64().to_le_bytes();
            chunk.copy_from_slice(&b[..chunk.len()]);
        }
    }
    fn try_fill_bytes(&mut self, dest: &mut [u8]) -> Result<(), rand_core::Error> {
        self.fill_bytes(dest);
        Ok(())
    }
}
impl rand_core::CryptoRng for ScriptRng {}

fn f(s: &str) -> f64 {
    f64::from_bits(s.parse::<u64>().unwrap())
}

fn b(x: f64) -> u64 {
    x.to_bits()
}

fn err_name<E: std::fmt::Debug>(e: &E) -> String {
    let d = format!("{e:?}");
    d.split('(').next().unwrap().to_string()
}

/// Run `f` on another thread; `None` if it does not finish within `secs` (the thread is left behind).
pub fn with_deadline<T: Send + 'static>(secs: u64, f: impl FnOnce() -> T + Send + 'static) -> Option<T> {
    let (tx, rx) = std::sync::mpsc::channel();
    std::thread::spawn(move || {
        let r = guarded(f);
        let _ = tx.send(r);
    });
    match rx.recv_timeout(std::time::Duration::from_secs(secs)) {
        Ok(Ok(v)) => Some(v),
        Ok(Err(p)) => panic!("{}", &p[6..]),
        Err(_) => None,
    }
}

pub fn exec(req: &str) -> String {
    let t: Vec<&str> = req.split(' ').collect();
    match t[0] {
        "c12.oprf" => {
            let (eps, delta, sens) = (f(t[1]), f(t[2]), t[3].parse::<u32>().unwrap());
            match with_deadline(20, move || OPRFPaddingDp::new(eps, delta, sens).map(|d| d.get_shift())) {
                None => "timeout".into(),
                Some(Ok(n)) => format!("ok {n}"),
                Some(Err(e)) => format!("err {}", err_name(&e)),
            }
        }
        "c12.tdg" => match TruncatedDoubleGeometric::new(f(t[1]), t[2].parse().unwrap()) {
            Ok(d) => format!("ok {}", d.shift_doubled),
            Err(e) => format!("err {}", err_name(&e)),
        },
        "c12.dg" => match DoubleGeometric::new(f(t[1]), t[2].parse().unwrap()) {
            Ok(_) => "ok".into(),
            Err(e) => format!("err {}", err_name(&e)),
        },
        "c12.geo" => match Geometric::new(f(t[1])) {
            Ok(_) => "ok".into(),
            Err(e) => format!("err {}", err_name(&e)),
        },
        "c12.noise" => match NoiseParams::new(f(t[1]), f(t[2]), 1, f(t[3]), f(t[4]), f(t[5]), f(t[6]), f(t[7]), f(t[8])) {
            Ok(_) => "ok".into(),
            Err(e) => format!("err {e}"),
        },
        "c12.sample" => {
            let script: Vec<u64> = parse_nat_list(t[6]);
            let (s, p) = (f(t[2]), f(t[3]));
            let shift: u32 = t[5].parse().unwrap();
            let kind = t[1].to_string();
            // a sampler that never accepts (and does not consume the script) must not block the suite
            with_deadline(10, move || {
                let mut rng = ScriptRng { script, pos: 0 };
                let v: i64 = match kind.as_str() {
                    "geo" => i64::from(Geometric::new(p).unwrap().sample(&mut rng)),
                    "dg" => i64::from(DoubleGeometric::new(s, shift).unwrap().sample(&mut rng)),
                    "tdg" => i64::from(TruncatedDoubleGeometric::new(s, shift).unwrap().sample(&mut rng)),
                    k => panic!("harness: unknown sampler {k}"),
                };
                format!("{v} {}", rng.pos)
            })
            .unwrap_or_else(|| "timeout".into())
        }
        _ => panic!("harness: unknown request {req}"),
    }
}

fn r_of(eps: f64) -> f64 {
    E.powf(-eps)
}
fn p_of_s(s: f64) -> f64 {
    1.0 - E.powf(-1.0 / s)
}
/// rand 0.8 `Bernoulli::new`: `p_int = (p * 2^64) as u64`, `u64::MAX` for `p == 1`.
fn p_int(p: f64) -> u64 {
    if p == 1.0 { u64::MAX } else { (p * (2.0 * (1u64 << 63) as f64)) as u64 }
}

fn oprf_req(eps: f64, delta: f64, sens: u32) -> String {
    format!("c12.oprf {} {} {sens} {} {}", b(eps), b(delta), b(r_of(eps)), b(p_of_s(1.0 / eps)))
}

fn gen_shift(rng: &mut Rng, thorough: bool, out: &mut Vec<String>) {
    let eps: &[f64] = &[0.01, 0.05, 0.1, 0.5, 1.0, 2.0, 5.0, 10.0, 20.0];
    let deltas: &[f64] = &[1e-12, 1e-10, 1e-8, 1e-6, 1e-4, 1e-2];
    let sens: &[u32] = &[1, 2, 3, 10, 100, 1000];
    for &e in eps {
        for &d in deltas {
            for &s in sens {
                // the heaviest corner costs ~Δ·n float powers per candidate n: thin it in the quick tier
                if !thorough && e < 0.1 && s >= 100 && d < 1e-6 {
                    continue;
                }
                out.push(oprf_req(e, d, s));
            }
        }
    }
    // the configurations the code base uses
    for (e, d, s) in [(5.0, 1e-6, 10), (5.0, 1e-6, 2), (10.0, 1e-4, 3), (10.0, 1e-4, 2), (5.0, 1e-6, 8), (2.0, 1e-6, 8), (1.1, 1e-6, 256)] {
        out.push(oprf_req(e, d, s));
    }
    for _ in 0..(if thorough { 400 } else { 60 }) {
        let e = 0.05 + (rng.below(2_000_000) as f64) / 100_000.0; // 0.05 .. 20.05
        let d = 10f64.powi(-(2 + rng.below(11) as i32)) * (1.0 + (rng.below(900) as f64) / 100.0);
        let s = *rng.pick(&[1u32, 2, 3, 4, 8, 10, 16, 50, 100]);
        out.push(oprf_req(e, d, s));
    }
}

fn specials() -> Vec<f64> {
    vec![
        0.0, -0.0, f64::MIN_POSITIVE, -f64::MIN_POSITIVE, f64::MIN_POSITIVE / 2.0, 5e-324, 1e-300, 1e-17, 1e-9, 0.5, 1.0 - f64::EPSILON / 2.0, 1.0,
        1.0 + f64::EPSILON, 2.0, 20.0, 20.000000000000004, 1e6, f64::MAX, f64::INFINITY, f64::NEG_INFINITY, f64::NAN, -1.0, -1e-300,
    ]
}

/// Tail mass of the truncated discrete Laplace at truncation point `n` (closed form of equation (11)), in plain f64:
/// only used by the GENERATOR to look for parameters near the cap of the search; the verdict never depends on it.
fn gen_tail(n: u32, sens: u32, eps: f64) -> f64 {
    let r = (-eps).exp();
    let rn1 = r.powi((n + 1) as i32);
    (r.powi((n - sens + 1) as i32) - rn1) / (1.0 + r - 2.0 * rn1)
}

/// the ε at which the smallest admissible truncation point for (δ, Δ) crosses `n` (bisection on the closed form)
fn gen_eps_at(n: u32, delta: f64, sens: u32) -> f64 {
    let (mut lo, mut hi) = (1e-9f64, 1.0f64); // tail(lo) > δ > tail(hi)
    for _ in 0..200 {
        let mid = (lo * hi).sqrt();
        if gen_tail(n, sens, mid) > delta { lo = mid } else { hi = mid }
    }
    hi
}

/// Valid-looking parameter sets whose required truncation point lies beyond / just below / just above the cap of
/// `find_smallest_n` (MAX_SHIFT = 1_000_000): beyond it the constructor must refuse (`BadShiftValue`) — a distribution
/// truncated AT the cap would have tail mass above δ; below it the search runs through ~10^6 candidates and accepts.
fn gen_cap(thorough: bool, out: &mut Vec<String>) {
    const CAP: u32 = 1_000_000;
    // needs n ≈ 1.8M
    out.push(oprf_req(1e-6, 1e-7, 1));
    out.push(oprf_req(1e-6, 1e-6, 10));
    // (as ε -> 0 the tail mass at the cap tends to Δ/(2·cap+1): only δ below that can need a truncation point beyond the cap)
    let pairs: &[(f64, u32)] = if thorough { &[(1e-7, 1), (1e-8, 2), (1e-9, 1), (4e-7, 1), (1e-7, 3), (1e-6, 10)] } else { &[(1e-7, 1), (1e-8, 2)] };
    let margins: &[f64] = if thorough { &[1e-5, 1e-4, 1e-3, 1e-2, 0.3] } else { &[1e-3] };
    for &(delta, sens) in pairs {
        if gen_tail(CAP, sens, 1e-9) <= delta {
            continue;
        }
        let e0 = gen_eps_at(CAP, delta, sens);
        for &m in margins {
            out.push(oprf_req(e0 * (1.0 - m), delta, sens)); // smaller ε: n beyond the cap
            out.push(oprf_req(e0 * (1.0 + m), delta, sens)); // larger ε: n just below the cap
        }
    }
}

fn gen_ctor(_rng: &mut Rng, thorough: bool, out: &mut Vec<String>) {
    gen_cap(thorough, out);
    let sp = specials();
    // OPRFPaddingDp::new: every special value in each float slot, the others nominal
    for &x in &sp {
        // tiny positive ε needs a truncation point far beyond the admissible shift: after F11 an error, before it a hang
        out.push(oprf_req(x, 1e-6, 2));
        out.push(format!("c12.oprf {} {} 2 {} {}", b(1.0), b(x), b(r_of(1.0)), b(p_of_s(1.0))));
    }
    for s in [0u32, 1, 999_999, 1_000_000, 1_000_001, u32::MAX] {
        out.push(oprf_req(20.0, 0.5, s));
    }
    for &x in &sp {
        let p = p_of_s(x);
        for shift in [0u32, 1, 1_000_000, 1_000_001] {
            out.push(format!("c12.tdg {} {shift} {}", b(x), b(p)));
            out.push(format!("c12.dg {} {shift} {}", b(x), b(p)));
        }
        out.push(format!("c12.geo {}", b(x)));
    }
    // NoiseParams::new: each of the eight float slots takes every special value
    let nominal = [5.0, 1e-6, 0.5, 1.0, 1.0, 1.0, 1.0, 1.0];
    out.push(format!("c12.noise {}", nominal.iter().map(|x| b(*x).to_string()).collect::<Vec<_>>().join(" ")));
    for slot in 0..8 {
        for &x in &sp {
            let mut v = nominal;
            v[slot] = x;
            out.push(format!("c12.noise {}", v.iter().map(|x| b(*x).to_string()).collect::<Vec<_>>().join(" ")));
        }
    }
    // F13 (fixed): every NaN encoding (negative quiet, signalling, all-ones payload) is rejected in every slot
    for slot in 0..8 {
        for nan in [0xfff8_0000_0000_0000u64, 0x7ff0_0000_0000_0001, 0xffff_ffff_ffff_ffff, 0x7ff4_0000_dead_beef] {
            let mut v = nominal;
            v[slot] = f64::from_bits(nan);
            out.push(format!("c12.noise {}", v.iter().map(|x| b(*x).to_string()).collect::<Vec<_>>().join(" ")));
        }
    }
    // two NaNs at once, and NaN next to an out-of-range value: the first failing check (declaration order) reports
    for (i, j) in [(0usize, 1usize), (1, 3), (2, 0), (4, 7), (7, 2), (3, 5)] {
        let mut v = nominal;
        v[i] = f64::NAN;
        v[j] = f64::NAN;
        out.push(format!("c12.noise {}", v.iter().map(|x| b(*x).to_string()).collect::<Vec<_>>().join(" ")));
        v[j] = -1.0;
        out.push(format!("c12.noise {}", v.iter().map(|x| b(*x).to_string()).collect::<Vec<_>>().join(" ")));
    }
    for d in [1e-10, 1e-6, 1e-2, 0.999] {
        let mut v = nominal;
        v[1] = d;
        out.push(format!("c12.noise {}", v.iter().map(|x| b(*x).to_string()).collect::<Vec<_>>().join(" ")));
    }
}

/// script that makes the geometric sampler return `a` (a failures, then a success)
fn geo_script(a: u32, out: &mut Vec<u64>) {
    for _ in 0..a {
        out.push(u64::MAX);
    }
    out.push(0);
}

fn gen_sampler(rng: &mut Rng, thorough: bool, out: &mut Vec<String>) {
    // s = 1/ε for ε = 5, 1, 0.1, 0.01; s = 1e-3 gives p = 1.0 (Bernoulli "always true"); s = 1e6 a tiny p
    for &s_par in &[0.2f64, 1.0, 10.0, 100.0, 1e-3, 1e6, 1.4426950408889634] {
        let p = p_of_s(s_par);
        let pi = p_int(p);
        for shift in [0u32, 1, 2, 7] {
            // boundary scripts: values just below / at / above p_int
            let mut scripts: Vec<Vec<u64>> = vec![
                vec![0, 0],
                vec![pi.wrapping_sub(1), pi.wrapping_sub(1)],
                vec![pi, pi.wrapping_sub(1), pi, pi.wrapping_sub(1)],
                vec![u64::MAX, 0, 0],
                vec![0, u64::MAX, 0],
                vec![],
                vec![pi],
            ];
            // rejections: a1 − a2 outside [−shift, shift] first, then an accepted draw
            let mut s = vec![];
            geo_script(shift + 1, &mut s);
            geo_script(0, &mut s);
            geo_script(0, &mut s);
            geo_script(shift + 1, &mut s);
            geo_script(shift, &mut s);
            geo_script(0, &mut s);
            scripts.push(s);
            for _ in 0..(if thorough { 40 } else { 8 }) {
                let n = 2 + rng.usize_below(30);
                scripts.push((0..n).map(|_| match rng.below(4) { 0 => 0, 1 => u64::MAX, 2 => pi.wrapping_add(rng.below(3)).wrapping_sub(1), _ => rng.next_u64() }).collect());
            }
            for sc in scripts {
                for kind in ["geo", "dg", "tdg"] {
                    if kind == "geo" && shift != 0 {
                        continue;
                    }
                    out.push(format!("c12.sample {kind} {} {} {pi} {shift} {}", b(s_par), b(p), nat_list(&sc)));
                }
            }
        }
    }
}

pub fn gen_shares(_rng: &mut Rng, thorough: bool, out: &mut Vec<String>) {
    // (ε, δ, cap): small truncation points so that EVERY support point 0..=2n is enumerated
    let mut cfgs: Vec<(f64, f64, u32)> = vec![(5.0, 1e-6, 1), (2.0, 1e-6, 8), (10.0, 1e-4, 3)];
    if thorough {
        cfgs.push((1.0, 1e-6, 8));
        cfgs.push((0.5, 1e-8, 32));
    }
    for (eps, delta, cap) in cfgs {
        let n = OPRFPaddingDp::new(eps, delta, cap).unwrap().get_shift();
        let p = p_of_s(1.0 / eps);
        let pi = p_int(p);
        for (bit_size, ov) in [(8u32, 8u32), (16, 16), (32, 32), (3, 3), (20, 20), (33, 64)] {
            for dir in ["L", "R"] {
                for s in 0..=2 * n {
                    let mut sc = vec![];
                    if s >= n {
                        geo_script(s - n, &mut sc);
                        geo_script(0, &mut sc);
                    } else {
                        geo_script(0, &mut sc);
                        geo_script(n - s, &mut sc);
                    }
                    out.push(format!(
                        "c12.shares {} {} {cap} {} {} {pi} {bit_size} {ov} {dir} {}",
                        b(eps), b(delta), b(r_of(eps)), b(p), nat_list(&sc)
                    ));
                    if bit_size == 33 {
                        break; // panics in `new`: one case is enough
                    }
                }
            }
        }
    }
}

#[test]
fn verif_c12_shift() {
    run_suite("c12_shift", |rng, th| { let mut o = vec![]; gen_shift(rng, th, &mut o); o }, exec);
}

#[test]
fn verif_c12_ctor() {
    run_suite("c12_ctor", |rng, th| { let mut o = vec![]; gen_ctor(rng, th, &mut o); o }, exec);
}

#[test]
fn verif_c12_sampler() {
    run_suite("c12_sampler", |rng, th| { let mut o = vec![]; gen_sampler(rng, th, &mut o); o }, exec);
}


// ---------------------------------------------------------------- c12_noise_e2e: dp_for_histogram, DiscreteLaplace
mod e2e {
    use std::array;

    use rand_core::RngCore;

    use super::{super::proto::*, ScriptRng, b, p_int, p_of_s, r_of};
    use crate::{
        ff::{
            U128Conversions,
            boolean::Boolean,
            boolean_array::{BA8, BA16, BA32},
        },
        helpers::{Direction, Role},
        protocol::{
            context::{Context, UpgradableContext, dzkp_validator::DZKPValidator},
            dp::{NoiseParams, dp_for_histogram, step::DPStep},
            hybrid::step::HybridStep,
            ipa_prf::oprf_padding::insecure::OPRFPaddingDp,
        },
        secret_sharing::{BitDecomposed, SharedValue, replicated::{ReplicatedSecretSharing, semi_honest::AdditiveShare}},
        test_fixture::{Runner, TestWorld, TestWorldConfig},
    };
    use crate::protocol::context::MaliciousProtocolSteps;

    const RUN_TIMEOUT_S: u64 = 60;

    fn world(seed: u64) -> TestWorld {
        TestWorld::new_with(TestWorldConfig::default().with_seed(seed).with_timeout_secs(RUN_TIMEOUT_S))
    }

    fn lanes<const N: usize>(bits: usize, xs: &[u128]) -> BitDecomposed<[Boolean; N]> {
        BitDecomposed::new((0..bits).map(|i| array::from_fn(|lane| Boolean::from((xs.get(lane).copied().unwrap_or(0) >> i) & 1 == 1))))
    }

    /// The first `k` values of the three pairwise streams, each as seen by BOTH generating helpers
    /// (`[pass][0]` = the helper right of the excluded one, `[pass][1]` = the helper left of it).
    macro_rules! streams_fn {
        ($fname:ident, $method:ident) => {
            pub fn $fname(seed: u64, k: usize) -> Result<[Option<Vec<u64>>; 3], String> {
                let res = block_on_timeout(RUN_TIMEOUT_S + 5, async move {
                    let w = world(seed);
                    w.$method((), move |ctx, ()| async move {
                        let steps = MaliciousProtocolSteps {
                            protocol: &HybridStep::DifferentialPrivacy,
                            validate: &HybridStep::DifferentialPrivacyValidate,
                        };
                        let v = ctx.dzkp_validator(steps, 1);
                        let c = v.context();
                        let mut out: Vec<Option<Vec<u64>>> = vec![];
                        for (step, excl) in [(DPStep::LaplacePass1, Role::H1), (DPStep::LaplacePass2, Role::H2), (DPStep::LaplacePass3, Role::H3)] {
                            let pc = c.narrow(&step);
                            match pc.role().direction_to(excl) {
                                Some(dir) => {
                                    let (mut left, mut right) = pc.prss_rng();
                                    let rng = match dir {
                                        Direction::Left => &mut right,
                                        Direction::Right => &mut left,
                                    };
                                    out.push(Some((0..k).map(|_| rng.next_u64()).collect()));
                                }
                                None => out.push(None),
                            }
                        }
                        out
                    })
                    .await
                })?;
                // res[h][pass]; both generating helpers must hold the same stream (PRSS pair property, C06)
                let mut streams: [Option<Vec<u64>>; 3] = [None, None, None];
                for pass in 0..3 {
                    let have: Vec<&Vec<u64>> = (0..3).filter_map(|h| res[h][pass].as_ref()).collect();
                    if have.len() != 2 || res[pass][pass].is_some() {
                        return Err(format!("pass {}: generating helpers are not exactly the two non-excluded ones", pass + 1));
                    }
                    if have[0] != have[1] {
                        return Err(format!("pass {}: the two generating helpers hold different streams", pass + 1));
                    }
                    streams[pass] = Some(have[0].clone());
                }
                Ok(streams)
            }
        };
    }
    streams_fn!(streams_sh, semi_honest);
    streams_fn!(streams_mal, malicious);

    macro_rules! run_fn {
        ($fname:ident, $method:ident, $b:expr, $ov:ty, $ss:expr) => {
            fn $fname(seed: u64, eps: f64, hist: &[u128]) -> String {
                const B: usize = $b;
                let input = lanes::<B>(<$ov>::BITS as usize, hist);
                let res = block_on_timeout(RUN_TIMEOUT_S + 5, async move {
                    let w = world(seed);
                    w.$method(input, move |ctx, input: BitDecomposed<AdditiveShare<Boolean, B>>| async move {
                        dp_for_histogram::<_, B, $ov, $ss>(ctx, input, crate::helpers::query::DpMechanism::DiscreteLaplace { epsilon: eps })
                            .await
                            .map_err(|e| format!("{e:?}"))
                    })
                    .await
                });
                let res = match res {
                    Ok(r) => r,
                    Err(e) => return e,
                };
                let outs: Vec<Vec<AdditiveShare<$ov>>> = match res.into_iter().collect::<Result<Vec<_>, _>>() {
                    Ok(o) => o,
                    Err(e) => return format!("err {}", e.split(['(', ' ', '{']).next().unwrap_or("")),
                };
                let mut ok = outs[0].len() == B && outs[1].len() == B && outs[2].len() == B;
                let mut vals = vec![];
                for i in 0..outs[0].len().min(outs[1].len()).min(outs[2].len()) {
                    let (a, bb, c) = (&outs[0][i], &outs[1][i], &outs[2][i]);
                    ok &= a.right() == bb.left() && bb.right() == c.left() && c.right() == a.left();
                    vals.push((a.left() + bb.left() + c.left()).as_u128());
                }
                format!("{} {}", nat_list(&vals), if ok { "ok" } else { "inconsistent" })
            }
        };
    }
    run_fn!(run_sh_32_8_3, semi_honest, 32, BA8, 3);
    run_fn!(run_sh_32_16_3, semi_honest, 32, BA16, 3);
    run_fn!(run_sh_32_32_5, semi_honest, 32, BA32, 5);
    run_fn!(run_sh_256_8_1, semi_honest, 256, BA8, 1);
    run_fn!(run_sh_256_16_3, semi_honest, 256, BA16, 3);
    run_fn!(run_sh_256_32_3, semi_honest, 256, BA32, 3);
    run_fn!(run_mal_32_8_3, malicious, 32, BA8, 3);
    run_fn!(run_mal_32_16_3, malicious, 32, BA16, 3);
    run_fn!(run_mal_32_32_5, malicious, 32, BA32, 5);
    run_fn!(run_mal_256_8_1, malicious, 256, BA8, 1);
    run_fn!(run_mal_256_16_3, malicious, 256, BA16, 3);
    run_fn!(run_mal_256_32_3, malicious, 256, BA32, 3);

    pub const SHAPES: &[(usize, u32, usize)] = &[(32, 8, 3), (32, 16, 3), (32, 32, 5), (256, 8, 1), (256, 16, 3), (256, 32, 3)];

    pub fn exec(req: &str) -> String {
        let t: Vec<&str> = req.split(' ').collect();
        assert_eq!(t[0], "c12.e2e");
        let (bn, w, ss): (usize, u32, usize) = (t[2].parse().unwrap(), t[3].parse().unwrap(), t[4].parse().unwrap());
        let seed: u64 = t[5].parse().unwrap();
        let eps = super::f(t[6]);
        let hist: Vec<u128> = parse_nat_list(t[11]);
        match (t[1], bn, w, ss) {
            ("sh", 32, 8, 3) => run_sh_32_8_3(seed, eps, &hist),
            ("sh", 32, 16, 3) => run_sh_32_16_3(seed, eps, &hist),
            ("sh", 32, 32, 5) => run_sh_32_32_5(seed, eps, &hist),
            ("sh", 256, 8, 1) => run_sh_256_8_1(seed, eps, &hist),
            ("sh", 256, 16, 3) => run_sh_256_16_3(seed, eps, &hist),
            ("sh", 256, 32, 3) => run_sh_256_32_3(seed, eps, &hist),
            ("mal", 32, 8, 3) => run_mal_32_8_3(seed, eps, &hist),
            ("mal", 32, 16, 3) => run_mal_32_16_3(seed, eps, &hist),
            ("mal", 32, 32, 5) => run_mal_32_32_5(seed, eps, &hist),
            ("mal", 256, 8, 1) => run_mal_256_8_1(seed, eps, &hist),
            ("mal", 256, 16, 3) => run_mal_256_16_3(seed, eps, &hist),
            ("mal", 256, 32, 3) => run_mal_256_32_3(seed, eps, &hist),
            _ => panic!("harness: no dp_for_histogram instantiation for {req}"),
        }
    }

    /// how many u64 the real sampler consumes for `bn` draws from this stream (sizes the script in the request)
    fn consumed(eps: f64, delta: f64, cap: u32, bn: usize, stream: &[u64]) -> usize {
        let d = OPRFPaddingDp::new(eps, delta, cap).unwrap();
        let mut rng = ScriptRng { script: stream.to_vec(), pos: 0 };
        for _ in 0..bn {
            let _ = d.sample(&mut rng);
        }
        rng.pos
    }

    pub fn generate(rng: &mut Rng, thorough: bool, out: &mut Vec<String>) {
        let delta = NoiseParams::default().delta;
        let mut case = 0u64;
        let reps = if thorough { 6 } else { 1 };
        for rep in 0..reps {
            for mode in ["sh", "mal"] {
                for &(bn, w, ss) in SHAPES {
                    // quick tier: every shape semi-honest, the malicious mode on three of them
                    if !thorough && mode == "mal" && !matches!((bn, w), (32, 8) | (256, 16) | (32, 32)) {
                        continue;
                    }
                    // ε = 5 is the default (noise mostly 0, ±1); smaller ε give wide noise (n up to ~40·Δ)
                    let eps_list: &[f64] = &[5.0, 0.9, 2.0, 10.0];
                    let eps = eps_list[(case as usize + rep) % eps_list.len()];
                    case += 1;
                    let seed = rng.next_u64();
                    let cap = 1u32 << ss;
                    let max = if w >= 128 { u128::MAX } else { (1u128 << w) - 1 };
                    // histogram: boundary buckets first (0, 1, max, max - 1, 2^(w-1) ± 1: wrap-around of negative noise and of the sum), then random
                    let mut hist: Vec<u128> = vec![0, 1, max, max - 1, max / 2, max / 2 + 1, 2, max - 2, 0, 0, max, max];
                    while hist.len() < bn {
                        hist.push(if rng.below(4) == 0 { rng.below(4) as u128 } else { rng.next_u128() & max });
                    }
                    hist.truncate(bn);
                    let k = 64 * bn + 512;
                    let streams = match if mode == "sh" { streams_sh(seed, k) } else { streams_mal(seed, k) } {
                        Ok(s) => s,
                        Err(e) => {
                            // reported as a request whose model answer cannot match
                            out.push(format!("c12.e2e-broken {mode} {bn} {w} {ss} {seed} {}", e.replace(' ', "_")));
                            continue;
                        }
                    };
                    let p = p_of_s(1.0 / eps);
                    let ss_: Vec<String> = streams
                        .iter()
                        .map(|s| {
                            let s = s.as_ref().unwrap();
                            let used = consumed(eps, delta, cap, bn, s);
                            nat_list(&s[..used])
                        })
                        .collect();
                    out.push(format!(
                        "c12.e2e {mode} {bn} {w} {ss} {seed} {} {} {} {} {} {} {} {} {}",
                        b(eps), b(delta), b(r_of(eps)), b(p), p_int(p), nat_list(&hist), ss_[0], ss_[1], ss_[2]
                    ));
                }
            }
        }
    }
}

// ---------------------------------------------------------------- c12_dummies: apply_dp_padding
mod pad {
    use rand_core::RngCore;

    use super::{super::proto::*, ScriptRng, b, p_int, p_of_s, r_of};
    use crate::{
        ff::{
            U128Conversions,
            boolean_array::{BA3, BA8},
        },
        helpers::{Direction, Role},
        protocol::{
            context::Context,
            ipa_prf::oprf_padding::{
                AggregationPadding, OPRFPadding, PaddingParameters, apply_dp_padding, insecure::OPRFPaddingDp, step::PaddingDpStep,
            },
        },
        report::hybrid::IndistinguishableHybridReport,
        secret_sharing::replicated::ReplicatedSecretSharing,
        test_fixture::{Runner, TestWorld, TestWorldConfig},
    };

    const RUN_TIMEOUT_S: u64 = 60;
    type BK = BA8;
    type V = BA3;
    type OprfRow = IndistinguishableHybridReport<BK, V>;
    type AggRow = IndistinguishableHybridReport<BK, V, ()>;

    fn world(seed: u64) -> TestWorld {
        TestWorld::new_with(TestWorldConfig::default().with_seed(seed).with_timeout_secs(RUN_TIMEOUT_S))
    }

    macro_rules! streams_fn {
        ($fname:ident, $method:ident) => {
            /// the first `k` values of the three pairwise streams of `apply_dp_padding` (pass i excludes H3, H2, H1)
            pub fn $fname(seed: u64, k: usize) -> Result<[Vec<u64>; 3], String> {
                let res = block_on_timeout(RUN_TIMEOUT_S + 5, async move {
                    let w = world(seed);
                    w.$method((), move |ctx, ()| async move {
                        let mut out: Vec<Option<Vec<u64>>> = vec![];
                        for (step, excl) in [(PaddingDpStep::PaddingDpPass1, Role::H3), (PaddingDpStep::PaddingDpPass2, Role::H2), (PaddingDpStep::PaddingDpPass3, Role::H1)] {
                            let pc = ctx.narrow(&step);
                            match pc.role().direction_to(excl) {
                                Some(dir) => {
                                    let (mut left, mut right) = pc.prss_rng();
                                    let rng = match dir {
                                        Direction::Left => &mut right,
                                        Direction::Right => &mut left,
                                    };
                                    out.push(Some((0..k).map(|_| rng.next_u64()).collect()));
                                }
                                None => out.push(None),
                            }
                        }
                        out
                    })
                    .await
                })?;
                let mut streams: [Vec<u64>; 3] = [vec![], vec![], vec![]];
                for pass in 0..3 {
                    let have: Vec<&Vec<u64>> = (0..3).filter_map(|h| res[h][pass].as_ref()).collect();
                    if have.len() != 2 || res[2 - pass][pass].is_some() {
                        return Err(format!("pass {}: generating helpers are not exactly the two non-excluded ones", pass + 1));
                    }
                    if have[0] != have[1] {
                        return Err(format!("pass {}: the two generating helpers hold different streams", pass + 1));
                    }
                    streams[pass] = have[0].clone();
                }
                Ok(streams)
            }
        };
    }
    streams_fn!(streams_sh, semi_honest);
    streams_fn!(streams_mal, malicious);

    fn mask3(z: [bool; 3]) -> u8 {
        u8::from(z[0]) | (u8::from(z[1]) << 1) | (u8::from(z[2]) << 2)
    }

    macro_rules! oprf_fn {
        ($fname:ident, $method:ident) => {
            fn $fname(seed: u64, params: PaddingParameters) -> String {
                let res = block_on_timeout(RUN_TIMEOUT_S + 5, async move {
                    let w = world(seed);
                    w.$method((), move |ctx, ()| async move {
                        apply_dp_padding::<_, OprfRow, 256>(ctx, Vec::new(), &params).await.map_err(|e| format!("{e:?}"))
                    })
                    .await
                });
                let res = match res {
                    Ok(r) => r,
                    Err(e) => return e,
                };
                let outs: Vec<Vec<OprfRow>> = match res.into_iter().collect::<Result<Vec<_>, _>>() {
                    Ok(o) => o,
                    Err(e) => return format!("err {}", e.split(['(', ' ', '{']).next().unwrap_or("")),
                };
                let lens = outs[0].len() == outs[1].len() && outs[1].len() == outs[2].len();
                let n = outs[0].len().min(outs[1].len()).min(outs[2].len());
                let mut ok = true;
                let mut rows = Vec::with_capacity(n);
                for i in 0..n {
                    let r = [&outs[0][i], &outs[1][i], &outs[2][i]];
                    for h in 0..3 {
                        let nx = (h + 1) % 3;
                        ok &= r[h].match_key.right() == r[nx].match_key.left()
                            && r[h].breakdown_key.right() == r[nx].breakdown_key.left()
                            && r[h].value.right() == r[nx].value.left();
                    }
                    let mk = (r[0].match_key.left() + r[1].match_key.left() + r[2].match_key.left()).as_u128();
                    let bk = (r[0].breakdown_key.left() + r[1].breakdown_key.left() + r[2].breakdown_key.left()).as_u128();
                    let v = (r[0].value.left() + r[1].value.left() + r[2].value.left()).as_u128();
                    let z: [bool; 3] = std::array::from_fn(|h| *r[h] == OprfRow::ZERO);
                    rows.push(format!("{mk}.{bk}.{v}.{}", mask3(z)));
                }
                format!("{} {} {}", if rows.is_empty() { "-".into() } else { rows.join(",") }, if ok { "ok" } else { "inconsistent" }, if lens { "lens-equal" } else { "lens-differ" })
            }
        };
    }
    oprf_fn!(oprf_sh, semi_honest);
    oprf_fn!(oprf_mal, malicious);

    macro_rules! agg_fn {
        ($fname:ident, $method:ident, $b:expr) => {
            fn $fname(seed: u64, params: PaddingParameters) -> String {
                let res = block_on_timeout(RUN_TIMEOUT_S + 5, async move {
                    let w = world(seed);
                    w.$method((), move |ctx, ()| async move {
                        apply_dp_padding::<_, AggRow, $b>(ctx, Vec::new(), &params).await.map_err(|e| format!("{e:?}"))
                    })
                    .await
                });
                let res = match res {
                    Ok(r) => r,
                    Err(e) => return e,
                };
                let outs: Vec<Vec<AggRow>> = match res.into_iter().collect::<Result<Vec<_>, _>>() {
                    Ok(o) => o,
                    Err(e) => return format!("err {}", e.split(['(', ' ', '{']).next().unwrap_or("")),
                };
                let lens = outs[0].len() == outs[1].len() && outs[1].len() == outs[2].len();
                let n = outs[0].len().min(outs[1].len()).min(outs[2].len());
                let mut ok = true;
                let mut rows = Vec::with_capacity(n);
                for i in 0..n {
                    let r = [&outs[0][i], &outs[1][i], &outs[2][i]];
                    for h in 0..3 {
                        let nx = (h + 1) % 3;
                        ok &= r[h].breakdown_key.right() == r[nx].breakdown_key.left() && r[h].value.right() == r[nx].value.left();
                    }
                    let bk = (r[0].breakdown_key.left() + r[1].breakdown_key.left() + r[2].breakdown_key.left()).as_u128();
                    let v = (r[0].value.left() + r[1].value.left() + r[2].value.left()).as_u128();
                    let z: [bool; 3] = std::array::from_fn(|h| *r[h] == AggRow::ZERO);
                    rows.push(format!("0.{bk}.{v}.{}", mask3(z)));
                }
                format!("{} {} {}", if rows.is_empty() { "-".into() } else { rows.join(",") }, if ok { "ok" } else { "inconsistent" }, if lens { "lens-equal" } else { "lens-differ" })
            }
        };
    }
    agg_fn!(agg_sh_256, semi_honest, 256);
    agg_fn!(agg_sh_32, semi_honest, 32);
    agg_fn!(agg_mal_256, malicious, 256);
    agg_fn!(agg_mal_32, malicious, 32);

    pub fn exec(req: &str) -> String {
        let t: Vec<&str> = req.split(' ').collect();
        let seed: u64 = t[3].parse().unwrap();
        match t[1] {
            "oprf" => {
                let params = PaddingParameters {
                    aggregation_padding: AggregationPadding::NoAggPadding,
                    oprf_padding: OPRFPadding::Parameters {
                        oprf_epsilon: super::f(t[4]),
                        oprf_delta: super::f(t[5]),
                        oprf_padding_sensitivity: t[6].parse().unwrap(),
                        matchkey_cardinality_cap: t[7].parse().unwrap(),
                    },
                };
                match t[2] {
                    "sh" => oprf_sh(seed, params),
                    "mal" => oprf_mal(seed, params),
                    m => panic!("harness: unknown mode {m}"),
                }
            }
            "agg" => {
                let params = PaddingParameters {
                    oprf_padding: OPRFPadding::NoOPRFPadding,
                    aggregation_padding: AggregationPadding::Parameters {
                        aggregation_epsilon: super::f(t[6]),
                        aggregation_delta: super::f(t[7]),
                        aggregation_padding_sensitivity: t[8].parse().unwrap(),
                    },
                };
                match (t[2], t[4]) {
                    ("sh", "256") => agg_sh_256(seed, params),
                    ("sh", "32") => agg_sh_32(seed, params),
                    ("mal", "256") => agg_mal_256(seed, params),
                    ("mal", "32") => agg_mal_32(seed, params),
                    _ => panic!("harness: no apply_dp_padding instantiation for {req}"),
                }
            }
            k => panic!("harness: unknown padding kind {k}"),
        }
    }

    /// number of u64 the pass consumes from `stream` (sizes the script; the MODEL decides what they mean)
    fn consumed_oprf(eps: f64, delta: f64, sens: u32, cap: u32, stream: &[u64]) -> usize {
        let d = OPRFPaddingDp::new(eps, delta, sens).unwrap();
        let mut rng = ScriptRng { script: stream.to_vec(), pos: 0 };
        for _ in 1..=cap {
            let sample = d.sample(&mut rng);
            rng.pos += 2 * sample as usize;
        }
        rng.pos
    }
    fn consumed_agg(eps: f64, delta: f64, sens: u32, bn: u32, stream: &[u64]) -> usize {
        let d = OPRFPaddingDp::new(eps, delta, sens).unwrap();
        let mut rng = ScriptRng { script: stream.to_vec(), pos: 0 };
        for _ in 0..bn {
            let _ = d.sample(&mut rng);
        }
        rng.pos
    }

    pub fn generate(rng: &mut Rng, thorough: bool, out: &mut Vec<String>) {
        // (ε, δ, sensitivity, cardinality cap): the defaults, `relaxed()`, the unit test's, and a wide one
        let oprf_cfgs: &[(f64, f64, u32, u32)] = &[(5.0, 1e-6, 2, 10), (10.0, 1e-4, 2, 3), (1.0, 1e-6, 2, 10), (5.0, 1e-6, 2, 1), (2.0, 1e-6, 3, 4)];
        // the last one adds more than 65 535 dummy rows in one pass (256 buckets x truncation point ~ 272): the total sent to the
        // excluded helper no longer fits 16 bits (seed C12g: the count message narrowed from BA32 to BA16)
        let agg_cfgs: &[(f64, f64, u32, u32)] =
            &[(5.0, 1e-6, 10, 256), (10.0, 1e-4, 3, 32), (5.0, 1e-6, 10, 32), (10.0, 1e-4, 3, 256), (2.0, 1e-6, 2, 32), (0.04, 1e-6, 10, 256)];
        let reps = if thorough { 5 } else { 1 };
        for rep in 0..reps {
            for (i, &(eps, delta, sens, cap)) in oprf_cfgs.iter().enumerate() {
                for mode in ["sh", "mal"] {
                    if !thorough && mode == "mal" && i % 2 == 1 {
                        continue;
                    }
                    let seed = rng.next_u64();
                    let k = 40_000;
                    let streams = match if mode == "sh" { streams_sh(seed, k) } else { streams_mal(seed, k) } {
                        Ok(s) => s,
                        Err(e) => {
                            out.push(format!("c12.pad-broken {mode} {seed} {}", e.replace(' ', "_")));
                            continue;
                        }
                    };
                    let p = p_of_s(1.0 / eps);
                    let ss: Vec<String> = streams.iter().map(|s| nat_list(&s[..consumed_oprf(eps, delta, sens, cap, s)])).collect();
                    out.push(format!(
                        "c12.pad oprf {mode} {seed} {} {} {sens} {cap} {} {} {} {} {} {}",
                        b(eps), b(delta), b(r_of(eps)), b(p), p_int(p), ss[0], ss[1], ss[2]
                    ));
                }
            }
            for (i, &(eps, delta, sens, bn)) in agg_cfgs.iter().enumerate() {
                for mode in ["sh", "mal"] {
                    if !thorough && mode == "mal" && i % 2 == 0 {
                        continue;
                    }
                    let seed = rng.next_u64();
                    let k = 40_000;
                    let streams = match if mode == "sh" { streams_sh(seed, k) } else { streams_mal(seed, k) } {
                        Ok(s) => s,
                        Err(e) => {
                            out.push(format!("c12.pad-broken {mode} {seed} {}", e.replace(' ', "_")));
                            continue;
                        }
                    };
                    let p = p_of_s(1.0 / eps);
                    let ss: Vec<String> = streams.iter().map(|s| nat_list(&s[..consumed_agg(eps, delta, sens, bn, s)])).collect();
                    out.push(format!(
                        "c12.pad agg {mode} {seed} {bn} 8 {} {} {sens} {} {} {} {} {} {}",
                        b(eps), b(delta), b(r_of(eps)), b(p), p_int(p), ss[0], ss[1], ss[2]
                    ));
                }
            }
            let _ = rep;
        }
    }
}

#[test]
fn verif_c12_dummies() {
    run_suite("c12_dummies", |rng, th| { let mut o = vec![]; pad::generate(rng, th, &mut o); o }, |req| {
        if req.starts_with("c12.pad-broken") { "stream-replay-failed".into() } else { pad::exec(req) }
    });
}

#[test]
fn verif_c12_noise_e2e() {
    run_suite("c12_noise_e2e", |rng, th| { let mut o = vec![]; e2e::generate(rng, th, &mut o); o }, |req| {
        if req.starts_with("c12.e2e-broken") { "stream-replay-failed".into() } else { e2e::exec(req) }
    });
}
