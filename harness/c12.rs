// Correspondence suites for property C12. Each suite is a #[test] fn named verif_c12_<suite>.
