// Correspondence / fault-injection suites for property C04 (MAC-checked arithmetic and openings).
//
//   c04_honest  real upgrade / multiply / linear ops / validate_record / reveal under TestWorld malicious contexts
//               with the MAC-based validator (Fp31, Fp32BitPrime, Fp25519), record counts on and around the
//               validator's batch size (records_per_batch = active work); plus the set of helper-to-helper
//               channels (gate, direction, bytes) such a run uses
//   c04_attack  the same runs with ONE message of one class altered by an additive error on the wire
//               (upgrade, multiply value part, multiply MAC part, propagate u, propagate w, reveal r,
//               check-zero multiply, check-zero reveal, final reveal), in the first and in later batches
//   c04_reveal  malicious_reveal alone: full / partial, one tampered copy
// (c04_pure lives in hooks/context.rs: it needs items private to protocol::context.)
//
// Requests:
//   c04.honest <field> <rpb> <count> <seed> <prog> <inputs>
//   c04.chan   <field> <rpb> <count> <seed> <prog> <inputs>
//   c04.attack <field> <rpb> <count> <seed> <prog> <inputs> <corrupt 1|2|3> <class> <target> <dir L|R|-> <delta>
//   c04.reveal <field> <seed> <x> <excluded 1|2|3|-> <attacker 1|2|3|-> <dest 1|2|3|-> <delta>
// prog   = gates joined by `.`: `u` upgrade the next input, `m<i>:<j>` multiply wires, `a<i>:<j>` add, `s<i>:<j>`
//          subtract, `n<i>` negate, `k<i>:<c>` multiply by the public constant c. Wires are numbered in order.
// inputs = one `v:v:…` group per record, groups joined by `,`.
// class  = `upgrade:<k>` | `mulx:<k>` | `mulrx:<k>` (k = gate index in prog) | `propu` | `propw` | `revealr` |
//          `czmul` | `czreveal` | `reveal:<k>` (opening of wire k);  target = record index (per-record classes)
//          or batch index (validator classes).
// Responses:
//   honest: `ok <w:w:…,…> mac` (opened wire values per record; `mac`: every rx reconstructs to r·x, all sharings
//           consistent, all helpers opened the same values)
//   attack: `abort:error` as soon as an honest helper returns an error (the error kind is not part of the response: the
//           record that runs a batch's validation gets MaliciousSecurityCheckFailed / MaliciousRevealFailed, the
//           other records of the batch get ParallelDZKPValidationFailed, and which one is first is a race)
//           | `abort:hang` (nobody returned an error but the honest helpers never finish: a helper that stopped
//           leaves unflushed messages behind) | `ok <values> -` | `untouched` (the targeted message was never seen)
//   chan:   sorted `gate|src>dst|bytes` joined by `;`
//   reveal: per helper `ok:<v>` | `none` | `fail`, joined by `,`
use std::{
    collections::BTreeMap,
    sync::{
        Arc, Mutex,
        atomic::{AtomicUsize, Ordering},
    },
};

use futures::{StreamExt, stream::FuturesUnordered};
use typenum::Unsigned;

use super::proto::*;
use crate::{
    error::Error,
    ff::{Field, Fp31, Fp32BitPrime, Serializable, ec_prime_field::Fp25519},
    helpers::{
        HelperIdentity, Role,
        in_memory_config::{InspectContext, StreamInterceptor},
    },
    protocol::{
        RecordId,
        basics::{SecureMul, malicious_reveal, reveal},
        context::{Context, UpgradableContext, UpgradedContext, Validator, upgrade::Upgradable},
    },
    secret_sharing::{
        SharedValue, SharedValueArray, Vectorizable,
        replicated::{
            ReplicatedSecretSharing,
            malicious::{AdditiveShare as MaliciousReplicated, ThisCodeIsAuthorizedToDowngradeFromMalicious},
            semi_honest::AdditiveShare as Replicated,
        },
    },
    seq_join::SeqJoin,
    test_fixture::{TestWorld, TestWorldConfig},
    utils::NonZeroU32PowerOfTwo,
};

// ------------------------------------------------------------------------------------------ values

/// decimal <-> little-endian bytes (Fp25519 does not fit a u128)
pub fn dec_to_le(s: &str, len: usize) -> Vec<u8> {
    let mut out = vec![0u8; len];
    for c in s.bytes() {
        assert!(c.is_ascii_digit(), "harness: bad number {s}");
        let mut carry = u32::from(c - b'0');
        for b in out.iter_mut() {
            let v = u32::from(*b) * 10 + carry;
            *b = (v & 0xff) as u8;
            carry = v >> 8;
        }
        assert_eq!(carry, 0, "harness: number {s} does not fit {len} bytes");
    }
    out
}

pub fn le_to_dec(bytes: &[u8]) -> String {
    let mut b = bytes.to_vec();
    let mut digits = vec![];
    while b.iter().any(|x| *x != 0) {
        let mut rem = 0u32;
        for x in b.iter_mut().rev() {
            let v = (rem << 8) | u32::from(*x);
            *x = (v / 10) as u8;
            rem = v % 10;
        }
        digits.push(char::from(b'0' + rem as u8));
    }
    if digits.is_empty() {
        return "0".into();
    }
    digits.iter().rev().collect()
}

pub fn val<F: Serializable>(s: &str) -> F {
    F::deserialize_from_slice(&dec_to_le(s, F::Size::USIZE))
}

pub fn show<F: Serializable>(v: &F) -> String {
    let mut buf = vec![0u8; F::Size::USIZE];
    v.serialize_to_slice(&mut buf);
    le_to_dec(&buf)
}

/// replicated sharing of `x` with shares drawn from `rng`
fn share3<F: Field + Serializable>(rng: &mut Rng, x: F) -> [Replicated<F>; 3] {
    let mut draw = || -> F {
        let mut b = rng.bytes(F::Size::USIZE);
        // keep prime-field encodings canonical: clear the top bits and fall back to small values
        let n = b.len();
        b[n - 1] &= 0x0f;
        if n == 1 {
            b[0] %= 31;
        } else if n == 4 {
            b[3] &= 0x7f;
        }
        F::deserialize_from_slice(&b)
    };
    let s0 = draw();
    let s1 = draw();
    let s2 = x - s0 - s1;
    [Replicated::new(s0, s1), Replicated::new(s1, s2), Replicated::new(s2, s0)]
}

// ------------------------------------------------------------------------------------------ programs

#[derive(Clone, Debug)]
enum GateOp {
    U,
    M(usize, usize),
    A(usize, usize),
    S(usize, usize),
    N(usize),
    K(usize, String),
}

fn parse_prog(s: &str) -> Vec<GateOp> {
    s.split('.')
        .map(|g| {
            let (op, rest) = g.split_at(1);
            let p: Vec<&str> = rest.split(':').collect();
            let n = |i: usize| p[i].parse::<usize>().unwrap();
            match op {
                "u" => GateOp::U,
                "m" => GateOp::M(n(0), n(1)),
                "a" => GateOp::A(n(0), n(1)),
                "s" => GateOp::S(n(0), n(1)),
                "n" => GateOp::N(n(0)),
                "k" => GateOp::K(n(0), p[1].to_string()),
                x => panic!("harness: bad gate {x}"),
            }
        })
        .collect()
}

#[derive(Clone)]
struct Spec {
    rpb: usize,
    count: usize,
    seed: u64,
    prog: Vec<GateOp>,
    /// inputs[record][k]
    inputs: Vec<Vec<String>>,
}

fn parse_spec(t: &[&str]) -> Spec {
    let inputs: Vec<Vec<String>> =
        t[6].split(',').map(|g| g.split(':').map(str::to_string).collect()).collect();
    let spec = Spec {
        rpb: t[2].parse().unwrap(),
        count: t[3].parse().unwrap(),
        seed: t[4].parse().unwrap(),
        prog: parse_prog(t[5]),
        inputs,
    };
    assert_eq!(spec.inputs.len(), spec.count, "harness: one input group per record");
    spec
}

// ------------------------------------------------------------------------------------------ interceptor

fn hid(h: HelperIdentity) -> u8 {
    if h == HelperIdentity::ONE {
        1
    } else if h == HelperIdentity::TWO {
        2
    } else {
        3
    }
}

/// one message to alter: the `size` bytes at byte `offset` of the channel whose gate ends with `suffix`,
/// from `src` to `dst`
struct Target {
    suffix: String,
    src: u8,
    dst: u8,
    offset: usize,
    size: usize,
}

/// Records the bytes seen per (gate, src, dst) channel and alters the targeted messages with `apply`.
struct Tamper {
    targets: Vec<Target>,
    apply: Box<dyn Fn(&mut [u8]) + Send + Sync>,
    seen: Mutex<BTreeMap<(String, u8, u8), usize>>,
    hits: AtomicUsize,
}

impl Tamper {
    fn new(targets: Vec<Target>, apply: Box<dyn Fn(&mut [u8]) + Send + Sync>) -> Self {
        Tamper { targets, apply, seen: Mutex::new(BTreeMap::new()), hits: AtomicUsize::new(0) }
    }

    fn recorder() -> Self {
        Self::new(vec![], Box::new(|_| {}))
    }
}

impl StreamInterceptor for Tamper {
    type Context = InspectContext;

    fn peek(&self, ctx: &InspectContext, data: &mut Vec<u8>) {
        if let InspectContext::MpcMessage { source, dest, gate, .. } = ctx {
            let key = (gate.as_ref().to_string(), hid(*source), hid(*dest));
            let before = {
                let mut seen = self.seen.lock().unwrap();
                let e = seen.entry(key.clone()).or_insert(0);
                let b = *e;
                *e += data.len();
                b
            };
            for t in &self.targets {
                if key.1 == t.src
                    && key.2 == t.dst
                    && key.0.ends_with(&t.suffix)
                    && t.offset >= before
                    && t.offset + t.size <= before + data.len()
                {
                    let i = t.offset - before;
                    (self.apply)(&mut data[i..i + t.size]);
                    self.hits.fetch_add(1, Ordering::SeqCst);
                }
            }
        }
    }
}

#[derive(Clone, Debug)]
struct Attack {
    corrupt: usize, // 0-based role index
    class: String,
    target: usize,
    dir: char,
}

/// left / right peer of role index h (H1's right is H2, its left is H3)
fn left_of(h: usize) -> usize {
    (h + 2) % 3
}
fn right_of(h: usize) -> usize {
    (h + 1) % 3
}

/// (gate suffix, destination role index, record id on that channel) of the attacked message
fn locate(a: &Attack) -> (String, usize, usize) {
    let c = a.corrupt;
    let (name, arg) = match a.class.split_once(':') {
        Some((n, k)) => (n, k.to_string()),
        None => (a.class.as_str(), String::new()),
    };
    let rev_dest = if a.dir == 'L' { left_of(c) } else { right_of(c) };
    match name {
        // semi-honest multiplications send to the left peer
        "upgrade" => (format!("/u{arg}/upgrade"), left_of(c), a.target),
        "mulx" => (format!("/m{arg}"), left_of(c), a.target),
        "mulrx" => (format!("/m{arg}/duplicate_multiply"), left_of(c), a.target),
        // propagate_u_and_w sends to the right peer: u at 2*offset, w at 2*offset + 1
        "propu" => ("/validate/propagate_u_and_w".into(), right_of(c), 2 * a.target),
        "propw" => ("/validate/propagate_u_and_w".into(), right_of(c), 2 * a.target + 1),
        "revealr" => ("/validate/reveal_r".into(), rev_dest, a.target),
        "czmul" => ("/validate/check_zero/multiply_with_r".into(), left_of(c), a.target),
        "czreveal" => ("/validate/check_zero/reveal_r".into(), rev_dest, a.target),
        "reveal" => (format!("/o{arg}"), rev_dest, a.target),
        x => panic!("harness: unknown attack class {x}"),
    }
}

// ------------------------------------------------------------------------------------------ runs

enum Outcome {
    /// every helper we waited for returned Ok: opened[record][wire] per helper index, mac flag
    Done(Vec<Option<Vec<Vec<String>>>>, bool),
    Abort(String),
}

fn kind(e: &Error) -> String {
    format!("{e:?}").chars().take_while(|c| c.is_alphanumeric() || *c == '_').collect()
}

/// lanes of a value written `l0+l1+…` (a single number = one lane)
fn lanes_of(s: &str) -> Vec<&str> {
    s.split('+').collect()
}

macro_rules! mac_runner {
    ($name:ident, $f:ty, $n:expr) => {
        async fn $name(spec: Spec, interceptor: Option<Arc<Tamper>>, corrupt: Option<usize>) -> Outcome {
            type F = $f;
            const N: usize = $n;
            type Arr = <F as Vectorizable<N>>::Array;
            let mut config = TestWorldConfig::default().with_seed(spec.seed);
            if let Some(i) = interceptor {
                config.stream_interceptor = i;
            }
            let world = TestWorld::new_with(config);
            let mut rng = Rng(spec.seed ^ 0xC04);
            // per helper: inputs[record][k], every lane shared independently
            let mut per_helper: [Vec<Vec<Replicated<F, N>>>; 3] = [vec![], vec![], vec![]];
            for rec in &spec.inputs {
                let mut row: [Vec<Replicated<F, N>>; 3] = [vec![], vec![], vec![]];
                for v in rec {
                    let lanes = lanes_of(v);
                    assert_eq!(lanes.len(), N, "harness: {N} lanes expected");
                    let sh: Vec<[Replicated<F>; 3]> = lanes.iter().map(|l| share3::<F>(&mut rng, val::<F>(l))).collect();
                    for h in 0..3 {
                        let l: Arr = SharedValueArray::from_fn(|i| sh[i][h].left());
                        let r: Arr = SharedValueArray::from_fn(|i| sh[i][h].right());
                        row[h].push(Replicated::<F, N>::new_arr(l, r));
                    }
                }
                for (h, r) in row.into_iter().enumerate() {
                    per_helper[h].push(r);
                }
            }
            let rpb = NonZeroU32PowerOfTwo::try_from(spec.rpb).expect("harness: rpb must be a power of two");
            let count = spec.count;
            let prog = &spec.prog;
            let mut futs = world
                .malicious_contexts()
                .into_iter()
                .zip(per_helper)
                .enumerate()
                .map(|(h, (ctx, inputs))| async move {
                    let ctx = ctx.set_active_work(rpb).set_total_records(count);
                    let v = ctx.validator::<F>();
                    let m_ctx = v.context();
                    let r = m_ctx
                        .try_join(inputs.into_iter().enumerate().map(|(i, ins)| {
                            let ctx = m_ctx.clone();
                            async move {
                                let rid = RecordId::from(i);
                                let mut wires: Vec<MaliciousReplicated<F, N>> = vec![];
                                let mut ins = ins.into_iter();
                                for (k, g) in prog.iter().enumerate() {
                                    let w = match g {
                                        GateOp::U => {
                                            ins.next()
                                                .expect("harness: not enough inputs")
                                                .upgrade(ctx.narrow(&format!("u{k}")), rid)
                                                .await?
                                        }
                                        GateOp::M(a, b) => {
                                            wires[*a].multiply(&wires[*b], ctx.narrow(&format!("m{k}")), rid).await?
                                        }
                                        GateOp::A(a, b) => &wires[*a] + &wires[*b],
                                        GateOp::S(a, b) => &wires[*a] - &wires[*b],
                                        GateOp::N(a) => -wires[*a].clone(),
                                        GateOp::K(a, c) => &wires[*a] * &val::<F>(c),
                                    };
                                    wires.push(w);
                                }
                                let r = ctx.r(rid);
                                ctx.validate_record(rid).await?;
                                let mut opened: Vec<Vec<F>> = vec![];
                                for (k, w) in wires.iter().enumerate() {
                                    let o: Arr = reveal(ctx.narrow(&format!("o{k}")), rid, w).await?;
                                    opened.push(o.into_iter().collect());
                                }
                                Ok::<_, Error>((wires, r, opened))
                            }
                        }))
                        .await;
                    drop(v);
                    (h, r)
                })
                .collect::<FuturesUnordered<_>>();
            let mut outs: [Option<Vec<(Vec<MaliciousReplicated<F, N>>, Replicated<F>, Vec<Vec<F>>)>>; 3] = [None, None, None];
            let needed = |h: usize| Some(h) != corrupt;
            while let Some((h, r)) = futs.next().await {
                match r {
                    Ok(v) => outs[h] = Some(v),
                    // an honest helper returning an error is the abort; the others may be left waiting for it
                    Err(e) if needed(h) => return Outcome::Abort(kind(&e)),
                    Err(_) => {}
                }
                if (0..3).all(|h| !needed(h) || outs[h].is_some()) {
                    break;
                }
            }
            drop(futs);
            let opened: Vec<Option<Vec<Vec<String>>>> = outs
                .iter()
                .map(|o| {
                    o.as_ref().map(|v| {
                        v.iter()
                            .map(|(_, _, op)| {
                                op.iter().map(|lanes| lanes.iter().map(show::<F>).collect::<Vec<_>>().join("+")).collect()
                            })
                            .collect()
                    })
                })
                .collect();
            // MAC / consistency check (meaningful when all three helpers finished)
            let mut mac_ok = outs.iter().all(Option::is_some);
            if mac_ok {
                let o: Vec<_> = outs.iter().map(|x| x.as_ref().unwrap()).collect();
                let vec_of = |a: &Arr| -> Vec<F> { a.clone().into_iter().collect() };
                for i in 0..count {
                    let r = o[0][i].1.left() + o[1][i].1.left() + o[2][i].1.left();
                    for h in 0..3 {
                        mac_ok &= o[h][i].1.right() == o[(h + 1) % 3][i].1.left();
                    }
                    for k in 0..o[0][i].0.len() {
                        let xl = |h: usize| vec_of(o[h][i].0[k].x().access_without_downgrade().left_arr());
                        let xr = |h: usize| vec_of(o[h][i].0[k].x().access_without_downgrade().right_arr());
                        let ml = |h: usize| vec_of(o[h][i].0[k].rx().left_arr());
                        let mr = |h: usize| vec_of(o[h][i].0[k].rx().right_arr());
                        for lane in 0..N {
                            let xv = xl(0)[lane] + xl(1)[lane] + xl(2)[lane];
                            let rxv = ml(0)[lane] + ml(1)[lane] + ml(2)[lane];
                            for h in 0..3 {
                                mac_ok &= xr(h)[lane] == xl((h + 1) % 3)[lane];
                                mac_ok &= mr(h)[lane] == ml((h + 1) % 3)[lane];
                            }
                            mac_ok &= rxv == r * xv;
                            mac_ok &= xv == o[0][i].2[k][lane];
                        }
                    }
                }
            }
            Outcome::Done(opened, mac_ok)
        }
    };
}

mac_runner!(run_fp31, Fp31, 1);
mac_runner!(run_fp32, Fp32BitPrime, 1);
mac_runner!(run_fp25519, Fp25519, 1);
mac_runner!(run_fp25519x16, Fp25519, 16);

/// (scalar field name, lanes) of the field named in a request
fn field_lanes(field: &str) -> (&str, usize) {
    match field.split_once('x') {
        Some((f, n)) => (f, n.parse().expect("harness: bad lane count")),
        None => (field, 1),
    }
}

fn size_of_field(field: &str) -> usize {
    match field_lanes(field).0 {
        "Fp31" => <Fp31 as Serializable>::Size::USIZE,
        "Fp32BitPrime" => <Fp32BitPrime as Serializable>::Size::USIZE,
        "Fp25519" => <Fp25519 as Serializable>::Size::USIZE,
        f => panic!("harness: unknown field {f}"),
    }
}

/// adds `delta` (lanes `d0+d1+…`) to a message of that many field elements
fn adder(field: &str, delta: &str) -> Box<dyn Fn(&mut [u8]) + Send + Sync> {
    fn mk<F: Field + Serializable>(delta: &str) -> Box<dyn Fn(&mut [u8]) + Send + Sync> {
        let d: Vec<F> = lanes_of(delta).iter().map(|l| val::<F>(l)).collect();
        let sz = F::Size::USIZE;
        Box::new(move |buf: &mut [u8]| {
            assert_eq!(buf.len(), sz * d.len());
            for (i, d) in d.iter().enumerate() {
                let slot = &mut buf[i * sz..(i + 1) * sz];
                let v = F::deserialize_from_slice(slot) + *d;
                v.serialize_to_slice(slot);
            }
        })
    }
    match field_lanes(field).0 {
        "Fp31" => mk::<Fp31>(delta),
        "Fp32BitPrime" => mk::<Fp32BitPrime>(delta),
        "Fp25519" => mk::<Fp25519>(delta),
        f => panic!("harness: unknown field {f}"),
    }
}

fn run_blocking(field: &str, spec: Spec, interceptor: Option<Arc<Tamper>>, corrupt: Option<usize>) -> Result<Outcome, String> {
    let field = field.to_string();
    // honest runs finish within a second or two; a run in which an honest helper stopped may leave the others
    // waiting for its (never flushed) messages: that hang is an abort, and is not waited for long
    let secs = if corrupt.is_some() { 12 } else { 60 };
    block_on_timeout(secs, async move {
        match field.as_str() {
            "Fp31" => run_fp31(spec, interceptor, corrupt).await,
            "Fp32BitPrime" => run_fp32(spec, interceptor, corrupt).await,
            "Fp25519" => run_fp25519(spec, interceptor, corrupt).await,
            "Fp25519x16" => run_fp25519x16(spec, interceptor, corrupt).await,
            f => panic!("harness: unknown field {f}"),
        }
    })
}

fn show_opened(o: &[Vec<String>]) -> String {
    o.iter().map(|r| r.join(":")).collect::<Vec<_>>().join(",")
}

/// `protocol/run-3/malicious_protocol/u0/upgrade` -> `malicious_protocol/u0/upgrade`
fn strip_run(g: &str) -> String {
    g.split('/').filter(|s| !s.is_empty()).skip(2).collect::<Vec<_>>().join("/")
}

fn exec_mac(req: &str) -> String {
    let t: Vec<&str> = req.split(' ').collect();
    let spec = parse_spec(&t);
    match t[0] {
        "c04.honest" => match run_blocking(t[1], spec, None, None) {
            Err(e) => e,
            Ok(Outcome::Abort(_)) => "abort".into(),
            Ok(Outcome::Done(opened, mac)) => {
                let o: Vec<_> = opened.iter().map(|x| x.as_ref().unwrap()).collect();
                if o[0] != o[1] || o[1] != o[2] {
                    return format!("disagree {}|{}|{}", show_opened(o[0]), show_opened(o[1]), show_opened(o[2]));
                }
                format!("ok {} {}", show_opened(o[0]), if mac { "mac" } else { "badmac" })
            }
        },
        "c04.chan" => {
            let rec = Arc::new(Tamper::recorder());
            match run_blocking(t[1], spec, Some(rec.clone()), None) {
                Err(e) => e,
                Ok(Outcome::Abort(_)) => "abort".into(),
                Ok(Outcome::Done(..)) => {
                    let mut agg: BTreeMap<(String, u8, u8), usize> = BTreeMap::new();
                    for ((g, s, d), n) in rec.seen.lock().unwrap().iter() {
                        *agg.entry((strip_run(g), *s, *d)).or_insert(0) += n;
                    }
                    agg.iter().map(|((g, s, d), n)| format!("{g}|{s}>{d}|{n}")).collect::<Vec<_>>().join(";")
                }
            }
        }
        "c04.attack" => {
            let corrupt = t[7].parse::<usize>().unwrap() - 1;
            let classes: Vec<&str> = t[8].split('&').collect();
            let dirs: Vec<&str> = t[10].split('&').collect();
            assert_eq!(classes.len(), dirs.len(), "harness: one direction per class");
            let size = size_of_field(t[1]);
            let lanes = field_lanes(t[1]).1;
            let mut targets = vec![];
            for (class, dir) in classes.iter().zip(&dirs) {
                let a = Attack {
                    corrupt,
                    class: (*class).to_string(),
                    target: t[9].parse().unwrap(),
                    dir: dir.chars().next().unwrap(),
                };
                let (suffix, dest, record) = locate(&a);
                // validator messages are scalar; per-record messages carry one element per lane
                let scalar = suffix.starts_with("/validate/");
                let msg = if scalar { size } else { size * lanes };
                targets.push(Target { suffix, src: corrupt as u8 + 1, dst: dest as u8 + 1, offset: record * msg, size: msg });
            }
            let n_targets = targets.len();
            let scalar_only = targets.iter().all(|x| x.size == size);
            let delta = if scalar_only { lanes_of(t[11])[0].to_string() } else { t[11].to_string() };
            let tamper = Arc::new(Tamper::new(targets, adder(t[1], &delta)));
            let out = run_blocking(t[1], spec, Some(tamper.clone()), Some(corrupt));
            let hits = tamper.hits.load(Ordering::SeqCst);
            match out {
                Err(_) => {
                    if hits == 0 {
                        "untouched".into()
                    } else {
                        "abort:hang".into()
                    }
                }
                Ok(Outcome::Abort(_)) => {
                    if hits == 0 {
                        "untouched".into()
                    } else {
                        "abort:error".into()
                    }
                }
                Ok(Outcome::Done(opened, _)) => {
                    if hits < n_targets {
                        return "untouched".into();
                    }
                    let o: Vec<_> = (0..3).filter(|h| *h != corrupt).map(|h| opened[h].as_ref().unwrap()).collect();
                    if o[0] != o[1] {
                        return format!("disagree {}|{}", show_opened(o[0]), show_opened(o[1]));
                    }
                    format!("ok {} -", show_opened(o[0]))
                }
            }
        }
        x => panic!("harness: unknown request {x}"),
    }
}

// ------------------------------------------------------------------------------------------ generators

const P32: u128 = 4_294_967_291;
/// order of the Ristretto group (modulus of Fp25519) minus one, decimal
const ELL_M1: &str = "7237005577332262213973186563042994240857116359379907606001950938285454250988";

fn rand_val(rng: &mut Rng, field: &str) -> String {
    match field {
        "Fp31" => (rng.next_u128() % 31).to_string(),
        "Fp32BitPrime" => (rng.next_u128() % P32).to_string(),
        // 124-bit values and a few large ones (canonical: below the group order)
        _ => {
            if rng.below(4) == 0 {
                let mut b = rng.bytes(32);
                b[31] &= 0x0f;
                le_to_dec(&b)
            } else {
                (rng.next_u128() >> 4).to_string()
            }
        }
    }
}

fn edge_vals(field: &str) -> Vec<String> {
    match field {
        "Fp31" => vec!["0".into(), "1".into(), "30".into(), "15".into(), "16".into()],
        "Fp32BitPrime" => vec!["0".into(), "1".into(), (P32 - 1).to_string(), (P32 / 2).to_string(), "2147483648".into()],
        _ => vec!["0".into(), "1".into(), ELL_M1.into(), "2".into(), "340282366920938463463374607431768211455".into()],
    }
}

fn nonzero_val(rng: &mut Rng, field: &str) -> String {
    loop {
        let v = rand_val(rng, field);
        if v != "0" {
            return v;
        }
    }
}

/// number of `u` gates of a program
fn n_inputs(prog: &str) -> usize {
    prog.split('.').filter(|g| *g == "u").count()
}

fn gen_inputs(rng: &mut Rng, field: &str, prog: &str, count: usize, edges_first: bool, nonzero: bool) -> String {
    let k = n_inputs(prog);
    let (base, lanes) = field_lanes(field);
    let e = edge_vals(base);
    (0..count)
        .map(|i| {
            (0..k)
                .map(|j| {
                    (0..lanes)
                        .map(|l| {
                            if edges_first && i < e.len() {
                                e[(i + j * 2 + l) % e.len()].clone()
                            } else if nonzero {
                                nonzero_val(rng, base)
                            } else {
                                rand_val(rng, base)
                            }
                        })
                        .collect::<Vec<_>>()
                        .join("+")
                })
                .collect::<Vec<_>>()
                .join(":")
        })
        .collect::<Vec<_>>()
        .join(",")
}

const PROGS: [&str; 6] = [
    "u.u.m0:1",
    "u",
    "u.u.m0:1.a2:0.s3:1.n4.m5:2",
    "u.u.u.a0:1.m3:2.m4:4.s5:0",
    "u.m0:0.m1:1.m2:0",
    "u.u.m0:1.m2:1.m3:0.a4:2",
];

fn k_prog(rng: &mut Rng, field: &str) -> String {
    format!("u.u.k0:{}.m2:1.k3:{}.a4:0", rand_val(rng, field), edge_vals(field)[2])
}

#[test]
fn verif_c04_honest() {
    run_suite(
        "c04_honest",
        |rng, thorough| {
            let mut out = vec![];
            for field in ["Fp31", "Fp32BitPrime", "Fp25519"] {
                // (records_per_batch = active work = 1 is not supported by the gateway: production clamps it to >= 2)
                // record counts on / around the batch size: partial only batch, exactly one batch, one record into
                // the next batch, several full batches, partial last batch
                let shapes: Vec<(usize, usize)> = if field == "Fp25519" && !thorough {
                    vec![(2, 1), (2, 3), (4, 4), (4, 9), (8, 7)]
                } else {
                    vec![(2, 1), (2, 2), (2, 3), (2, 5), (2, 6), (4, 1), (4, 3), (4, 4), (4, 5), (4, 8), (4, 9), (8, 7), (8, 8),
                        (8, 17), (16, 15), (16, 16), (16, 33)]
                };
                for (n, (rpb, count)) in shapes.iter().enumerate() {
                    let prog = if n % 4 == 3 { k_prog(rng, field) } else { PROGS[n % PROGS.len()].to_string() };
                    let inputs = gen_inputs(rng, field, &prog, *count, n % 2 == 0, false);
                    out.push(format!("c04.honest {field} {rpb} {count} {} {prog} {inputs}", rng.below(1 << 30)));
                }
                let extra = if thorough { 60 } else { 4 };
                for _ in 0..extra {
                    let rpb = 2usize << rng.usize_below(5);
                    let count = 1 + rng.usize_below(3 * rpb + 2);
                    let prog = if rng.below(3) == 0 { k_prog(rng, field) } else { rng.pick(&PROGS).to_string() };
                    let inputs = gen_inputs(rng, field, &prog, count, false, false);
                    out.push(format!("c04.honest {field} {rpb} {count} {} {prog} {inputs}", rng.below(1 << 30)));
                }
                if thorough {
                    for (rpb, count) in [(64, 129), (128, 128), (256, 300)] {
                        let prog = "u.u.m0:1";
                        let inputs = gen_inputs(rng, field, prog, count, true, false);
                        out.push(format!("c04.honest {field} {rpb} {count} {} {prog} {inputs}", rng.below(1 << 30)));
                    }
                }
                // channels used by a run
                for (rpb, count, prog) in [(2usize, 3usize, "u.u.m0:1"), (4, 4, "u.u.m0:1.a2:0.m3:2"), (2, 5, "u")] {
                    let inputs = gen_inputs(rng, field, prog, count, false, false);
                    out.push(format!("c04.chan {field} {rpb} {count} {} {prog} {inputs}", rng.below(1 << 30)));
                }
            }
            // the production shape: 16-lane Fp25519 shares (eval_dy_prf)
            let vshapes: &[(usize, usize, &str)] = if thorough {
                &[(2, 1, "u.u.m0:1"), (2, 3, "u.u.m0:1.a2:0.m3:1"), (4, 4, "u"), (4, 9, "u.u.m0:1.m2:1.m3:0.a4:2"), (8, 5, "u.m0:0.n1")]
            } else {
                &[(2, 1, "u.u.m0:1"), (2, 3, "u.u.m0:1.a2:0.m3:1"), (4, 5, "u.m0:0.n1")]
            };
            for (n, (rpb, count, prog)) in vshapes.iter().enumerate() {
                let inputs = gen_inputs(rng, "Fp25519x16", prog, *count, n == 0, false);
                out.push(format!("c04.honest Fp25519x16 {rpb} {count} {} {prog} {inputs}", rng.below(1 << 30)));
            }
            let inputs = gen_inputs(rng, "Fp25519x16", "u.u.m0:1", 3, false, false);
            out.push(format!("c04.chan Fp25519x16 2 3 {} u.u.m0:1 {inputs}", rng.below(1 << 30)));
            out
        },
        exec_mac,
    );
}

/// per-lane offsets (16 lanes) of the vectorised attacks
fn lane_deltas(rng: &mut Rng, pattern: usize) -> String {
    let mut d = vec!["0".to_string(); 16];
    match pattern {
        // +d on one lane, -d on another: the offsets cancel in the sum over the lanes
        0 => {
            d[0] = "1".into();
            d[1] = ELL_M1.into();
        }
        1 => {
            let i = rng.usize_below(16);
            let j = (i + 1 + rng.usize_below(15)) % 16;
            let v = (rng.next_u128() >> 4) + 1;
            d[i] = v.to_string();
            // ell - v
            let ell_m1 = dec_to_le(ELL_M1, 32);
            let mut neg = Fp25519::deserialize_from_slice(&ell_m1) + Fp25519::ONE;
            neg = neg - val::<Fp25519>(&v.to_string());
            d[j] = show::<Fp25519>(&neg);
        }
        // three lanes summing to zero: 1 + 1 + (ell - 2)
        2 => {
            d[3] = "1".into();
            d[7] = "1".into();
            d[15] = show::<Fp25519>(&(val::<Fp25519>(ELL_M1) - Fp25519::ONE));
        }
        // the same offset on every lane
        3 => {
            let v = nonzero_val(rng, "Fp25519");
            for x in d.iter_mut() {
                *x = v.clone();
            }
        }
        // a single lane
        _ => {
            d[rng.usize_below(16)] = nonzero_val(rng, "Fp25519");
        }
    }
    d.join("+")
}

#[test]
fn verif_c04_attack() {
    run_suite(
        "c04_attack",
        |rng, thorough| {
            let mut out = vec![];
            // false accepts have probability <= 3/|F|: only the large fields are sampled (Fp31 is analysed in Lean)
            let fields: &[&str] = if thorough { &["Fp32BitPrime", "Fp25519"] } else { &["Fp32BitPrime"] };
            let prog = "u.u.m0:1.a2:0.m3:1";
            // (class, is a reveal-type class)
            let classes: [(&str, bool); 13] = [
                ("upgrade:0", false), ("upgrade:1", false), ("mulx:2", false), ("mulrx:2", false), ("mulx:4", false),
                ("mulrx:4", false), ("propu", false), ("propw", false), ("revealr", true), ("czmul", false),
                ("czreveal", true), ("reveal:2", true), ("reveal:4", true),
            ];
            for field in fields {
                let reps = if thorough { 4 } else { 1 };
                for rep in 0..reps {
                    for (ci, (class, is_reveal)) in classes.iter().enumerate() {
                        // first batch and a later batch (the last one, so that nobody waits on a batch that
                        // can no longer complete)
                        for later in [false, true] {
                            let rpb = [2usize, 4, 8][(ci + rep) % 3];
                            let batches = if later { 2 + rng.usize_below(2) } else { 1 + rng.usize_below(2) };
                            let last_len = 1 + rng.usize_below(rpb);
                            let count = (batches - 1) * rpb + last_len;
                            let batch = if later { batches - 1 } else { 0 };
                            let per_record = !matches!(*class, "propu" | "propw" | "revealr" | "czmul" | "czreveal");
                            let target = if per_record {
                                let lo = batch * rpb;
                                let hi = ((batch + 1) * rpb).min(count);
                                lo + rng.usize_below(hi - lo)
                            } else {
                                batch
                            };
                            let corrupt = 1 + (ci + rep + usize::from(later)) % 3;
                            let dir = if *is_reveal { if rng.bool() { "L" } else { "R" } } else { "-" };
                            let delta = match (ci + rep) % 3 {
                                0 => "1".to_string(),
                                1 => if *field == "Fp25519" { ELL_M1.to_string() } else { (P32 - 1).to_string() },
                                _ => nonzero_val(rng, field),
                            };
                            let inputs = gen_inputs(rng, field, prog, count, false, true);
                            out.push(format!(
                                "c04.attack {field} {rpb} {count} {} {prog} {inputs} {corrupt} {class} {target} {dir} {delta}",
                                rng.below(1 << 30)
                            ));
                        }
                    }
                }
            }
            // two coordinated messages: the error on a multiplication message and the same error on the copy the
            // deviating helper later opens towards its right peer, so that the two-copy check of the opening has
            // nothing to complain about — only the MAC check can catch it. The attacked product is not consumed
            // by a later gate.
            for field in fields {
                for (k, (prog, classes, dirs)) in [
                    ("u.u.m0:1", "mulx:2&reveal:2", "-&R"),
                    ("u.u.m0:1.a2:0", "mulx:2&reveal:2&reveal:3", "-&R&R"),
                    ("u.u.u.m0:1.m3:2", "mulx:4&reveal:4", "-&R"),
                ]
                .iter()
                .enumerate()
                {
                    for later in [false, true] {
                        let rpb = [2usize, 4][k % 2];
                        let count = if later { rpb + 1 + rng.usize_below(rpb) } else { 1 + rng.usize_below(rpb) };
                        let target = if later { rpb + rng.usize_below(count - rpb) } else { rng.usize_below(count) };
                        let corrupt = 1 + (k + usize::from(later)) % 3;
                        let delta = nonzero_val(rng, field);
                        let inputs = gen_inputs(rng, field, prog, count, false, true);
                        out.push(format!(
                            "c04.attack {field} {rpb} {count} {} {prog} {inputs} {corrupt} {classes} {target} {dirs} {delta}",
                            rng.below(1 << 30)
                        ));
                    }
                }
            }
            // vectorised shares (16 lanes of Fp25519, the shape of eval_dy_prf): lane-correlated errors
            let field = "Fp25519x16";
            let vcases: [(&str, &str, &str); 6] = [
                ("u.u.m0:1", "mulx:2&reveal:2", "-&R"),
                ("u.u.m0:1", "mulx:2", "-"),
                ("u.u.m0:1", "mulrx:2", "-"),
                ("u.u.m0:1", "upgrade:0", "-"),
                ("u", "upgrade:0", "-"),
                ("u.u.m0:1.a2:0.m3:1", "mulx:4&reveal:4", "-&R"),
            ];
            let patterns = if thorough { 5 } else { 3 };
            for (k, (prog, classes, dirs)) in vcases.iter().enumerate() {
                for pattern in 0..patterns {
                    if !thorough && k >= 2 && pattern != k % 3 {
                        continue;
                    }
                    let later = (k + pattern) % 2 == 1;
                    let rpb = 2usize;
                    let count = if later { 3 } else { 1 + rng.usize_below(2) };
                    let target = if later { 2 } else { rng.usize_below(count) };
                    let corrupt = 1 + (k + pattern) % 3;
                    let delta = lane_deltas(rng, pattern);
                    let inputs = gen_inputs(rng, field, prog, count, false, true);
                    out.push(format!(
                        "c04.attack {field} {rpb} {count} {} {prog} {inputs} {corrupt} {classes} {target} {dirs} {delta}",
                        rng.below(1 << 30)
                    ));
                }
            }
            out
        },
        exec_mac,
    );
}

// ------------------------------------------------------------------------------------------ reveal

macro_rules! reveal_runner {
    ($name:ident, $f:ty) => {
        async fn $name(seed: u64, x: &str, excluded: Option<usize>, tamper: Option<Arc<Tamper>>) -> String {
            type F = $f;
            let mut config = TestWorldConfig::default().with_seed(seed);
            if let Some(t) = tamper {
                config.stream_interceptor = t;
            }
            let world = TestWorld::new_with(config);
            let mut rng = Rng(seed ^ 0xC04);
            let sh = share3::<F>(&mut rng, val::<F>(x));
            let futs = world.malicious_contexts().into_iter().zip(sh).map(|(ctx, s)| async move {
                let ctx = ctx.narrow("c04reveal").set_total_records(1usize);
                match malicious_reveal(ctx, RecordId::FIRST, excluded.map(|e| Role::all()[e]), &s).await {
                    Ok(Some(v)) => format!("ok:{}", show::<F>(&F::from_array(&v))),
                    Ok(None) => "none".to_string(),
                    Err(Error::MaliciousRevealFailed) => "fail".to_string(),
                    Err(e) => format!("err:{}", kind(&e)),
                }
            });
            futures::future::join_all(futs).await.join(",")
        }
    };
}

reveal_runner!(reveal_fp31, Fp31);
reveal_runner!(reveal_fp32, Fp32BitPrime);
reveal_runner!(reveal_fp25519, Fp25519);

fn opt_role(s: &str) -> Option<usize> {
    if s == "-" { None } else { Some(s.parse::<usize>().unwrap() - 1) }
}

fn exec_reveal(req: &str) -> String {
    let t: Vec<&str> = req.split(' ').collect();
    let field = t[1].to_string();
    let seed: u64 = t[2].parse().unwrap();
    let x = t[3].to_string();
    let excluded = opt_role(t[4]);
    let tamper = match (opt_role(t[5]), opt_role(t[6])) {
        (Some(at), Some(dest)) => {
            let size = size_of_field(&field);
            Some(Arc::new(Tamper::new(
                vec![Target { suffix: "/c04reveal".into(), src: at as u8 + 1, dst: dest as u8 + 1, offset: 0, size }],
                adder(&field, t[7]),
            )))
        }
        _ => None,
    };
    let r = block_on_timeout(40, async move {
        match field.as_str() {
            "Fp31" => reveal_fp31(seed, &x, excluded, tamper).await,
            "Fp32BitPrime" => reveal_fp32(seed, &x, excluded, tamper).await,
            "Fp25519" => reveal_fp25519(seed, &x, excluded, tamper).await,
            f => panic!("harness: unknown field {f}"),
        }
    });
    r.unwrap_or_else(|e| e)
}

#[test]
fn verif_c04_reveal() {
    run_suite(
        "c04_reveal",
        |rng, thorough| {
            let mut out = vec![];
            for field in ["Fp31", "Fp32BitPrime", "Fp25519"] {
                let e = edge_vals(field);
                // honest: full and partial reveal
                for ex in ["-", "1", "2", "3"] {
                    for x in [e[0].clone(), e[1].clone(), e[2].clone(), rand_val(rng, field)] {
                        out.push(format!("c04.reveal {field} {} {x} {ex} - - 0", rng.below(1 << 30)));
                    }
                }
                // every (attacker, destination, excluded) combination with attacker != destination
                for at in 1..=3usize {
                    for dest in 1..=3usize {
                        if at == dest {
                            continue;
                        }
                        for ex in ["-", "1", "2", "3"] {
                            let reps = if thorough { 4 } else { 1 };
                            for k in 0..reps {
                                let delta = match (k + at + dest) % 3 {
                                    0 => "1".to_string(),
                                    1 => e[2].clone(),
                                    _ => nonzero_val(rng, field),
                                };
                                let x = if k == 0 { e[(at + dest) % e.len()].clone() } else { rand_val(rng, field) };
                                out.push(format!("c04.reveal {field} {} {x} {ex} {at} {dest} {delta}", rng.below(1 << 30)));
                            }
                        }
                    }
                }
                // a zero "error" changes nothing
                out.push(format!("c04.reveal {field} {} 7 - 2 3 0", rng.below(1 << 30)));
            }
            out
        },
        exec_reveal,
    );
}
