// Correspondence / fault-injection suites for property C04 (MAC-checked arithmetic and openings).
//
//   c04_honest  real upgrade / multiply / linear ops / validate_record / reveal under TestWorld malicious contexts
//               with the MAC-based validator (Fp31, Fp32BitPrime, Fp25519), record counts on and around the
//               validator's batch size (records_per_batch = active work); plus the set of helper-to-helper
//               channels (gate, direction, bytes) such a run uses
//   c04_attack  the same runs with ONE message of one class altered by an additive error on the wire
//               (upgrade, multiply value part, multiply MAC part, propagate u, propagate w, reveal r,
//               check-zero multiply, check-zero reveal, final reveal), in the first and in later batches
//               plus the ADAPTIVE multi-batch attack (c04.adaptive): the deviating helper reads the key r' opened by the
//               validation of an earlier batch off its own reveal-r traffic and sends (d, r'*d) on the multiply /
//               duplicate-multiply messages of a record of a later batch; and the keys the batches use (c04.rbatch)
//   c04_reveal  malicious_reveal alone: full / partial, one tampered copy; and EVERY `impl Reveal<Ctx> for Sharing` of
//               basics/reveal.rs through its trait entry points on the real contexts (c04.revimpl)
// (c04_pure lives in hooks/context.rs: it needs items private to protocol::context.)
//
// Requests:
//   c04.honest <field> <rpb> <count> <seed> <prog> <inputs>
//   c04.chan   <field> <rpb> <count> <seed> <prog> <inputs>
//   c04.attack <field> <rpb> <count> <seed> <prog> <inputs> <corrupt 1|2|3> <class> <target> <dir L|R|-> <delta>
//   c04.reveal <field> <seed> <x> <excluded 1|2|3|-> <attacker 1|2|3|-> <dest 1|2|3|-> <delta>
//   c04.revimpl <ctx> <sharing> <vtype> <entry reveal|partial|generic|method> <seed> <x> <excluded> <attacker> <dest> <delta>
//               ctx = context alias of protocol/context/mod.rs, sharing = Replicated | MaliciousReplicated |
//               BitDecomposed<Replicated> | BitDecomposed<MaliciousReplicated>; vtype = value type (`x<N>` = N lanes);
//               x / delta: `+`-joined lanes (prime fields; RP25519: scalars s standing for the points s*G) or ONE number
//               (Boolean arrays: the integer of the little-endian bytes); BitDecomposed: `+`-joined elements
//   c04.revimpls  the `ctx/sharing` instances the suite drives
//   c04.prf <lanes 1|16> <seed> <x lanes> <k> <attacker|-> <dest|-> <R|z> <delta lanes>   the real eval_dy_prf (MAC
//               context, one record) with the copy of the opening of R = g^r (R: delta = scalars s for the points s*G)
//               or of z that <attacker> sends to <dest> altered
//   c04.adaptive <field> <rpb> <count> <seed> <prog> <inputs> <corrupt> <k> <target record> <key batch> <d> <w,w,…>
//               messages of gate k (a multiplication) of the target record get +d (value part) and +r'*d (MAC part), r' =
//               the key opened by <key batch> (earlier than the target's batch); the deviating helper's openings of
//               wires w,… towards its right peer get +d
//   c04.rbatch <field> <rpb> <count> <seed> <prog> <inputs>   honest run -> `r <key seen by record 0>,<record 1>,…`
// prog   = gates joined by `.`: `u` upgrade the next input, `m<i>:<j>` multiply wires, `a<i>:<j>` add, `s<i>:<j>`
//          subtract, `n<i>` negate, `k<i>:<c>` multiply by the public constant c. Wires are numbered in order.
// inputs = one `v:v:…` group per record, groups joined by `,`.
// class  = `upgrade:<k>` | `mulx:<k>` | `mulrx:<k>` (k = gate index in prog) | `propu` | `propw` | `revealr` |
//          `czmul` | `czreveal` | `reveal:<k>` (opening of wire k);  target = record index (per-record classes)
//          or batch index (validator classes).
// Responses:
//   honest: `ok <w:w:…,…> mac` (opened wire values per record; `mac`: every rx reconstructs to r·x, all sharings
//           consistent, all helpers opened the same values)
//   attack: `abort:error` as soon as an honest helper returns an error (the error kind is not part of the response: the
//           record that runs a batch's validation gets MaliciousSecurityCheckFailed / MaliciousRevealFailed, the
//           other records of the batch get ParallelDZKPValidationFailed, and which one is first is a race)
//           | `abort:hang` (nobody returned an error but the honest helpers never finish: a helper that stopped
//           leaves unflushed messages behind) | `ok <values> -` | `untouched` (the targeted message was never seen)
//   chan:   sorted `gate|src>dst|bytes` joined by `;`
//   reveal: per helper `ok:<v>` | `none` | `fail`, joined by `,`
use std::{
    collections::BTreeMap,
    sync::{
        Arc, Mutex,
        atomic::{AtomicUsize, Ordering},
    },
};

use futures::{StreamExt, stream::FuturesUnordered};
use typenum::Unsigned;

use super::proto::*;
use crate::{
    error::Error,
    ff::{
        Field, Fp31, Fp32BitPrime, Serializable,
        boolean::Boolean,
        boolean_array::{BA8, BA64},
        curve_points::RP25519,
        ec_prime_field::Fp25519,
    },
    helpers::{
        HelperIdentity, Role,
        in_memory_config::{InspectContext, StreamInterceptor},
    },
    protocol::{
        RecordId,
        basics::{Reveal, SecureMul, malicious_reveal, partial_reveal, reveal},
        boolean::step::TwoHundredFiftySixBitOpStep,
        ipa_prf::{prf_eval::eval_dy_prf, step::PrfStep},
        context::{
            Context, TEST_DZKP_STEPS, UpgradableContext, UpgradedContext, Validator, dzkp_validator::DZKPValidator,
            upgrade::Upgradable,
        },
    },
    secret_sharing::{
        BitDecomposed, SharedValue, SharedValueArray, Vectorizable,
        replicated::{
            ReplicatedSecretSharing,
            malicious::{AdditiveShare as MaliciousReplicated, ThisCodeIsAuthorizedToDowngradeFromMalicious},
            semi_honest::AdditiveShare as Replicated,
        },
    },
    seq_join::SeqJoin,
    test_fixture::{TestWorld, TestWorldConfig, WithShards},
    utils::NonZeroU32PowerOfTwo,
};

// ------------------------------------------------------------------------------------------ values

/// decimal <-> little-endian bytes (Fp25519 does not fit a u128)
pub fn dec_to_le(s: &str, len: usize) -> Vec<u8> {
    let mut out = vec![0u8; len];
    for c in s.bytes() {
        assert!(c.is_ascii_digit(), "harness: bad number {s}");
        let mut carry = u32::from(c - b'0');
        for b in out.iter_mut() {
            let v = u32::from(*b) * 10 + carry;
            *b = (v & 0xff) as u8;
            carry = v >> 8;
        }
        assert_eq!(carry, 0, "harness: number {s} does not fit {len} bytes");
    }
    out
}

pub fn le_to_dec(bytes: &[u8]) -> String {
    let mut b = bytes.to_vec();
    let mut digits = vec![];
    while b.iter().any(|x| *x != 0) {
        let mut rem = 0u32;
        for x in b.iter_mut().rev() {
            let v = (rem << 8) | u32::from(*x);
            *x = (v / 10) as u8;
            rem = v % 10;
        }
        digits.push(char::from(b'0' + rem as u8));
    }
    if digits.is_empty() {
        return "0".into();
    }
    digits.iter().rev().collect()
}

pub fn val<F: Serializable>(s: &str) -> F {
    F::deserialize_from_slice(&dec_to_le(s, F::Size::USIZE))
}

pub fn show<F: Serializable>(v: &F) -> String {
    let mut buf = vec![0u8; F::Size::USIZE];
    v.serialize_to_slice(&mut buf);
    le_to_dec(&buf)
}

/// replicated sharing of `x` with shares drawn from `rng`
fn share3<F: Field + Serializable>(rng: &mut Rng, x: F) -> [Replicated<F>; 3] {
    let mut draw = || -> F {
        let mut b = rng.bytes(F::Size::USIZE);
        // keep prime-field encodings canonical: clear the top bits and fall back to small values
        let n = b.len();
        b[n - 1] &= 0x0f;
        if n == 1 {
            b[0] %= 31;
        } else if n == 4 {
            b[3] &= 0x7f;
        }
        F::deserialize_from_slice(&b)
    };
    let s0 = draw();
    let s1 = draw();
    let s2 = x - s0 - s1;
    [Replicated::new(s0, s1), Replicated::new(s1, s2), Replicated::new(s2, s0)]
}

// ------------------------------------------------------------------------------------------ programs

#[derive(Clone, Debug)]
enum GateOp {
    U,
    M(usize, usize),
    A(usize, usize),
    S(usize, usize),
    N(usize),
    K(usize, String),
}

fn parse_prog(s: &str) -> Vec<GateOp> {
    s.split('.')
        .map(|g| {
            let (op, rest) = g.split_at(1);
            let p: Vec<&str> = rest.split(':').collect();
            let n = |i: usize| p[i].parse::<usize>().unwrap();
            match op {
                "u" => GateOp::U,
                "m" => GateOp::M(n(0), n(1)),
                "a" => GateOp::A(n(0), n(1)),
                "s" => GateOp::S(n(0), n(1)),
                "n" => GateOp::N(n(0)),
                "k" => GateOp::K(n(0), p[1].to_string()),
                x => panic!("harness: bad gate {x}"),
            }
        })
        .collect()
}

#[derive(Clone)]
struct Spec {
    rpb: usize,
    count: usize,
    seed: u64,
    prog: Vec<GateOp>,
    /// inputs[record][k]
    inputs: Vec<Vec<String>>,
}

fn parse_spec(t: &[&str]) -> Spec {
    let inputs: Vec<Vec<String>> =
        t[6].split(',').map(|g| g.split(':').map(str::to_string).collect()).collect();
    let spec = Spec {
        rpb: t[2].parse().unwrap(),
        count: t[3].parse().unwrap(),
        seed: t[4].parse().unwrap(),
        prog: parse_prog(t[5]),
        inputs,
    };
    assert_eq!(spec.inputs.len(), spec.count, "harness: one input group per record");
    spec
}

// ------------------------------------------------------------------------------------------ interceptor

fn hid(h: HelperIdentity) -> u8 {
    if h == HelperIdentity::ONE {
        1
    } else if h == HelperIdentity::TWO {
        2
    } else {
        3
    }
}

/// one message to alter: the `size` bytes at byte `offset` of the channel whose gate ends with `suffix`,
/// from `src` to `dst`
struct Target {
    suffix: String,
    src: u8,
    dst: u8,
    offset: usize,
    size: usize,
}

/// messages captured so far (one slot per `sniff` entry)
type Captured = [Option<Vec<u8>>];

/// Records the bytes seen per (gate, src, dst) channel, copies the `sniff` messages and alters the targeted messages
/// with `apply(index of the target, message, captured)` (which may decline: `false` = not applied).
struct Tamper {
    targets: Vec<Target>,
    apply: Box<dyn Fn(usize, &mut [u8], &Captured) -> bool + Send + Sync>,
    sniff: Vec<Target>,
    captured: Mutex<Vec<Option<Vec<u8>>>>,
    seen: Mutex<BTreeMap<(String, u8, u8), usize>>,
    hits: AtomicUsize,
}

impl Tamper {
    fn new(targets: Vec<Target>, apply: Box<dyn Fn(&mut [u8]) + Send + Sync>) -> Self {
        Self::adaptive(
            targets,
            vec![],
            Box::new(move |_, b, _| {
                apply(b);
                true
            }),
        )
    }

    fn adaptive(
        targets: Vec<Target>,
        sniff: Vec<Target>,
        apply: Box<dyn Fn(usize, &mut [u8], &Captured) -> bool + Send + Sync>,
    ) -> Self {
        let n = sniff.len();
        Tamper {
            targets,
            apply,
            sniff,
            captured: Mutex::new(vec![None; n]),
            seen: Mutex::new(BTreeMap::new()),
            hits: AtomicUsize::new(0),
        }
    }

    fn recorder() -> Self {
        Self::new(vec![], Box::new(|_| {}))
    }
}

impl Target {
    fn covers(&self, key: &(String, u8, u8), before: usize, len: usize) -> Option<usize> {
        (key.1 == self.src
            && key.2 == self.dst
            && key.0.ends_with(&self.suffix)
            && self.offset >= before
            && self.offset + self.size <= before + len)
            .then(|| self.offset - before)
    }
}

impl StreamInterceptor for Tamper {
    type Context = InspectContext;

    fn peek(&self, ctx: &InspectContext, data: &mut Vec<u8>) {
        if let InspectContext::MpcMessage { source, dest, gate, .. } = ctx {
            let key = (gate.as_ref().to_string(), hid(*source), hid(*dest));
            let before = {
                let mut seen = self.seen.lock().unwrap();
                let e = seen.entry(key.clone()).or_insert(0);
                let b = *e;
                *e += data.len();
                b
            };
            for (k, t) in self.sniff.iter().enumerate() {
                if let Some(i) = t.covers(&key, before, data.len()) {
                    self.captured.lock().unwrap()[k] = Some(data[i..i + t.size].to_vec());
                }
            }
            for (k, t) in self.targets.iter().enumerate() {
                if let Some(i) = t.covers(&key, before, data.len()) {
                    let captured = self.captured.lock().unwrap().clone();
                    if (self.apply)(k, &mut data[i..i + t.size], &captured) {
                        self.hits.fetch_add(1, Ordering::SeqCst);
                    }
                }
            }
        }
    }
}

#[derive(Clone, Debug)]
struct Attack {
    corrupt: usize, // 0-based role index
    class: String,
    target: usize,
    dir: char,
}

/// left / right peer of role index h (H1's right is H2, its left is H3)
fn left_of(h: usize) -> usize {
    (h + 2) % 3
}
fn right_of(h: usize) -> usize {
    (h + 1) % 3
}

/// (gate suffix, destination role index, record id on that channel) of the attacked message
fn locate(a: &Attack) -> (String, usize, usize) {
    let c = a.corrupt;
    let (name, arg) = match a.class.split_once(':') {
        Some((n, k)) => (n, k.to_string()),
        None => (a.class.as_str(), String::new()),
    };
    let rev_dest = if a.dir == 'L' { left_of(c) } else { right_of(c) };
    match name {
        // semi-honest multiplications send to the left peer
        "upgrade" => (format!("/u{arg}/upgrade"), left_of(c), a.target),
        "mulx" => (format!("/m{arg}"), left_of(c), a.target),
        "mulrx" => (format!("/m{arg}/duplicate_multiply"), left_of(c), a.target),
        // propagate_u_and_w sends to the right peer: u at 2*offset, w at 2*offset + 1
        "propu" => ("/validate/propagate_u_and_w".into(), right_of(c), 2 * a.target),
        "propw" => ("/validate/propagate_u_and_w".into(), right_of(c), 2 * a.target + 1),
        "revealr" => ("/validate/reveal_r".into(), rev_dest, a.target),
        "czmul" => ("/validate/check_zero/multiply_with_r".into(), left_of(c), a.target),
        "czreveal" => ("/validate/check_zero/reveal_r".into(), rev_dest, a.target),
        "reveal" => (format!("/o{arg}"), rev_dest, a.target),
        x => panic!("harness: unknown attack class {x}"),
    }
}

// ------------------------------------------------------------------------------------------ runs

enum Outcome {
    /// every helper we waited for returned Ok: opened[record][wire] per helper index, mac flag, and (when all three
    /// helpers finished) the reconstructed key `r` each record computed under
    Done(Vec<Option<Vec<Vec<String>>>>, bool, Vec<String>),
    Abort(String),
}

fn kind(e: &Error) -> String {
    format!("{e:?}").chars().take_while(|c| c.is_alphanumeric() || *c == '_').collect()
}

/// lanes of a value written `l0+l1+…` (a single number = one lane)
fn lanes_of(s: &str) -> Vec<&str> {
    s.split('+').collect()
}

macro_rules! mac_runner {
    ($name:ident, $f:ty, $n:expr) => {
        async fn $name(spec: Spec, interceptor: Option<Arc<Tamper>>, corrupt: Option<usize>) -> Outcome {
            type F = $f;
            const N: usize = $n;
            type Arr = <F as Vectorizable<N>>::Array;
            let mut config = TestWorldConfig::default().with_seed(spec.seed);
            if let Some(i) = interceptor {
                config.stream_interceptor = i;
            }
            let world = TestWorld::new_with(config);
            let mut rng = Rng(spec.seed ^ 0xC04);
            // per helper: inputs[record][k], every lane shared independently
            let mut per_helper: [Vec<Vec<Replicated<F, N>>>; 3] = [vec![], vec![], vec![]];
            for rec in &spec.inputs {
                let mut row: [Vec<Replicated<F, N>>; 3] = [vec![], vec![], vec![]];
                for v in rec {
                    let lanes = lanes_of(v);
                    assert_eq!(lanes.len(), N, "harness: {N} lanes expected");
                    let sh: Vec<[Replicated<F>; 3]> = lanes.iter().map(|l| share3::<F>(&mut rng, val::<F>(l))).collect();
                    for h in 0..3 {
                        let l: Arr = SharedValueArray::from_fn(|i| sh[i][h].left());
                        let r: Arr = SharedValueArray::from_fn(|i| sh[i][h].right());
                        row[h].push(Replicated::<F, N>::new_arr(l, r));
                    }
                }
                for (h, r) in row.into_iter().enumerate() {
                    per_helper[h].push(r);
                }
            }
            let rpb = NonZeroU32PowerOfTwo::try_from(spec.rpb).expect("harness: rpb must be a power of two");
            let count = spec.count;
            let prog = &spec.prog;
            let mut futs = world
                .malicious_contexts()
                .into_iter()
                .zip(per_helper)
                .enumerate()
                .map(|(h, (ctx, inputs))| async move {
                    let ctx = ctx.set_active_work(rpb).set_total_records(count);
                    let v = ctx.validator::<F>();
                    let m_ctx = v.context();
                    let r = m_ctx
                        .try_join(inputs.into_iter().enumerate().map(|(i, ins)| {
                            let ctx = m_ctx.clone();
                            async move {
                                let rid = RecordId::from(i);
                                let mut wires: Vec<MaliciousReplicated<F, N>> = vec![];
                                let mut ins = ins.into_iter();
                                for (k, g) in prog.iter().enumerate() {
                                    let w = match g {
                                        GateOp::U => {
                                            ins.next()
                                                .expect("harness: not enough inputs")
                                                .upgrade(ctx.narrow(&format!("u{k}")), rid)
                                                .await?
                                        }
                                        GateOp::M(a, b) => {
                                            wires[*a].multiply(&wires[*b], ctx.narrow(&format!("m{k}")), rid).await?
                                        }
                                        GateOp::A(a, b) => &wires[*a] + &wires[*b],
                                        GateOp::S(a, b) => &wires[*a] - &wires[*b],
                                        GateOp::N(a) => -wires[*a].clone(),
                                        GateOp::K(a, c) => &wires[*a] * &val::<F>(c),
                                    };
                                    wires.push(w);
                                }
                                let r = ctx.r(rid);
                                ctx.validate_record(rid).await?;
                                let mut opened: Vec<Vec<F>> = vec![];
                                for (k, w) in wires.iter().enumerate() {
                                    let o: Arr = reveal(ctx.narrow(&format!("o{k}")), rid, w).await?;
                                    opened.push(o.into_iter().collect());
                                }
                                Ok::<_, Error>((wires, r, opened))
                            }
                        }))
                        .await;
                    drop(v);
                    (h, r)
                })
                .collect::<FuturesUnordered<_>>();
            let mut outs: [Option<Vec<(Vec<MaliciousReplicated<F, N>>, Replicated<F>, Vec<Vec<F>>)>>; 3] = [None, None, None];
            let needed = |h: usize| Some(h) != corrupt;
            while let Some((h, r)) = futs.next().await {
                match r {
                    Ok(v) => outs[h] = Some(v),
                    // an honest helper returning an error is the abort; the others may be left waiting for it
                    Err(e) if needed(h) => return Outcome::Abort(kind(&e)),
                    Err(_) => {}
                }
                if (0..3).all(|h| !needed(h) || outs[h].is_some()) {
                    break;
                }
            }
            drop(futs);
            let opened: Vec<Option<Vec<Vec<String>>>> = outs
                .iter()
                .map(|o| {
                    o.as_ref().map(|v| {
                        v.iter()
                            .map(|(_, _, op)| {
                                op.iter().map(|lanes| lanes.iter().map(show::<F>).collect::<Vec<_>>().join("+")).collect()
                            })
                            .collect()
                    })
                })
                .collect();
            // MAC / consistency check (meaningful when all three helpers finished)
            let mut mac_ok = outs.iter().all(Option::is_some);
            let mut keys: Vec<String> = vec![];
            if mac_ok {
                let o: Vec<_> = outs.iter().map(|x| x.as_ref().unwrap()).collect();
                let vec_of = |a: &Arr| -> Vec<F> { a.clone().into_iter().collect() };
                for i in 0..count {
                    let r = o[0][i].1.left() + o[1][i].1.left() + o[2][i].1.left();
                    keys.push(show::<F>(&r));
                    for h in 0..3 {
                        mac_ok &= o[h][i].1.right() == o[(h + 1) % 3][i].1.left();
                    }
                    for k in 0..o[0][i].0.len() {
                        let xl = |h: usize| vec_of(o[h][i].0[k].x().access_without_downgrade().left_arr());
                        let xr = |h: usize| vec_of(o[h][i].0[k].x().access_without_downgrade().right_arr());
                        let ml = |h: usize| vec_of(o[h][i].0[k].rx().left_arr());
                        let mr = |h: usize| vec_of(o[h][i].0[k].rx().right_arr());
                        for lane in 0..N {
                            let xv = xl(0)[lane] + xl(1)[lane] + xl(2)[lane];
                            let rxv = ml(0)[lane] + ml(1)[lane] + ml(2)[lane];
                            for h in 0..3 {
                                mac_ok &= xr(h)[lane] == xl((h + 1) % 3)[lane];
                                mac_ok &= mr(h)[lane] == ml((h + 1) % 3)[lane];
                            }
                            mac_ok &= rxv == r * xv;
                            mac_ok &= xv == o[0][i].2[k][lane];
                        }
                    }
                }
            }
            Outcome::Done(opened, mac_ok, keys)
        }
    };
}

mac_runner!(run_fp31, Fp31, 1);
mac_runner!(run_fp32, Fp32BitPrime, 1);
mac_runner!(run_fp25519, Fp25519, 1);
mac_runner!(run_fp25519x16, Fp25519, 16);

/// (scalar field name, lanes) of the field named in a request
fn field_lanes(field: &str) -> (&str, usize) {
    match field.split_once('x') {
        Some((f, n)) => (f, n.parse().expect("harness: bad lane count")),
        None => (field, 1),
    }
}

fn size_of_field(field: &str) -> usize {
    match field_lanes(field).0 {
        "Fp31" => <Fp31 as Serializable>::Size::USIZE,
        "Fp32BitPrime" => <Fp32BitPrime as Serializable>::Size::USIZE,
        "Fp25519" => <Fp25519 as Serializable>::Size::USIZE,
        f => panic!("harness: unknown field {f}"),
    }
}

/// adds `delta` (lanes `d0+d1+…`) to a message of that many field elements
fn adder(field: &str, delta: &str) -> Box<dyn Fn(&mut [u8]) + Send + Sync> {
    fn mk<F: Field + Serializable>(delta: &str) -> Box<dyn Fn(&mut [u8]) + Send + Sync> {
        let d: Vec<F> = lanes_of(delta).iter().map(|l| val::<F>(l)).collect();
        let sz = F::Size::USIZE;
        Box::new(move |buf: &mut [u8]| {
            assert_eq!(buf.len(), sz * d.len());
            for (i, d) in d.iter().enumerate() {
                let slot = &mut buf[i * sz..(i + 1) * sz];
                let v = F::deserialize_from_slice(slot) + *d;
                v.serialize_to_slice(slot);
            }
        })
    }
    match field_lanes(field).0 {
        "Fp31" => mk::<Fp31>(delta),
        "Fp32BitPrime" => mk::<Fp32BitPrime>(delta),
        "Fp25519" => mk::<Fp25519>(delta),
        f => panic!("harness: unknown field {f}"),
    }
}

/// number of runs that hit their wall-clock limit so far: honest runs / runs with an altered message
static HONEST_HANGS: AtomicUsize = AtomicUsize::new(0);
static ATTACK_HANGS: AtomicUsize = AtomicUsize::new(0);

fn run_blocking(field: &str, spec: Spec, interceptor: Option<Arc<Tamper>>, corrupt: Option<usize>) -> Result<Outcome, String> {
    let field = field.to_string();
    // honest runs finish within a second or two; a run in which an honest helper stopped may leave the others
    // waiting for its (never flushed) messages: that hang is an abort, and is not waited for long.
    // If runs keep hanging (a change that blocks every run), the limit drops so that the suite still ends.
    let counter = if corrupt.is_some() { &ATTACK_HANGS } else { &HONEST_HANGS };
    let secs = match (corrupt.is_some(), counter.load(Ordering::SeqCst)) {
        (true, 0..=5) => 12,
        (false, 0..=1) => 40,
        _ => 5,
    };
    let r = block_on_timeout(secs, async move {
        match field.as_str() {
            "Fp31" => run_fp31(spec, interceptor, corrupt).await,
            "Fp32BitPrime" => run_fp32(spec, interceptor, corrupt).await,
            "Fp25519" => run_fp25519(spec, interceptor, corrupt).await,
            "Fp25519x16" => run_fp25519x16(spec, interceptor, corrupt).await,
            f => panic!("harness: unknown field {f}"),
        }
    });
    if r.is_err() {
        counter.fetch_add(1, Ordering::SeqCst);
    }
    r
}

fn show_opened(o: &[Vec<String>]) -> String {
    o.iter().map(|r| r.join(":")).collect::<Vec<_>>().join(",")
}

/// `protocol/run-3/malicious_protocol/u0/upgrade` -> `malicious_protocol/u0/upgrade`
fn strip_run(g: &str) -> String {
    g.split('/').filter(|s| !s.is_empty()).skip(2).collect::<Vec<_>>().join("/")
}

fn exec_mac(req: &str) -> String {
    let t: Vec<&str> = req.split(' ').collect();
    let spec = parse_spec(&t);
    match t[0] {
        "c04.honest" => match run_blocking(t[1], spec, None, None) {
            Err(e) => e,
            Ok(Outcome::Abort(_)) => "abort".into(),
            Ok(Outcome::Done(opened, mac, _)) => {
                let o: Vec<_> = opened.iter().map(|x| x.as_ref().unwrap()).collect();
                if o[0] != o[1] || o[1] != o[2] {
                    return format!("disagree {}|{}|{}", show_opened(o[0]), show_opened(o[1]), show_opened(o[2]));
                }
                format!("ok {} {}", show_opened(o[0]), if mac { "mac" } else { "badmac" })
            }
        },
        "c04.chan" => {
            let rec = Arc::new(Tamper::recorder());
            match run_blocking(t[1], spec, Some(rec.clone()), None) {
                Err(e) => e,
                Ok(Outcome::Abort(_)) => "abort".into(),
                Ok(Outcome::Done(..)) => {
                    let mut agg: BTreeMap<(String, u8, u8), usize> = BTreeMap::new();
                    for ((g, s, d), n) in rec.seen.lock().unwrap().iter() {
                        *agg.entry((strip_run(g), *s, *d)).or_insert(0) += n;
                    }
                    agg.iter().map(|((g, s, d), n)| format!("{g}|{s}>{d}|{n}")).collect::<Vec<_>>().join(";")
                }
            }
        }
        "c04.attack" => {
            let corrupt = t[7].parse::<usize>().unwrap() - 1;
            let classes: Vec<&str> = t[8].split('&').collect();
            let dirs: Vec<&str> = t[10].split('&').collect();
            assert_eq!(classes.len(), dirs.len(), "harness: one direction per class");
            let size = size_of_field(t[1]);
            let lanes = field_lanes(t[1]).1;
            let mut targets = vec![];
            for (class, dir) in classes.iter().zip(&dirs) {
                let a = Attack {
                    corrupt,
                    class: (*class).to_string(),
                    target: t[9].parse().unwrap(),
                    dir: dir.chars().next().unwrap(),
                };
                let (suffix, dest, record) = locate(&a);
                // validator messages are scalar; per-record messages carry one element per lane
                let scalar = suffix.starts_with("/validate/");
                let msg = if scalar { size } else { size * lanes };
                targets.push(Target { suffix, src: corrupt as u8 + 1, dst: dest as u8 + 1, offset: record * msg, size: msg });
            }
            let n_targets = targets.len();
            let scalar_only = targets.iter().all(|x| x.size == size);
            let delta = if scalar_only { lanes_of(t[11])[0].to_string() } else { t[11].to_string() };
            let tamper = Arc::new(Tamper::new(targets, adder(t[1], &delta)));
            let out = run_blocking(t[1], spec, Some(tamper.clone()), Some(corrupt));
            let hits = tamper.hits.load(Ordering::SeqCst);
            match out {
                Err(_) => {
                    if hits == 0 {
                        "untouched".into()
                    } else {
                        "abort:hang".into()
                    }
                }
                Ok(Outcome::Abort(_)) => {
                    if hits == 0 {
                        "untouched".into()
                    } else {
                        "abort:error".into()
                    }
                }
                Ok(Outcome::Done(opened, _, _)) => {
                    if hits < n_targets {
                        return "untouched".into();
                    }
                    let o: Vec<_> = (0..3).filter(|h| *h != corrupt).map(|h| opened[h].as_ref().unwrap()).collect();
                    if o[0] != o[1] {
                        return format!("disagree {}|{}", show_opened(o[0]), show_opened(o[1]));
                    }
                    format!("ok {} -", show_opened(o[0]))
                }
            }
        }
        "c04.rbatch" => match run_blocking(t[1], spec, None, None) {
            Err(e) => e,
            Ok(Outcome::Abort(_)) => "abort".into(),
            Ok(Outcome::Done(_, _, keys)) => format!("r {}", keys.join(",")),
        },
        "c04.adaptive" => {
            let corrupt = t[7].parse::<usize>().unwrap() - 1;
            let k: usize = t[8].parse().unwrap();
            let target: usize = t[9].parse().unwrap();
            let key_batch: usize = t[10].parse().unwrap();
            assert!(matches!(spec.prog[k], GateOp::M(..)), "harness: gate {k} is not a multiplication");
            assert!(key_batch < target / spec.rpb, "harness: the key must have been opened before the target's batch runs");
            assert_eq!(field_lanes(t[1]).1, 1, "harness: scalar fields only");
            let size = size_of_field(t[1]);
            let (c, l, r) = (corrupt as u8 + 1, left_of(corrupt) as u8 + 1, right_of(corrupt) as u8 + 1);
            // what the deviating helper itself sees of the opening of the earlier batch's key: the two shares it sends and
            // the third one, which it receives from its left peer
            let rr = |src: u8, dst: u8| Target { suffix: "/validate/reveal_r".into(), src, dst, offset: key_batch * size, size };
            let sniff = vec![rr(c, r), rr(c, l), rr(l, c)];
            let mut targets = vec![
                Target { suffix: format!("/m{k}"), src: c, dst: l, offset: target * size, size },
                Target { suffix: format!("/m{k}/duplicate_multiply"), src: c, dst: l, offset: target * size, size },
            ];
            for w in t[12].split(',').filter(|w| *w != "-") {
                targets.push(Target { suffix: format!("/o{w}"), src: c, dst: r, offset: target * size, size });
            }
            let n_targets = targets.len();
            let tamper = Arc::new(Tamper::adaptive(targets, sniff, adaptive_apply(t[1], t[11])));
            let out = run_blocking(t[1], spec, Some(tamper.clone()), Some(corrupt));
            let hits = tamper.hits.load(Ordering::SeqCst);
            match out {
                // the two multiplication messages went out altered; the openings may never be reached
                Err(_) => if hits < 2 { "untouched".into() } else { "abort:hang".into() },
                Ok(Outcome::Abort(_)) => if hits < 2 { "untouched".into() } else { "abort:error".into() },
                Ok(Outcome::Done(opened, _, _)) => {
                    if hits < n_targets {
                        return "untouched".into();
                    }
                    let o: Vec<_> = (0..3).filter(|h| *h != corrupt).map(|h| opened[h].as_ref().unwrap()).collect();
                    if o[0] != o[1] {
                        return format!("disagree {}|{}", show_opened(o[0]), show_opened(o[1]));
                    }
                    format!("ok {} -", show_opened(o[0]))
                }
            }
        }
        x => panic!("harness: unknown request {x}"),
    }
}

/// the adaptive attack: message 0 (value part of the product) gets `+d`, message 1 (MAC part) `+r'*d` where `r'` is the
/// sum of the three captured shares of the earlier batch's key, the opening messages `+d`
fn adaptive_apply(field: &str, d: &str) -> Box<dyn Fn(usize, &mut [u8], &Captured) -> bool + Send + Sync> {
    fn mk<F: Field + Serializable>(d: &str) -> Box<dyn Fn(usize, &mut [u8], &Captured) -> bool + Send + Sync> {
        let d: F = val::<F>(d);
        Box::new(move |idx: usize, buf: &mut [u8], cap: &Captured| {
            if cap.iter().any(Option::is_none) {
                return false;
            }
            let r = cap.iter().fold(F::ZERO, |a, c| a + F::deserialize_from_slice(c.as_ref().unwrap()));
            let delta = if idx == 1 { r * d } else { d };
            let v = F::deserialize_from_slice(buf) + delta;
            v.serialize_to_slice(buf);
            true
        })
    }
    match field {
        "Fp31" => mk::<Fp31>(d),
        "Fp32BitPrime" => mk::<Fp32BitPrime>(d),
        "Fp25519" => mk::<Fp25519>(d),
        f => panic!("harness: unknown field {f}"),
    }
}

// ------------------------------------------------------------------------------------------ generators

const P32: u128 = 4_294_967_291;
/// order of the Ristretto group (modulus of Fp25519) minus one, decimal
const ELL_M1: &str = "7237005577332262213973186563042994240857116359379907606001950938285454250988";

fn rand_val(rng: &mut Rng, field: &str) -> String {
    match field {
        "Fp31" => (rng.next_u128() % 31).to_string(),
        "Fp32BitPrime" => (rng.next_u128() % P32).to_string(),
        // 124-bit values and a few large ones (canonical: below the group order)
        _ => {
            if rng.below(4) == 0 {
                let mut b = rng.bytes(32);
                b[31] &= 0x0f;
                le_to_dec(&b)
            } else {
                (rng.next_u128() >> 4).to_string()
            }
        }
    }
}

fn edge_vals(field: &str) -> Vec<String> {
    match field {
        "Fp31" => vec!["0".into(), "1".into(), "30".into(), "15".into(), "16".into()],
        "Fp32BitPrime" => vec!["0".into(), "1".into(), (P32 - 1).to_string(), (P32 / 2).to_string(), "2147483648".into()],
        _ => vec!["0".into(), "1".into(), ELL_M1.into(), "2".into(), "340282366920938463463374607431768211455".into()],
    }
}

fn nonzero_val(rng: &mut Rng, field: &str) -> String {
    loop {
        let v = rand_val(rng, field);
        if v != "0" {
            return v;
        }
    }
}

/// number of `u` gates of a program
fn n_inputs(prog: &str) -> usize {
    prog.split('.').filter(|g| *g == "u").count()
}

fn gen_inputs(rng: &mut Rng, field: &str, prog: &str, count: usize, edges_first: bool, nonzero: bool) -> String {
    let k = n_inputs(prog);
    let (base, lanes) = field_lanes(field);
    let e = edge_vals(base);
    (0..count)
        .map(|i| {
            (0..k)
                .map(|j| {
                    (0..lanes)
                        .map(|l| {
                            if edges_first && i < e.len() {
                                e[(i + j * 2 + l) % e.len()].clone()
                            } else if nonzero {
                                nonzero_val(rng, base)
                            } else {
                                rand_val(rng, base)
                            }
                        })
                        .collect::<Vec<_>>()
                        .join("+")
                })
                .collect::<Vec<_>>()
                .join(":")
        })
        .collect::<Vec<_>>()
        .join(",")
}

const PROGS: [&str; 6] = [
    "u.u.m0:1",
    "u",
    "u.u.m0:1.a2:0.s3:1.n4.m5:2",
    "u.u.u.a0:1.m3:2.m4:4.s5:0",
    "u.m0:0.m1:1.m2:0",
    "u.u.m0:1.m2:1.m3:0.a4:2",
];

fn k_prog(rng: &mut Rng, field: &str) -> String {
    format!("u.u.k0:{}.m2:1.k3:{}.a4:0", rand_val(rng, field), edge_vals(field)[2])
}

#[test]
fn verif_c04_honest() {
    run_suite(
        "c04_honest",
        |rng, thorough| {
            let mut out = vec![];
            for field in ["Fp31", "Fp32BitPrime", "Fp25519"] {
                // (records_per_batch = active work = 1 is not supported by the gateway: production clamps it to >= 2)
                // record counts on / around the batch size: partial only batch, exactly one batch, one record into
                // the next batch, several full batches, partial last batch
                let shapes: Vec<(usize, usize)> = if field == "Fp25519" && !thorough {
                    vec![(2, 1), (2, 3), (4, 4), (4, 9), (8, 7)]
                } else {
                    vec![(2, 1), (2, 2), (2, 3), (2, 5), (2, 6), (4, 1), (4, 3), (4, 4), (4, 5), (4, 8), (4, 9), (8, 7), (8, 8),
                        (8, 17), (16, 15), (16, 16), (16, 33)]
                };
                for (n, (rpb, count)) in shapes.iter().enumerate() {
                    let prog = if n % 4 == 3 { k_prog(rng, field) } else { PROGS[n % PROGS.len()].to_string() };
                    let inputs = gen_inputs(rng, field, &prog, *count, n % 2 == 0, false);
                    out.push(format!("c04.honest {field} {rpb} {count} {} {prog} {inputs}", rng.below(1 << 30)));
                }
                let extra = if thorough { 60 } else { 4 };
                for _ in 0..extra {
                    let rpb = 2usize << rng.usize_below(5);
                    let count = 1 + rng.usize_below(3 * rpb + 2);
                    let prog = if rng.below(3) == 0 { k_prog(rng, field) } else { rng.pick(&PROGS).to_string() };
                    let inputs = gen_inputs(rng, field, &prog, count, false, false);
                    out.push(format!("c04.honest {field} {rpb} {count} {} {prog} {inputs}", rng.below(1 << 30)));
                }
                if thorough {
                    for (rpb, count) in [(64, 129), (128, 128), (256, 300)] {
                        let prog = "u.u.m0:1";
                        let inputs = gen_inputs(rng, field, prog, count, true, false);
                        out.push(format!("c04.honest {field} {rpb} {count} {} {prog} {inputs}", rng.below(1 << 30)));
                    }
                }
                // channels used by a run
                for (rpb, count, prog) in [(2usize, 3usize, "u.u.m0:1"), (4, 4, "u.u.m0:1.a2:0.m3:2"), (2, 5, "u")] {
                    let inputs = gen_inputs(rng, field, prog, count, false, false);
                    out.push(format!("c04.chan {field} {rpb} {count} {} {prog} {inputs}", rng.below(1 << 30)));
                }
            }
            // the production shape: 16-lane Fp25519 shares (eval_dy_prf)
            let vshapes: &[(usize, usize, &str)] = if thorough {
                &[(2, 1, "u.u.m0:1"), (2, 3, "u.u.m0:1.a2:0.m3:1"), (4, 4, "u"), (4, 9, "u.u.m0:1.m2:1.m3:0.a4:2"), (8, 5, "u.m0:0.n1")]
            } else {
                &[(2, 1, "u.u.m0:1"), (2, 3, "u.u.m0:1.a2:0.m3:1"), (4, 5, "u.m0:0.n1")]
            };
            for (n, (rpb, count, prog)) in vshapes.iter().enumerate() {
                let inputs = gen_inputs(rng, "Fp25519x16", prog, *count, n == 0, false);
                out.push(format!("c04.honest Fp25519x16 {rpb} {count} {} {prog} {inputs}", rng.below(1 << 30)));
            }
            let inputs = gen_inputs(rng, "Fp25519x16", "u.u.m0:1", 3, false, false);
            out.push(format!("c04.chan Fp25519x16 2 3 {} u.u.m0:1 {inputs}", rng.below(1 << 30)));
            out
        },
        exec_mac,
    );
}

/// per-lane offsets (16 lanes) of the vectorised attacks
fn lane_deltas(rng: &mut Rng, pattern: usize) -> String {
    let mut d = vec!["0".to_string(); 16];
    match pattern {
        // +d on one lane, -d on another: the offsets cancel in the sum over the lanes
        0 => {
            d[0] = "1".into();
            d[1] = ELL_M1.into();
        }
        1 => {
            let i = rng.usize_below(16);
            let j = (i + 1 + rng.usize_below(15)) % 16;
            let v = (rng.next_u128() >> 4) + 1;
            d[i] = v.to_string();
            // ell - v
            let ell_m1 = dec_to_le(ELL_M1, 32);
            let mut neg = Fp25519::deserialize_from_slice(&ell_m1) + Fp25519::ONE;
            neg = neg - val::<Fp25519>(&v.to_string());
            d[j] = show::<Fp25519>(&neg);
        }
        // three lanes summing to zero: 1 + 1 + (ell - 2)
        2 => {
            d[3] = "1".into();
            d[7] = "1".into();
            d[15] = show::<Fp25519>(&(val::<Fp25519>(ELL_M1) - Fp25519::ONE));
        }
        // the same offset on every lane
        3 => {
            let v = nonzero_val(rng, "Fp25519");
            for x in d.iter_mut() {
                *x = v.clone();
            }
        }
        // a single lane
        _ => {
            d[rng.usize_below(16)] = nonzero_val(rng, "Fp25519");
        }
    }
    d.join("+")
}

#[test]
fn verif_c04_attack() {
    run_suite(
        "c04_attack",
        |rng, thorough| {
            let mut out = vec![];
            // false accepts have probability <= 3/|F|: only the large fields are sampled (Fp31 is analysed in Lean)
            let fields: &[&str] = if thorough { &["Fp32BitPrime", "Fp25519"] } else { &["Fp32BitPrime"] };
            let prog = "u.u.m0:1.a2:0.m3:1";
            // (class, is a reveal-type class)
            let classes: [(&str, bool); 13] = [
                ("upgrade:0", false), ("upgrade:1", false), ("mulx:2", false), ("mulrx:2", false), ("mulx:4", false),
                ("mulrx:4", false), ("propu", false), ("propw", false), ("revealr", true), ("czmul", false),
                ("czreveal", true), ("reveal:2", true), ("reveal:4", true),
            ];
            for field in fields {
                let reps = if thorough { 4 } else { 1 };
                for rep in 0..reps {
                    for (ci, (class, is_reveal)) in classes.iter().enumerate() {
                        // first batch and a later batch (the last one, so that nobody waits on a batch that
                        // can no longer complete)
                        for later in [false, true] {
                            let rpb = [2usize, 4, 8][(ci + rep) % 3];
                            let batches = if later { 2 + rng.usize_below(2) } else { 1 + rng.usize_below(2) };
                            let last_len = 1 + rng.usize_below(rpb);
                            let count = (batches - 1) * rpb + last_len;
                            let batch = if later { batches - 1 } else { 0 };
                            let per_record = !matches!(*class, "propu" | "propw" | "revealr" | "czmul" | "czreveal");
                            let target = if per_record {
                                let lo = batch * rpb;
                                let hi = ((batch + 1) * rpb).min(count);
                                lo + rng.usize_below(hi - lo)
                            } else {
                                batch
                            };
                            let corrupt = 1 + (ci + rep + usize::from(later)) % 3;
                            let dir = if *is_reveal { if rng.bool() { "L" } else { "R" } } else { "-" };
                            let delta = match (ci + rep) % 3 {
                                0 => "1".to_string(),
                                1 => if *field == "Fp25519" { ELL_M1.to_string() } else { (P32 - 1).to_string() },
                                _ => nonzero_val(rng, field),
                            };
                            let inputs = gen_inputs(rng, field, prog, count, false, true);
                            out.push(format!(
                                "c04.attack {field} {rpb} {count} {} {prog} {inputs} {corrupt} {class} {target} {dir} {delta}",
                                rng.below(1 << 30)
                            ));
                        }
                    }
                }
            }
            // two coordinated messages: the error on a multiplication message and the same error on the copy the
            // deviating helper later opens towards its right peer, so that the two-copy check of the opening has
            // nothing to complain about — only the MAC check can catch it. The attacked product is not consumed
            // by a later gate.
            for field in fields {
                for (k, (prog, classes, dirs)) in [
                    ("u.u.m0:1", "mulx:2&reveal:2", "-&R"),
                    ("u.u.m0:1.a2:0", "mulx:2&reveal:2&reveal:3", "-&R&R"),
                    ("u.u.u.m0:1.m3:2", "mulx:4&reveal:4", "-&R"),
                ]
                .iter()
                .enumerate()
                {
                    for later in [false, true] {
                        let rpb = [2usize, 4][k % 2];
                        let count = if later { rpb + 1 + rng.usize_below(rpb) } else { 1 + rng.usize_below(rpb) };
                        let target = if later { rpb + rng.usize_below(count - rpb) } else { rng.usize_below(count) };
                        let corrupt = 1 + (k + usize::from(later)) % 3;
                        let delta = nonzero_val(rng, field);
                        let inputs = gen_inputs(rng, field, prog, count, false, true);
                        out.push(format!(
                            "c04.attack {field} {rpb} {count} {} {prog} {inputs} {corrupt} {classes} {target} {dirs} {delta}",
                            rng.below(1 << 30)
                        ));
                    }
                }
            }
            // vectorised shares (16 lanes of Fp25519, the shape of eval_dy_prf): lane-correlated errors
            let field = "Fp25519x16";
            let vcases: [(&str, &str, &str); 6] = [
                ("u.u.m0:1", "mulx:2&reveal:2", "-&R"),
                ("u.u.m0:1", "mulx:2", "-"),
                ("u.u.m0:1", "mulrx:2", "-"),
                ("u.u.m0:1", "upgrade:0", "-"),
                ("u", "upgrade:0", "-"),
                ("u.u.m0:1.a2:0.m3:1", "mulx:4&reveal:4", "-&R"),
            ];
            let patterns = if thorough { 5 } else { 3 };
            for (k, (prog, classes, dirs)) in vcases.iter().enumerate() {
                for pattern in 0..patterns {
                    if !thorough && k >= 2 && pattern != k % 3 {
                        continue;
                    }
                    let later = (k + pattern) % 2 == 1;
                    let rpb = 2usize;
                    let count = if later { 3 } else { 1 + rng.usize_below(2) };
                    let target = if later { 2 } else { rng.usize_below(count) };
                    let corrupt = 1 + (k + pattern) % 3;
                    let delta = lane_deltas(rng, pattern);
                    let inputs = gen_inputs(rng, field, prog, count, false, true);
                    out.push(format!(
                        "c04.attack {field} {rpb} {count} {} {prog} {inputs} {corrupt} {classes} {target} {dirs} {delta}",
                        rng.below(1 << 30)
                    ));
                }
            }
            // the ADAPTIVE multi-batch attack: the key opened by the validation of an earlier batch is used to forge the
            // MAC of a multiplication of a later batch (errors d on x*y, r'*d on rx*y, +d on the deviating helper's openings
            // of the wires that carry the product). Fresh per-batch keys make the batch fail; a key shared by the
            // batches would let it pass with a product off by d.
            // (rpb, count, prog, attacked gate, opened wires that carry the product)
            let acases: [(usize, usize, &str, usize, &str); 6] = [
                (2, 4, "u.u.m0:1", 2, "2"),
                (2, 3, "u.u.m0:1", 2, "2"),
                (2, 6, "u.u.m0:1.a2:0", 2, "2,3"),
                (4, 8, "u.u.m0:1", 2, "2"),
                (4, 10, "u.u.u.m0:1.s3:2", 3, "3,4"),
                (2, 5, "u.m0:0", 1, "1"),
            ];
            let afields: &[&str] = &["Fp32BitPrime", "Fp25519"];
            for field in afields {
                let reps = if thorough { 4 } else { 2 };
                for rep in 0..reps {
                    for (n, (rpb, count, prog, k, wires)) in acases.iter().enumerate() {
                        let batches = count.div_ceil(*rpb);
                        // the target's batch: the last one and, with three batches, also the middle one
                        let tb = if batches > 2 && (n + rep) % 2 == 0 { 1 } else { batches - 1 };
                        let lo = tb * rpb;
                        let hi = ((tb + 1) * rpb).min(*count);
                        let target = lo + rng.usize_below(hi - lo);
                        let key_batch = rng.usize_below(tb);
                        let corrupt = 1 + (n + rep) % 3;
                        let d = match (n + rep) % 3 {
                            0 => "1".to_string(),
                            1 => if *field == "Fp25519" { ELL_M1.to_string() } else { (P32 - 1).to_string() },
                            _ => nonzero_val(rng, field),
                        };
                        let inputs = gen_inputs(rng, field, prog, *count, false, true);
                        out.push(format!(
                            "c04.adaptive {field} {rpb} {count} {} {prog} {inputs} {corrupt} {k} {target} {key_batch} {d} {wires}",
                            rng.below(1 << 30)
                        ));
                    }
                }
            }
            // the keys the batches compute under: one per batch, different batches different keys
            for field in ["Fp32BitPrime", "Fp25519"] {
                let shapes: &[(usize, usize)] = if thorough { &[(2, 4), (2, 5), (2, 7), (4, 4), (4, 9), (8, 17), (16, 40)] } else { &[(2, 4), (2, 5), (4, 9), (8, 17)] };
                for (rpb, count) in shapes {
                    let prog = "u.u.m0:1";
                    let inputs = gen_inputs(rng, field, prog, *count, false, false);
                    out.push(format!("c04.rbatch {field} {rpb} {count} {} {prog} {inputs}", rng.below(1 << 30)));
                }
            }
            out
        },
        exec_mac,
    );
}

// ------------------------------------------------------------------------------------------ reveal

macro_rules! reveal_runner {
    ($name:ident, $f:ty) => {
        async fn $name(seed: u64, x: &str, excluded: Option<usize>, tamper: Option<Arc<Tamper>>) -> String {
            type F = $f;
            let mut config = TestWorldConfig::default().with_seed(seed);
            if let Some(t) = tamper {
                config.stream_interceptor = t;
            }
            let world = TestWorld::new_with(config);
            let mut rng = Rng(seed ^ 0xC04);
            let sh = share3::<F>(&mut rng, val::<F>(x));
            let futs = world.malicious_contexts().into_iter().zip(sh).map(|(ctx, s)| async move {
                let ctx = ctx.narrow("c04reveal").set_total_records(1usize);
                match malicious_reveal(ctx, RecordId::FIRST, excluded.map(|e| Role::all()[e]), &s).await {
                    Ok(Some(v)) => format!("ok:{}", show::<F>(&F::from_array(&v))),
                    Ok(None) => "none".to_string(),
                    Err(Error::MaliciousRevealFailed) => "fail".to_string(),
                    Err(e) => format!("err:{}", kind(&e)),
                }
            });
            futures::future::join_all(futs).await.join(",")
        }
    };
}

reveal_runner!(reveal_fp31, Fp31);
reveal_runner!(reveal_fp32, Fp32BitPrime);
reveal_runner!(reveal_fp25519, Fp25519);

// ------------------------------------------------------------------------------------------ every Reveal impl

/// a value type `V` with `N` lanes: parsing / showing / drawing arrays of it
trait Vt<const N: usize>: SharedValue + Vectorizable<N> {
    fn parse(s: &str) -> <Self as Vectorizable<N>>::Array;
    /// `cands[lane]`: scalars whose points may be recognised (RP25519 only: a point is shown as the scalar `s` of the
    /// request with `s*G` = the point, or as `pt:<hex>`)
    fn show(a: &<Self as Vectorizable<N>>::Array, cands: &[Vec<String>]) -> String;
    fn random(rng: &mut Rng) -> <Self as Vectorizable<N>>::Array;
}

/// a canonical random element of a prime field
fn draw_canonical<F: Serializable>(rng: &mut Rng) -> F {
    let mut b = rng.bytes(F::Size::USIZE);
    let n = b.len();
    b[n - 1] &= 0x0f;
    if n == 1 {
        b[0] %= 31;
    } else if n == 4 {
        b[3] &= 0x7f;
    }
    F::deserialize_from_slice(&b)
}

macro_rules! vt_lanes {
    ($v:ty, $n:expr) => {
        impl Vt<$n> for $v {
            fn parse(s: &str) -> <Self as Vectorizable<$n>>::Array {
                let l = lanes_of(s);
                assert_eq!(l.len(), $n, "harness: {} lanes expected", $n);
                SharedValueArray::from_fn(|i| val::<$v>(l[i]))
            }
            fn show(a: &<Self as Vectorizable<$n>>::Array, _: &[Vec<String>]) -> String {
                a.clone().into_iter().map(|v| show::<$v>(&v)).collect::<Vec<_>>().join("+")
            }
            fn random(rng: &mut Rng) -> <Self as Vectorizable<$n>>::Array {
                SharedValueArray::from_fn(|_| draw_canonical::<$v>(rng))
            }
        }
    };
}

/// Boolean arrays: the whole array is one number (the integer of its little-endian bytes)
macro_rules! vt_whole {
    ($v:ty, $n:expr, $mask:expr) => {
        impl Vt<$n> for $v {
            fn parse(s: &str) -> <Self as Vectorizable<$n>>::Array {
                val::<<Self as Vectorizable<$n>>::Array>(s)
            }
            fn show(a: &<Self as Vectorizable<$n>>::Array, _: &[Vec<String>]) -> String {
                show::<<Self as Vectorizable<$n>>::Array>(a)
            }
            fn random(rng: &mut Rng) -> <Self as Vectorizable<$n>>::Array {
                let mut b = rng.bytes(<<Self as Vectorizable<$n>>::Array as Serializable>::Size::USIZE);
                let n = b.len();
                b[n - 1] &= $mask;
                <<Self as Vectorizable<$n>>::Array as Serializable>::deserialize_from_slice(&b)
            }
        }
    };
}

macro_rules! vt_points {
    ($n:expr) => {
        impl Vt<$n> for RP25519 {
            fn parse(s: &str) -> <Self as Vectorizable<$n>>::Array {
                let l = lanes_of(s);
                assert_eq!(l.len(), $n, "harness: {} lanes expected", $n);
                SharedValueArray::from_fn(|i| RP25519::from(val::<Fp25519>(l[i])))
            }
            fn show(a: &<Self as Vectorizable<$n>>::Array, cands: &[Vec<String>]) -> String {
                a.clone()
                    .into_iter()
                    .enumerate()
                    .map(|(i, v)| {
                        cands
                            .get(i)
                            .and_then(|c| c.iter().find(|s| RP25519::from(val::<Fp25519>(s)) == v).cloned())
                            .unwrap_or_else(|| {
                                let mut buf = vec![0u8; <RP25519 as Serializable>::Size::USIZE];
                                v.serialize_to_slice(&mut buf);
                                format!("pt:{}", buf.iter().map(|b| format!("{b:02x}")).collect::<String>())
                            })
                    })
                    .collect::<Vec<_>>()
                    .join("+")
            }
            fn random(rng: &mut Rng) -> <Self as Vectorizable<$n>>::Array {
                SharedValueArray::from_fn(|_| RP25519::from(draw_canonical::<Fp25519>(rng)))
            }
        }
    };
}

vt_lanes!(Fp31, 1);
vt_lanes!(Fp32BitPrime, 1);
vt_lanes!(Fp32BitPrime, 32);
vt_lanes!(Fp25519, 1);
vt_lanes!(Fp25519, 16);
vt_points!(1);
vt_points!(16);
vt_whole!(Boolean, 1, 0x01);
vt_whole!(Boolean, 64, 0xff);
vt_whole!(Boolean, 256, 0xff);
vt_whole!(BA8, 1, 0xff);
vt_whole!(BA64, 1, 0xff);

/// replicated sharing of the array `x` with shares drawn from `rng`
fn share3_arr<V: Vt<N>, const N: usize>(rng: &mut Rng, x: &<V as Vectorizable<N>>::Array) -> Vec<Replicated<V, N>> {
    let s0 = V::random(rng);
    let s1 = V::random(rng);
    let s2 = x.clone() - &s0 - &s1;
    vec![
        Replicated::new_arr(s0.clone(), s1.clone()),
        Replicated::new_arr(s1, s2.clone()),
        Replicated::new_arr(s2, s0),
    ]
}

#[derive(Clone)]
struct RevReq {
    ctx: String,
    sharing: String,
    vtype: String,
    entry: String,
    seed: u64,
    x: String,
    ex: Option<usize>,
    at: Option<usize>,
    dest: Option<usize>,
    delta: String,
}

impl RevReq {
    /// per lane: the scalars a point may be shown as (the value, the value plus the error)
    fn cands(&self) -> Vec<Vec<String>> {
        if !self.vtype.starts_with("RP25519") {
            return vec![];
        }
        let d = lanes_of(&self.delta);
        lanes_of(&self.x)
            .iter()
            .enumerate()
            .map(|(i, x)| {
                let xv = val::<Fp25519>(x);
                let dv = val::<Fp25519>(d.get(i).copied().unwrap_or("0"));
                vec![(*x).to_string(), show::<Fp25519>(&(xv + dv))]
            })
            .collect()
    }

    /// element-wise sharing with an altered copy: only the helper that receives it is reported
    fn only(&self) -> Option<usize> {
        let altered = self.at.is_some() && self.delta.split('+').any(|d| d != "0");
        if self.sharing.starts_with("BitDecomposed") && altered { self.dest } else { None }
    }

    /// the interceptor altering the copy `at` sends to `dest`: one array of `V` (`elements` = false) or the arrays of
    /// the elements of a `BitDecomposed` (one message per element, in the element's own step)
    fn tamper<V: Vt<N>, const N: usize>(&self, elements: bool) -> Option<Arc<Tamper>> {
        let (at, dest) = (self.at?, self.dest?);
        let size = <<V as Vectorizable<N>>::Array as Serializable>::Size::USIZE;
        let deltas: Vec<<V as Vectorizable<N>>::Array> =
            if elements { self.delta.split('+').map(|d| V::parse(d)).collect() } else { vec![V::parse(&self.delta)] };
        let zero = <<V as Vectorizable<N>>::Array as SharedValueArray<V>>::ZERO_ARRAY;
        // elements that carry an error (all of them when there is none: the message is then "altered" by zero)
        let mut idx: Vec<usize> = (0..deltas.len()).filter(|i| deltas[*i] != zero).collect();
        if idx.is_empty() {
            idx.push(0);
        }
        let targets = idx
            .iter()
            .map(|i| Target {
                suffix: if elements {
                    format!("/c04reveal/{}", TwoHundredFiftySixBitOpStep::from(*i).as_ref())
                } else {
                    "/c04reveal".into()
                },
                src: at as u8 + 1,
                dst: dest as u8 + 1,
                offset: 0,
                size,
            })
            .collect();
        Some(Arc::new(Tamper::adaptive(
            targets,
            vec![],
            Box::new(move |k: usize, buf: &mut [u8], _: &Captured| {
                let v = <<V as Vectorizable<N>>::Array as Serializable>::deserialize_from_slice(buf) + &deltas[idx[k]];
                v.serialize_to_slice(buf);
                true
            }),
        )))
    }
}

fn rev_config(seed: u64, tamper: &Option<Arc<Tamper>>) -> TestWorldConfig {
    let mut config = TestWorldConfig::default().with_seed(seed);
    if let Some(t) = tamper {
        config.stream_interceptor = t.clone();
    }
    config
}

/// one opening on the three helpers through the chosen entry point of the `Reveal` trait.
/// `only` = Some(h): report helper `h` alone and `~` for the others (element-wise openings with an altered copy: the
/// helper that detects the mismatch stops, and whether its peers had everything they needed by then is a race).
async fn rev_drive<C, S>(
    ctxs: Vec<C>,
    shares: &[S],
    entry: &str,
    ex: Option<usize>,
    only: Option<usize>,
    show_out: &(dyn Fn(&S::Output) -> String + Sync),
) -> String
where
    C: Context,
    S: Reveal<C> + Send + Sync,
{
    let mut futs = ctxs
        .into_iter()
        .zip(shares.iter())
        .enumerate()
        .map(|(h, (ctx, s))| async move {
            let rid = RecordId::FIRST;
            let exr = ex.map(|e| Role::all()[e]);
            let r = match (entry, exr) {
                ("reveal", None) => reveal(ctx, rid, s).await.map(Some),
                ("partial", Some(e)) => partial_reveal(ctx, rid, e, s).await,
                ("generic", e) => s.generic_reveal(ctx, rid, e).await,
                ("method", None) => s.reveal(ctx, rid).await.map(Some),
                ("method", Some(e)) => s.partial_reveal(ctx, rid, e).await,
                (x, _) => panic!("harness: entry point {x} does not fit the request"),
            };
            let o = match r {
                Ok(Some(v)) => format!("ok:{}", show_out(&v)),
                Ok(None) => "none".to_string(),
                Err(Error::MaliciousRevealFailed) => "fail".to_string(),
                Err(e) => format!("err:{}", kind(&e)),
            };
            (h, o)
        })
        .collect::<FuturesUnordered<_>>();
    let mut outs = vec!["~".to_string(); 3];
    while let Some((h, o)) = futs.next().await {
        if only.is_none() || only == Some(h) {
            outs[h] = o;
        }
        if only == Some(h) {
            break;
        }
    }
    outs.join(",")
}

/// the three helpers' upgraded contexts of one kind, bound to `$ctxs` for `$body`
macro_rules! with_ctxs {
    (mac, $q:expr, $tamper:expr, $ctxf:ty, |$ctxs:ident| $body:expr) => {{
        let world = TestWorld::new_with(rev_config($q.seed, &$tamper));
        let vals: Vec<_> =
            world.malicious_contexts().into_iter().map(|c| c.set_total_records(1usize).validator::<$ctxf>()).collect();
        let $ctxs: Vec<_> = vals.iter().map(|v| v.context()).collect();
        let r = $body;
        drop(vals);
        r
    }};
    (macsharded, $q:expr, $tamper:expr, $ctxf:ty, |$ctxs:ident| $body:expr) => {{
        let world: TestWorld<WithShards<2>> = TestWorld::with_shards(rev_config($q.seed, &$tamper));
        let per_helper = world.malicious_contexts();
        let vals: Vec<_> =
            per_helper.iter().map(|shards| shards[0].clone().set_total_records(1usize).validator::<$ctxf>()).collect();
        let $ctxs: Vec<_> = vals.iter().map(|v| v.context()).collect();
        let r = $body;
        drop(vals);
        r
    }};
    (dzkp, $q:expr, $tamper:expr, $ctxf:ty, |$ctxs:ident| $body:expr) => {{
        let world = TestWorld::new_with(rev_config($q.seed, &$tamper));
        let vals: Vec<_> = world
            .malicious_contexts()
            .into_iter()
            .map(|c| c.set_total_records(1usize).dzkp_validator(TEST_DZKP_STEPS, 8))
            .collect();
        let $ctxs: Vec<_> = vals.iter().map(|v| v.context()).collect();
        let r = $body;
        drop(vals);
        r
    }};
    (sh, $q:expr, $tamper:expr, $ctxf:ty, |$ctxs:ident| $body:expr) => {{
        let world = TestWorld::new_with(rev_config($q.seed, &$tamper));
        let vals: Vec<_> =
            world.contexts().into_iter().map(|c| c.set_total_records(1usize).validator::<$ctxf>()).collect();
        let $ctxs: Vec<_> = vals.iter().map(|v| v.context()).collect();
        let r = $body;
        drop(vals);
        r
    }};
    (dzkpsh, $q:expr, $tamper:expr, $ctxf:ty, |$ctxs:ident| $body:expr) => {{
        let world = TestWorld::new_with(rev_config($q.seed, &$tamper));
        let vals: Vec<_> = world
            .contexts()
            .into_iter()
            .map(|c| c.set_total_records(1usize).dzkp_validator(TEST_DZKP_STEPS, 8))
            .collect();
        let $ctxs: Vec<_> = vals.iter().map(|v| v.context()).collect();
        let r = $body;
        drop(vals);
        r
    }};
}

/// `Replicated<V, N>` opened in a context of kind `$kind`
macro_rules! rev_plain {
    ($q:expr, $kind:ident, $ctxf:ty, $v:ty, $n:expr) => {{
        type V = $v;
        const N: usize = $n;
        let q = &$q;
        let tamper = q.tamper::<V, N>(false);
        let mut rng = Rng(q.seed ^ 0xC04);
        let shares = share3_arr::<V, N>(&mut rng, &<V as Vt<N>>::parse(&q.x));
        let cands = q.cands();
        let show_out = |a: &<V as Vectorizable<N>>::Array| <V as Vt<N>>::show(a, &cands);
        let out = with_ctxs!($kind, q, tamper, $ctxf, |ctxs| {
            let ctxs: Vec<_> = ctxs.iter().map(|c| c.narrow("c04reveal")).collect();
            rev_drive(ctxs, &shares, &q.entry, q.ex, q.only(), &show_out).await
        });
        (out, tamper)
    }};
}

/// `BitDecomposed<Replicated<V, N>>`: the `+`-joined elements
macro_rules! rev_bits {
    ($q:expr, $kind:ident, $ctxf:ty, $v:ty, $n:expr) => {{
        type V = $v;
        const N: usize = $n;
        let q = &$q;
        let tamper = q.tamper::<V, N>(true);
        let mut rng = Rng(q.seed ^ 0xC04);
        let mut per_helper: Vec<Vec<Replicated<V, N>>> = vec![vec![], vec![], vec![]];
        for el in q.x.split('+') {
            for (h, s) in share3_arr::<V, N>(&mut rng, &<V as Vt<N>>::parse(el)).into_iter().enumerate() {
                per_helper[h].push(s);
            }
        }
        let shares: Vec<BitDecomposed<Replicated<V, N>>> = per_helper.into_iter().map(BitDecomposed::new).collect();
        let show_out = |a: &Vec<<V as Vectorizable<N>>::Array>| {
            a.iter().map(|e| <V as Vt<N>>::show(e, &[])).collect::<Vec<_>>().join("+")
        };
        let out = with_ctxs!($kind, q, tamper, $ctxf, |ctxs| {
            let ctxs: Vec<_> = ctxs.iter().map(|c| c.narrow("c04reveal")).collect();
            rev_drive(ctxs, &shares, &q.entry, q.ex, q.only(), &show_out).await
        });
        (out, tamper)
    }};
}

/// `MaliciousReplicated<F, N>` (`$bits` = false) or `BitDecomposed<MaliciousReplicated<F, 1>>` of the `+`-joined elements:
/// upgraded (and validated) honestly under the MAC context, then opened
macro_rules! rev_mac {
    ($q:expr, $kind:ident, $f:ty, $n:expr, $bits:expr) => {{
        type V = $f;
        const N: usize = $n;
        let q = &$q;
        let tamper = q.tamper::<V, N>($bits);
        let mut rng = Rng(q.seed ^ 0xC04);
        let els: Vec<&str> = if $bits { q.x.split('+').collect() } else { vec![q.x.as_str()] };
        let mut per_helper: Vec<Vec<Replicated<V, N>>> = vec![vec![], vec![], vec![]];
        for el in &els {
            for (h, s) in share3_arr::<V, N>(&mut rng, &<V as Vt<N>>::parse(el)).into_iter().enumerate() {
                per_helper[h].push(s);
            }
        }
        let out = with_ctxs!($kind, q, tamper, $f, |ctxs| {
            let ups: Vec<Vec<MaliciousReplicated<V, N>>> =
                futures::future::join_all(ctxs.iter().zip(per_helper).map(|(c, shares)| async move {
                    let mut v = vec![];
                    for (i, s) in shares.into_iter().enumerate() {
                        v.push(s.upgrade(c.narrow(&format!("c04up{i}")), RecordId::FIRST).await.expect("harness: upgrade"));
                    }
                    c.validate_record(RecordId::FIRST).await.expect("harness: honest upgrade validates");
                    v
                }))
                .await;
            let ctxs: Vec<_> = ctxs.iter().map(|c| c.narrow("c04reveal")).collect();
            if $bits {
                let shares: Vec<BitDecomposed<MaliciousReplicated<V, N>>> = ups.into_iter().map(BitDecomposed::new).collect();
                let show_out = |a: &Vec<<V as Vectorizable<N>>::Array>| {
                    a.iter().map(|e| <V as Vt<N>>::show(e, &[])).collect::<Vec<_>>().join("+")
                };
                rev_drive(ctxs, &shares, &q.entry, q.ex, q.only(), &show_out).await
            } else {
                let shares: Vec<MaliciousReplicated<V, N>> = ups.into_iter().map(|mut v| v.remove(0)).collect();
                let show_out = |a: &<V as Vectorizable<N>>::Array| <V as Vt<N>>::show(a, &[]);
                rev_drive(ctxs, &shares, &q.entry, q.ex, q.only(), &show_out).await
            }
        });
        (out, tamper)
    }};
}

const MAC: &str = "UpgradedMaliciousContext";
const MACS: &str = "ShardedUpgradedMaliciousContext";
const DZKP: &str = "DZKPUpgradedMaliciousContext";
const SH: &str = "UpgradedSemiHonestContext";
const DZKPSH: &str = "DZKPUpgradedSemiHonestContext";
const REP: &str = "Replicated";
const MREP: &str = "MaliciousReplicated";
const BREP: &str = "BitDecomposed<Replicated>";
const BMREP: &str = "BitDecomposed<MaliciousReplicated>";

/// the (context, sharing, value type) combinations the suite drives
const REV_CASES: [(&str, &str, &str); 42] = [
    (MAC, REP, "Fp31"), (MAC, REP, "Fp32BitPrime"), (MAC, REP, "Fp32BitPrimex32"), (MAC, REP, "Fp25519"),
    (MAC, REP, "Fp25519x16"), (MAC, REP, "RP25519"), (MAC, REP, "RP25519x16"), (MAC, REP, "Boolean"),
    (MAC, REP, "Booleanx64"), (MAC, REP, "Booleanx256"), (MAC, REP, "BA8"), (MAC, REP, "BA64"),
    (MAC, MREP, "Fp31"), (MAC, MREP, "Fp32BitPrime"), (MAC, MREP, "Fp25519"), (MAC, MREP, "Fp25519x16"),
    (MAC, BREP, "Boolean"), (MAC, BREP, "Booleanx64"), (MAC, BMREP, "Fp32BitPrime"),
    (MACS, REP, "Fp25519"), (MACS, REP, "RP25519x16"), (MACS, REP, "Booleanx64"), (MACS, REP, "BA8"),
    (MACS, MREP, "Fp32BitPrime"), (MACS, MREP, "Fp25519"), (MACS, BREP, "Boolean"), (MACS, BMREP, "Fp32BitPrime"),
    (DZKP, REP, "Boolean"), (DZKP, REP, "Booleanx64"), (DZKP, REP, "Booleanx256"), (DZKP, REP, "BA8"),
    (DZKP, REP, "BA64"), (DZKP, REP, "Fp32BitPrime"), (DZKP, REP, "RP25519"),
    (DZKP, BREP, "Boolean"), (DZKP, BREP, "Booleanx64"),
    (SH, REP, "Fp32BitPrime"), (SH, REP, "Boolean"), (SH, BREP, "Boolean"),
    (DZKPSH, REP, "Booleanx64"), (DZKPSH, REP, "Fp31"), (DZKPSH, BREP, "Boolean"),
];

async fn revimpl_async(q: RevReq) -> (String, Option<Arc<Tamper>>) {
    match (q.ctx.as_str(), q.sharing.as_str(), q.vtype.as_str()) {
        (MAC, REP, "Fp31") => rev_plain!(q, mac, Fp31, Fp31, 1),
        (MAC, REP, "Fp32BitPrime") => rev_plain!(q, mac, Fp32BitPrime, Fp32BitPrime, 1),
        (MAC, REP, "Fp32BitPrimex32") => rev_plain!(q, mac, Fp32BitPrime, Fp32BitPrime, 32),
        (MAC, REP, "Fp25519") => rev_plain!(q, mac, Fp25519, Fp25519, 1),
        (MAC, REP, "Fp25519x16") => rev_plain!(q, mac, Fp25519, Fp25519, 16),
        (MAC, REP, "RP25519") => rev_plain!(q, mac, Fp25519, RP25519, 1),
        (MAC, REP, "RP25519x16") => rev_plain!(q, mac, Fp25519, RP25519, 16),
        (MAC, REP, "Boolean") => rev_plain!(q, mac, Fp32BitPrime, Boolean, 1),
        (MAC, REP, "Booleanx64") => rev_plain!(q, mac, Fp32BitPrime, Boolean, 64),
        (MAC, REP, "Booleanx256") => rev_plain!(q, mac, Fp25519, Boolean, 256),
        (MAC, REP, "BA8") => rev_plain!(q, mac, Fp31, BA8, 1),
        (MAC, REP, "BA64") => rev_plain!(q, mac, Fp32BitPrime, BA64, 1),
        (MAC, MREP, "Fp31") => rev_mac!(q, mac, Fp31, 1, false),
        (MAC, MREP, "Fp32BitPrime") => rev_mac!(q, mac, Fp32BitPrime, 1, false),
        (MAC, MREP, "Fp25519") => rev_mac!(q, mac, Fp25519, 1, false),
        (MAC, MREP, "Fp25519x16") => rev_mac!(q, mac, Fp25519, 16, false),
        (MAC, BREP, "Boolean") => rev_bits!(q, mac, Fp32BitPrime, Boolean, 1),
        (MAC, BREP, "Booleanx64") => rev_bits!(q, mac, Fp25519, Boolean, 64),
        (MAC, BMREP, "Fp32BitPrime") => rev_mac!(q, mac, Fp32BitPrime, 1, true),
        (MACS, REP, "Fp25519") => rev_plain!(q, macsharded, Fp25519, Fp25519, 1),
        (MACS, REP, "RP25519x16") => rev_plain!(q, macsharded, Fp25519, RP25519, 16),
        (MACS, REP, "Booleanx64") => rev_plain!(q, macsharded, Fp32BitPrime, Boolean, 64),
        (MACS, REP, "BA8") => rev_plain!(q, macsharded, Fp32BitPrime, BA8, 1),
        (MACS, MREP, "Fp32BitPrime") => rev_mac!(q, macsharded, Fp32BitPrime, 1, false),
        (MACS, MREP, "Fp25519") => rev_mac!(q, macsharded, Fp25519, 1, false),
        (MACS, BREP, "Boolean") => rev_bits!(q, macsharded, Fp32BitPrime, Boolean, 1),
        (MACS, BMREP, "Fp32BitPrime") => rev_mac!(q, macsharded, Fp32BitPrime, 1, true),
        (DZKP, REP, "Boolean") => rev_plain!(q, dzkp, Boolean, Boolean, 1),
        (DZKP, REP, "Booleanx64") => rev_plain!(q, dzkp, Boolean, Boolean, 64),
        (DZKP, REP, "Booleanx256") => rev_plain!(q, dzkp, Boolean, Boolean, 256),
        (DZKP, REP, "BA8") => rev_plain!(q, dzkp, Boolean, BA8, 1),
        (DZKP, REP, "BA64") => rev_plain!(q, dzkp, Boolean, BA64, 1),
        (DZKP, REP, "Fp32BitPrime") => rev_plain!(q, dzkp, Boolean, Fp32BitPrime, 1),
        (DZKP, REP, "RP25519") => rev_plain!(q, dzkp, Boolean, RP25519, 1),
        (DZKP, BREP, "Boolean") => rev_bits!(q, dzkp, Boolean, Boolean, 1),
        (DZKP, BREP, "Booleanx64") => rev_bits!(q, dzkp, Boolean, Boolean, 64),
        (SH, REP, "Fp32BitPrime") => rev_plain!(q, sh, Fp32BitPrime, Fp32BitPrime, 1),
        (SH, REP, "Boolean") => rev_plain!(q, sh, Fp32BitPrime, Boolean, 1),
        (SH, BREP, "Boolean") => rev_bits!(q, sh, Fp31, Boolean, 1),
        (DZKPSH, REP, "Booleanx64") => rev_plain!(q, dzkpsh, Boolean, Boolean, 64),
        (DZKPSH, REP, "Fp31") => rev_plain!(q, dzkpsh, Boolean, Fp31, 1),
        (DZKPSH, BREP, "Boolean") => rev_bits!(q, dzkpsh, Boolean, Boolean, 1),
        (c, s, v) => panic!("harness: no runner for {c} {s} {v}"),
    }
}

fn exec_revimpl(t: &[&str]) -> String {
    if t[0] == "c04.revimpls" {
        let mut ids: Vec<String> = REV_CASES.iter().map(|(c, s, _)| format!("{c}/{s}")).collect();
        ids.sort();
        ids.dedup();
        return ids.join(",");
    }
    let q = RevReq {
        ctx: t[1].into(),
        sharing: t[2].into(),
        vtype: t[3].into(),
        entry: t[4].into(),
        seed: t[5].parse().unwrap(),
        x: t[6].into(),
        ex: opt_role(t[7]),
        at: opt_role(t[8]),
        dest: opt_role(t[9]),
        delta: t[10].into(),
    };
    match block_on_timeout(40, revimpl_async(q)) {
        Err(e) => e,
        // the copy that was to be altered never appeared on the wire
        Ok((_, Some(t))) if t.hits.load(Ordering::SeqCst) == 0 => "untouched".into(),
        Ok((out, _)) => out,
    }
}

// ------------------------------------------------------------------------------------------ openings of eval_dy_prf

/// the real `eval_dy_prf` (MAC context over Fp25519, one record of `N` lanes) with one altered copy on the opening of
/// `R = g^r` (`PrfStep::RevealR`: a plain `Replicated<RP25519, N>`) or of `z` (`PrfStep::Revealz`: a MAC'd share).
/// Response: `ref:<pseudonyms computed in the clear> <h1>,<h2>,<h3>`, `h` = `ok:<pseudonyms>` | `fail` | `err:<kind>` |
/// `~` (not waited for: with an altered copy only the receiving helper is reported).
macro_rules! prf_runner {
    ($name:ident, $n:expr) => {
        async fn $name(seed: u64, x: &str, k: &str, tamper: Option<Arc<Tamper>>, only: Option<usize>) -> String {
            const N: usize = $n;
            let world = TestWorld::new_with(rev_config(seed, &tamper));
            let mut rng = Rng(seed ^ 0xC04);
            let xa = <Fp25519 as Vt<N>>::parse(x);
            let kv = val::<Fp25519>(k);
            let reference: Vec<String> = xa
                .clone()
                .into_iter()
                .map(|xv| u64::from(RP25519::from((xv + kv).invert())).to_string())
                .collect();
            let xs = share3_arr::<Fp25519, N>(&mut rng, &xa);
            let ks = share3::<Fp25519>(&mut rng, kv);
            let mut futs = world
                .malicious_contexts()
                .into_iter()
                .zip(xs.into_iter().zip(ks))
                .enumerate()
                .map(|(h, (ctx, (xs, ks)))| async move {
                    let v = ctx.set_total_records(1usize).validator::<Fp25519>();
                    let r = eval_dy_prf::<_, N>(v.context(), RecordId::FIRST, &ks, xs).await;
                    let o = match r {
                        Ok(p) => format!("ok:{}", p.iter().map(u64::to_string).collect::<Vec<_>>().join("+")),
                        Err(Error::MaliciousRevealFailed) => "fail".to_string(),
                        Err(e) => format!("err:{}", kind(&e)),
                    };
                    drop(v);
                    (h, o)
                })
                .collect::<FuturesUnordered<_>>();
            let mut outs = vec!["~".to_string(); 3];
            while let Some((h, o)) = futs.next().await {
                if only.is_none() || only == Some(h) {
                    outs[h] = o;
                }
                if only == Some(h) {
                    break;
                }
            }
            format!("ref:{} {}", reference.join("+"), outs.join(","))
        }
    };
}

prf_runner!(prf_run_1, 1);
prf_runner!(prf_run_16, 16);

/// `c04.prf <lanes> <seed> <x lanes> <k> <attacker|-> <dest|-> <R|z> <delta lanes>`
fn exec_prf(t: &[&str]) -> String {
    let lanes: usize = t[1].parse().unwrap();
    let seed: u64 = t[2].parse().unwrap();
    let (x, k) = (t[3].to_string(), t[4].to_string());
    let step = if t[7] == "R" { PrfStep::RevealR } else { PrfStep::Revealz };
    let altered = t[8].split('+').any(|d| d != "0");
    let q = RevReq {
        ctx: MAC.into(),
        sharing: REP.into(),
        vtype: String::new(),
        entry: String::new(),
        seed,
        x: x.clone(),
        ex: None,
        at: opt_role(t[5]),
        dest: opt_role(t[6]),
        delta: t[8].into(),
    };
    let mut tamper = match (t[7], lanes) {
        ("R", 1) => q.tamper::<RP25519, 1>(false),
        ("R", 16) => q.tamper::<RP25519, 16>(false),
        ("z", 1) => q.tamper::<Fp25519, 1>(false),
        ("z", 16) => q.tamper::<Fp25519, 16>(false),
        (s, n) => panic!("harness: no PRF runner for step {s} with {n} lanes"),
    };
    if let Some(tm) = tamper.as_mut() {
        // the opening inside the protocol (not the validator's `validate/reveal_r`)
        let tm = Arc::get_mut(tm).unwrap();
        tm.targets[0].suffix = format!("/malicious_protocol/{}", step.as_ref());
    }
    let only = if altered { q.dest } else { None };
    let tm = tamper.clone();
    let r = block_on_timeout(40, async move {
        match lanes {
            1 => prf_run_1(seed, &x, &k, tm, only).await,
            16 => prf_run_16(seed, &x, &k, tm, only).await,
            n => panic!("harness: no PRF runner for {n} lanes"),
        }
    });
    match (r, tamper) {
        (Err(e), _) => e,
        (Ok(_), Some(t)) if t.hits.load(Ordering::SeqCst) == 0 => "untouched".into(),
        (Ok(out), _) => out,
    }
}

fn opt_role(s: &str) -> Option<usize> {
    if s == "-" { None } else { Some(s.parse::<usize>().unwrap() - 1) }
}

fn exec_reveal(req: &str) -> String {
    let t: Vec<&str> = req.split(' ').collect();
    if t[0] == "c04.revimpl" || t[0] == "c04.revimpls" {
        return exec_revimpl(&t);
    }
    if t[0] == "c04.prf" {
        return exec_prf(&t);
    }
    let field = t[1].to_string();
    let seed: u64 = t[2].parse().unwrap();
    let x = t[3].to_string();
    let excluded = opt_role(t[4]);
    let tamper = match (opt_role(t[5]), opt_role(t[6])) {
        (Some(at), Some(dest)) => {
            let size = size_of_field(&field);
            Some(Arc::new(Tamper::new(
                vec![Target { suffix: "/c04reveal".into(), src: at as u8 + 1, dst: dest as u8 + 1, offset: 0, size }],
                adder(&field, t[7]),
            )))
        }
        _ => None,
    };
    let r = block_on_timeout(40, async move {
        match field.as_str() {
            "Fp31" => reveal_fp31(seed, &x, excluded, tamper).await,
            "Fp32BitPrime" => reveal_fp32(seed, &x, excluded, tamper).await,
            "Fp25519" => reveal_fp25519(seed, &x, excluded, tamper).await,
            f => panic!("harness: unknown field {f}"),
        }
    });
    r.unwrap_or_else(|e| e)
}

#[test]
fn verif_c04_reveal() {
    run_suite(
        "c04_reveal",
        |rng, thorough| {
            let mut out = vec![];
            for field in ["Fp31", "Fp32BitPrime", "Fp25519"] {
                let e = edge_vals(field);
                // honest: full and partial reveal
                for ex in ["-", "1", "2", "3"] {
                    for x in [e[0].clone(), e[1].clone(), e[2].clone(), rand_val(rng, field)] {
                        out.push(format!("c04.reveal {field} {} {x} {ex} - - 0", rng.below(1 << 30)));
                    }
                }
                // every (attacker, destination, excluded) combination with attacker != destination
                for at in 1..=3usize {
                    for dest in 1..=3usize {
                        if at == dest {
                            continue;
                        }
                        for ex in ["-", "1", "2", "3"] {
                            let reps = if thorough { 4 } else { 1 };
                            for k in 0..reps {
                                let delta = match (k + at + dest) % 3 {
                                    0 => "1".to_string(),
                                    1 => e[2].clone(),
                                    _ => nonzero_val(rng, field),
                                };
                                let x = if k == 0 { e[(at + dest) % e.len()].clone() } else { rand_val(rng, field) };
                                out.push(format!("c04.reveal {field} {} {x} {ex} {at} {dest} {delta}", rng.below(1 << 30)));
                            }
                        }
                    }
                }
                // a zero "error" changes nothing
                out.push(format!("c04.reveal {field} {} 7 - 2 3 0", rng.below(1 << 30)));
            }
            // EVERY `impl Reveal<Ctx> for Sharing`, through the trait's entry points on the real contexts
            out.push("c04.revimpls".to_string());
            for (n, (ctx, sharing, vtype)) in REV_CASES.iter().enumerate() {
                let elements = if sharing.starts_with("BitDecomposed") { 3 } else { 1 };
                let full = ["reveal", "method", "generic"];
                let part = ["partial", "method", "generic"];
                // honest: to everybody, and to everybody but one
                let x = rev_value(rng, vtype, elements, n % 3 == 0);
                out.push(format!("c04.revimpl {ctx} {sharing} {vtype} {} {} {x} - - - {}", full[n % 3], rng.below(1 << 30), rev_zero(vtype, elements)));
                let x = rev_value(rng, vtype, elements, false);
                out.push(format!(
                    "c04.revimpl {ctx} {sharing} {vtype} {} {} {x} {} - - {}",
                    part[n % 3], rng.below(1 << 30), 1 + n % 3, rev_zero(vtype, elements)
                ));
                // one altered copy: all six (attacker, destination) pairs — towards the right and towards the left
                // neighbour; full opening, and partial with the third helper excluded
                let right = [(1usize, 2usize), (2, 3), (3, 1)];
                let left = [(1usize, 3usize), (2, 1), (3, 2)];
                let reps = if thorough { 3 } else { 1 };
                for rep in 0..reps {
                    let mut k = n + rep;
                    let pairs: Vec<(usize, usize, bool)> =
                        right.iter().chain(left.iter()).flat_map(|(a, d)| [(*a, *d, false), (*a, *d, true)]).collect();
                    for (at, dest, partial) in pairs {
                        k += 1;
                        let x = rev_value(rng, vtype, elements, k % 5 == 0);
                        let delta = rev_delta(rng, vtype, elements, k);
                        if partial {
                            let third = 6 - at - dest;
                            out.push(format!(
                                "c04.revimpl {ctx} {sharing} {vtype} {} {} {x} {third} {at} {dest} {delta}",
                                part[k % 3], rng.below(1 << 30)
                            ));
                        } else {
                            out.push(format!(
                                "c04.revimpl {ctx} {sharing} {vtype} {} {} {x} - {at} {dest} {delta}",
                                full[k % 3], rng.below(1 << 30)
                            ));
                        }
                    }
                }
                // a zero "error" changes nothing
                let x = rev_value(rng, vtype, elements, false);
                out.push(format!(
                    "c04.revimpl {ctx} {sharing} {vtype} generic {} {x} - {} {} {}",
                    rng.below(1 << 30), 1 + n % 3, 1 + (n + 1) % 3, rev_zero(vtype, elements)
                ));
            }
            // the openings inside eval_dy_prf: R = g^r (a plain Replicated<RP25519, N>, never MAC-upgraded) and z
            for lanes in [1usize, 16] {
                let vt = if lanes == 1 { "Fp25519".to_string() } else { format!("Fp25519x{lanes}") };
                for _ in 0..2 {
                    let x = rev_value(rng, &vt, 1, false);
                    let k = nonzero_val(rng, "Fp25519");
                    out.push(format!("c04.prf {lanes} {} {x} {k} - - R {}", rng.below(1 << 30), rev_zero(&vt, 1)));
                }
                let reps = if thorough { 3 } else { 1 };
                for rep in 0..reps {
                    let mut n = rep;
                    for step in ["R", "z"] {
                        for (at, dest) in [(1usize, 2usize), (2, 3), (3, 1), (1, 3), (2, 1), (3, 2)] {
                            n += 1;
                            let x = rev_value(rng, &vt, 1, false);
                            let k = nonzero_val(rng, "Fp25519");
                            let delta = rev_delta(rng, &vt, 1, n);
                            out.push(format!("c04.prf {lanes} {} {x} {k} {at} {dest} {step} {delta}", rng.below(1 << 30)));
                        }
                    }
                }
                let x = rev_value(rng, &vt, 1, false);
                out.push(format!("c04.prf {lanes} {} {x} 77 2 3 R {}", rng.below(1 << 30), rev_zero(&vt, 1)));
            }
            out
        },
        exec_reveal,
    );
}

/// (scalar type used for the lanes, lanes written per element, bits of a whole-array number)
fn rev_shape(vtype: &str) -> (&str, usize, usize) {
    let (base, n) = field_lanes(vtype);
    match base {
        "RP25519" => ("Fp25519", n, 0),
        "Boolean" => ("", 1, n),
        "BA8" => ("", 1, 8),
        "BA64" => ("", 1, 64),
        f => (f, n, 0),
    }
}

fn rev_bits_val(rng: &mut Rng, bits: usize) -> String {
    let mut b = rng.bytes(bits.div_ceil(8));
    if bits % 8 != 0 {
        let n = b.len();
        b[n - 1] &= (1u8 << (bits % 8)) - 1;
    }
    le_to_dec(&b)
}

/// a value: `elements` elements of `lanes` lanes each (BitDecomposed: elements of one lane / one number)
fn rev_value(rng: &mut Rng, vtype: &str, elements: usize, edges: bool) -> String {
    let (f, lanes, bits) = rev_shape(vtype);
    (0..elements * lanes)
        .map(|i| {
            if bits > 0 {
                if edges && i == 0 { "0".to_string() } else { rev_bits_val(rng, bits) }
            } else if edges {
                edge_vals(f)[i % 3].clone()
            } else {
                rand_val(rng, f)
            }
        })
        .collect::<Vec<_>>()
        .join("+")
}

fn rev_zero(vtype: &str, elements: usize) -> String {
    vec!["0"; elements * rev_shape(vtype).1].join("+")
}

/// an error: non-zero in one lane / element (the first, the last, a random one), or in all of them
fn rev_delta(rng: &mut Rng, vtype: &str, elements: usize, k: usize) -> String {
    let (f, lanes, bits) = rev_shape(vtype);
    let n = elements * lanes;
    let nz = |rng: &mut Rng, k: usize| -> String {
        if bits > 0 {
            match k % 3 {
                0 => "1".to_string(),
                // the top bit alone
                1 => {
                    let mut b = vec![0u8; bits.div_ceil(8)];
                    b[(bits - 1) / 8] = 1 << ((bits - 1) % 8);
                    le_to_dec(&b)
                }
                _ => loop {
                    let v = rev_bits_val(rng, bits);
                    if v != "0" {
                        break v;
                    }
                },
            }
        } else {
            match k % 3 {
                0 => "1".to_string(),
                1 => edge_vals(f)[2].clone(),
                _ => nonzero_val(rng, f),
            }
        }
    };
    let which = match k % 4 {
        0 => Some(0),
        1 => Some(n - 1),
        2 => Some(rng.usize_below(n)),
        _ => None,
    };
    (0..n)
        .map(|i| if which.is_none() || which == Some(i) { nz(rng, k + i) } else { "0".to_string() })
        .collect::<Vec<_>>()
        .join("+")
}

// ---------------------------------------------------------------------------------------------
// c04_race (b20): the running MACs of ONE validation batch under CONCURRENT `accumulate_macs` calls.
//
//   c04.race <field> <who 1|2|3|all> <T> <R> <S> <rpb> <seed>  ->  validated=<n> rounds=<R>
//
// One TestWorld; every round takes a fresh MAC validator per helper (`malicious_contexts()` hands out a fresh gate;
// total records = rpb = active work, i.e. exactly ONE validation batch). The batch key r is read through the test
// accessor `Upgraded::r`; for every (step s < S, record < rpb) a value x is drawn and consistent sharings ([x], [r x]) are
// handed to the helpers — a perfectly honest batch. On the helper(s) named by <who>, T real OS threads (std::thread,
// released together by a spin barrier) call the REAL `Upgraded::accumulate_macs` (the wrapper that upgrade / mac_multiply /
// the MAC reshare use) for their items: item j = s*rpb + record goes to thread j mod T, so at any moment the threads work
// on DISTINCT records of the SAME batch; the other helpers accumulate the same items on one thread each. Then all rpb
// records are validated on the three helpers (`validate_record`: propagate u/w, open r, T = u - r w, check-zero).
// Response: the number of rounds whose batch validated on all three helpers. Nobody deviates, so every round must
// validate whatever the scheduling (theorems `accumulate_atomic_sum`, `concurrent_honest_validates`): deterministic on a
// correct tree. If the update of (u, w) is not one critical section, a helper loses a local contribution, T is no
// longer a sharing of zero and the honest batch is rejected (` first=<round>:<helper>:<error>` is appended then).
macro_rules! race_field {
    ($name:ident, $f:ty) => {
fn $name(who: &str, threads: usize, rounds: usize, steps: usize, rpb: usize, seed: u64) -> String {
    type F = $f;
    use std::sync::atomic::AtomicBool;
    let mut rng = Rng(seed);
    let multi: Vec<bool> = (0..3).map(|h| who == "all" || who.parse::<usize>().ok() == Some(h + 1)).collect();
    assert!(multi.iter().any(|m| *m), "harness: who = 1|2|3|all");
    let active = NonZeroU32PowerOfTwo::try_from(rpb).expect("harness: rpb must be a power of two");
    let mut world = TestWorld::new_with(TestWorldConfig::default().with_seed(rng.below(1 << 40)));
    let mut validated = 0usize;
    let mut first_fail: Option<String> = None;
    for round in 0..rounds {
        // `malicious_contexts` hands out at most 999 gates per world
        if round > 0 && round % 900 == 0 {
            world = TestWorld::new_with(TestWorldConfig::default().with_seed(rng.below(1 << 40)));
        }
        let validators: Vec<_> = world
            .malicious_contexts()
            .into_iter()
            .map(|ctx| ctx.set_active_work(active).set_total_records(rpb).validator::<F>())
            .collect();
        let m_ctxs: Vec<_> = validators.iter().map(|v| v.context()).collect();
        let rs: Vec<Replicated<F>> = m_ctxs.iter().map(|c| c.r(RecordId::FIRST)).collect();
        // helper i holds (r_i, r_{i+1}): the key is the sum of the left components
        let r: F = rs[0].left() + rs[1].left() + rs[2].left();
        assert!(rs[0].right() == rs[1].left() && rs[1].right() == rs[2].left() && rs[2].right() == rs[0].left(), "harness: r is a replicated sharing");
        // honest work: ([x], [r x]) for every (step, record), split by helper
        let mut work: Vec<Vec<(usize, usize, MaliciousReplicated<F>)>> = vec![vec![], vec![], vec![]];
        for s in 0..steps {
            for record in 0..rpb {
                let x: F = draw_canonical::<F>(&mut rng);
                let xs = share3::<F>(&mut rng, x);
                let rxs = share3::<F>(&mut rng, r * x);
                for (h, (xh, rxh)) in xs.into_iter().zip(rxs).enumerate() {
                    work[h].push((s, record, MaliciousReplicated::new(xh, rxh)));
                }
            }
        }
        // narrowed contexts per (helper, step), made before the threads start
        let stepped: Vec<Vec<_>> = m_ctxs.iter().map(|c| (0..steps).map(|s| c.narrow(&format!("race{s}"))).collect()).collect();
        let total_threads: usize = multi.iter().map(|m| if *m { threads } else { 1 }).sum();
        let arrived = AtomicUsize::new(0);
        let panicked = AtomicBool::new(false);
        std::thread::scope(|sc| {
            for h in 0..3 {
                let k = if multi[h] { threads } else { 1 };
                for t in 0..k {
                    let (work, stepped, arrived, panicked) = (&work[h], &stepped[h], &arrived, &panicked);
                    sc.spawn(move || {
                        // spin barrier: all threads of all helpers leave it within a few nanoseconds of each other
                        arrived.fetch_add(1, Ordering::SeqCst);
                        let mut spins = 0u32;
                        while arrived.load(Ordering::Acquire) < total_threads {
                            spins += 1;
                            if spins % 4096 == 0 {
                                std::thread::yield_now();
                            } else {
                                std::hint::spin_loop();
                            }
                        }
                        let r = std::panic::catch_unwind(std::panic::AssertUnwindSafe(|| {
                            for (s, record, share) in work.iter().skip(t).step_by(k) {
                                stepped[*s].clone().accumulate_macs(RecordId::from(*record), share);
                            }
                        }));
                        if r.is_err() {
                            panicked.store(true, Ordering::SeqCst);
                        }
                    });
                }
            }
        });
        assert!(!panicked.load(Ordering::SeqCst), "harness: accumulate_macs panicked in round {round}");
        // ... and the batch is validated: every record of it, on every helper
        let results: Vec<Vec<Result<(), Error>>> = tokio::runtime::Handle::current().block_on(futures::future::join_all(
            m_ctxs.iter().map(|ctx| futures::future::join_all((0..rpb).map(move |i| ctx.validate_record(RecordId::from(i))))),
        ));
        let bad = results.iter().enumerate().find_map(|(h, rs)| rs.iter().find_map(|r| r.as_ref().err().map(|e| format!("{round}:{}:{}", h + 1, kind(e)))));
        match bad {
            None => validated += 1,
            Some(b) => {
                first_fail.get_or_insert(b);
            }
        }
        drop(m_ctxs);
        drop(stepped);
        drop(validators);
    }
    match first_fail {
        None => format!("validated={validated} rounds={rounds}"),
        Some(f) => format!("validated={validated} rounds={rounds} first={f}"),
    }
}

    };
}
race_field!(race_fp31, Fp31);
race_field!(race_fp32, Fp32BitPrime);
race_field!(race_fp25519, Fp25519);

fn exec_race(req: &str) -> String {
    let t: Vec<&str> = req.split(' ').collect();
    assert_eq!(t[0], "c04.race");
    let (field, who) = (t[1].to_string(), t[2].to_string());
    let p: Vec<usize> = t[3..7].iter().map(|x| x.parse().unwrap()).collect();
    let (threads, rounds, steps, rpb) = (p[0], p[1], p[2], p[3]);
    let seed: u64 = t[7].parse().unwrap();
    assert!((1..=32).contains(&threads) && rounds <= 100_000 && (1..=4096).contains(&steps) && (2..=4096).contains(&rpb), "harness: bad race parameters");
    let r = block_on_timeout(600, async move {
        // the world's background tasks live on this runtime; the rounds block one of its workers
        tokio::task::spawn_blocking(move || match field.as_str() {
            "Fp31" => race_fp31(&who, threads, rounds, steps, rpb, seed),
            "Fp32BitPrime" => race_fp32(&who, threads, rounds, steps, rpb, seed),
            "Fp25519" => race_fp25519(&who, threads, rounds, steps, rpb, seed),
            f => panic!("harness: unknown field {f}"),
        })
        .await
    });
    match r {
        Ok(Ok(s)) => s,
        Ok(Err(e)) => match e.try_into_panic() {
            Ok(p) => std::panic::resume_unwind(p),
            Err(e) => format!("join:{e}"),
        },
        Err(e) => e,
    }
}

#[test]
fn verif_c04_race() {
    run_suite(
        "c04_race",
        |rng, thorough| {
            let k = if thorough { 20 } else { 1 };
            let mut out = vec![];
            // (field, who, threads, rounds, steps, records per batch)
            for (field, who, threads, rounds, steps, rpb) in [
                ("Fp32BitPrime", "1", 4usize, 150usize, 8usize, 16usize),
                ("Fp32BitPrime", "all", 4, 100, 8, 16),
                ("Fp32BitPrime", "2", 2, 100, 16, 4),
                ("Fp25519", "3", 4, 60, 4, 16),
                ("Fp32BitPrime", "all", 3, 40, 2, 64),
                ("Fp31", "1", 8, 60, 8, 8),
                ("Fp32BitPrime", "1", 1, 20, 8, 16),
            ] {
                out.push(format!("c04.race {field} {who} {threads} {} {steps} {rpb} {}", rounds * k, rng.below(1 << 40)));
            }
            out
        },
        exec_race,
    );
}

// The same under `--features "ipa-verif multi-threading"` (props/C04.json `extra_builds`, target shared with C15's `mt`
// build): there `seq_join` / `try_join` SPAWN the per-record futures on the runtime's worker threads, so in `c04.honest` the
// records of one batch reach `accumulate_macs` (through the real upgrade / multiply) from several OS threads by themselves —
// the production path on which a non-atomic update of (u, w) bites. Large batches (many records in flight), honest runs
// must open the plaintext values with consistent MACs; plus the explicit thread race again in this build.
#[cfg(feature = "multi-threading")]
#[test]
fn verif_c04mt_race() {
    run_suite(
        "c04mt_race",
        |rng, thorough| {
            let k = if thorough { 10 } else { 1 };
            let mut out = vec![];
            for (field, who, threads, rounds, steps, rpb) in [("Fp32BitPrime", "all", 4usize, 60usize, 8usize, 16usize), ("Fp32BitPrime", "2", 4, 60, 8, 16)] {
                out.push(format!("c04.race {field} {who} {threads} {} {steps} {rpb} {}", rounds * k, rng.below(1 << 40)));
            }
            for rep in 0..3 * k {
                for (field, rpb, count, prog) in [
                    ("Fp32BitPrime", 64usize, 64usize, "u.u.m0:1.m2:0"),
                    ("Fp32BitPrime", 32, 96, "u.u.u.m0:1.m3:2"),
                    ("Fp25519", 16, 32, "u.u.m0:1"),
                ] {
                    let inputs = gen_inputs(rng, field, prog, count, rep == 0, false);
                    out.push(format!("c04.honest {field} {rpb} {count} {} {prog} {inputs}", rng.below(1 << 30)));
                }
            }
            out
        },
        |req| if req.starts_with("c04.race ") { exec_race(req) } else { exec_mac(req) },
    );
}
