// Correspondence suites for property C04. Each suite is a #[test] fn named verif_c04_<suite>.
