// Correspondence suites for property C17 (byte-stream parsers). Each suite is a #[test] fn named
// verif_c17_<suite>.
//
// Upstream chunk lists: comma-separated, `-` = empty chunk, `!` = upstream error, `.` = no item.
//   c17.records <single|batch> <ty> <chunks>   ty: r1..r8 (N-byte record, invalid iff first byte = ff), fp31, fp32
//   c17.ld <chunks>                             LengthDelimitedStream (record invalid iff first byte = ff)
//   c17.buffered <sz> <chunks>                  BufferedBytesStream
//   c17.slice <N> <n>   c17.streamchunks <N> <items>   c17.unpack <N> <M> <F|P<len>> <datalen>
//   c17.flatten <lists> c17.fixed <len> <n>
// Streams are polled by hand (noop waker) until the first error or the end of the stream.
use std::{
    future::Future,
    io,
    num::NonZeroUsize,
    pin::Pin,
    task::{Context, Poll},
};

use bytes::Bytes;
use futures::{Stream, stream};
use generic_array::{ArrayLength, GenericArray};
use typenum::{U1, U2, U3, U4, U5, U6, U7, U8};

use super::proto::*;
use crate::{
    error::{BoxError, Error},
    ff::{Fp31, Fp32BitPrime, Serializable, U128Conversions},
    helpers::{
        BufferedBytesStream, LengthDelimitedStream, RecordsStream, SingleRecordStream,
        stream::{ChunkData, FixedLength, TryFlattenItersExt, process_slice_by_chunks, process_stream_by_chunks},
    },
};

#[derive(Debug)]
struct BadRec;
impl std::fmt::Display for BadRec {
    fn fmt(&self, f: &mut std::fmt::Formatter<'_>) -> std::fmt::Result {
        write!(f, "verif-bad-record")
    }
}
impl std::error::Error for BadRec {}

/// Fixed-size test record: any N bytes, invalid iff the first byte is 0xff.
#[derive(Debug, Clone, PartialEq, Eq)]
struct Rec<N: ArrayLength>(GenericArray<u8, N>);

impl<N: ArrayLength> Serializable for Rec<N> {
    type Size = N;
    type DeserializationError = BadRec;

    fn serialize(&self, buf: &mut GenericArray<u8, Self::Size>) {
        buf.copy_from_slice(&self.0);
    }

    fn deserialize(buf: &GenericArray<u8, Self::Size>) -> Result<Self, Self::DeserializationError> {
        if buf[0] == 0xff { Err(BadRec) } else { Ok(Rec(buf.clone())) }
    }
}

trait RecHex {
    fn rec_hex(&self) -> String;
}
impl<N: ArrayLength> RecHex for Rec<N> {
    fn rec_hex(&self) -> String {
        hex(&self.0)
    }
}
impl RecHex for Fp31 {
    fn rec_hex(&self) -> String {
        hex(&[self.as_u128() as u8])
    }
}
impl RecHex for Fp32BitPrime {
    fn rec_hex(&self) -> String {
        hex(&(self.as_u128() as u32).to_le_bytes())
    }
}

/// Variable-size test record, invalid iff non-empty and the first byte is 0xff.
struct LRec(Vec<u8>);
impl TryFrom<Bytes> for LRec {
    type Error = BadRec;
    fn try_from(b: Bytes) -> Result<Self, BadRec> {
        if b.first() == Some(&0xff) { Err(BadRec) } else { Ok(LRec(b.to_vec())) }
    }
}

fn upstream(spec: &str) -> Vec<Result<Bytes, BoxError>> {
    if spec == "." {
        return vec![];
    }
    spec.split(',')
        .map(|t| {
            if t == "!" {
                Err::<Bytes, BoxError>("verif-upstream".into())
            } else {
                Ok(Bytes::from(unhex(t)))
            }
        })
        .collect()
}

/// Poll `s` by hand until `f` says stop or the stream ends; `Pending` is a harness error (all
/// upstreams are `stream::iter`).
fn drain<S: Stream>(s: S, mut f: impl FnMut(Option<S::Item>) -> bool) {
    let mut s = Box::pin(s);
    let mut cx = Context::from_waker(futures::task::noop_waker_ref());
    loop {
        match s.as_mut().poll_next(&mut cx) {
            Poll::Pending => panic!("harness: stream returned Pending"),
            Poll::Ready(item) => {
                let end = item.is_none();
                if !f(item) || end {
                    return;
                }
            }
        }
    }
}

fn now<F: Future>(f: F) -> F::Output {
    let mut f = Box::pin(f);
    let mut cx = Context::from_waker(futures::task::noop_waker_ref());
    match f.as_mut().poll(&mut cx) {
        Poll::Ready(v) => v,
        Poll::Pending => panic!("harness: future returned Pending"),
    }
}

fn trailing(msg: &str) -> Option<String> {
    let pat = "stream terminated with ";
    msg.find(pat).map(|i| {
        let rest = &msg[i + pat.len()..];
        let end = rest.find(|c: char| !c.is_ascii_digit()).unwrap_or(rest.len());
        format!("E:trailing:{}", &rest[..end])
    })
}

fn err_tag(e: &Error) -> String {
    let msg = format!("{e} / {e:?}");
    if let Some(t) = trailing(&msg) {
        t
    } else if msg.contains("verif-upstream") {
        "E:upstream".into()
    } else if matches!(e, Error::ParseError(_)) {
        "E:parse".into()
    } else {
        format!("E:other:{}", canon(&msg).replace(' ', "_"))
    }
}

fn io_tag(e: &io::Error) -> String {
    let msg = format!("{e} / {e:?}");
    if let Some(t) = trailing(&msg) {
        t
    } else if msg.contains("verif-upstream") {
        "E:upstream".into()
    } else if e.kind() == io::ErrorKind::InvalidData {
        "E:parse".into()
    } else {
        format!("E:other:{}", canon(&msg).replace(' ', "_"))
    }
}

fn records_single<T: Serializable + RecHex>(chunks: &str) -> String {
    let mut out = vec![];
    drain(SingleRecordStream::<T, _>::new(stream::iter(upstream(chunks))), |item| match item {
        None => {
            out.push("end".to_string());
            false
        }
        Some(Ok(r)) => {
            out.push(r.rec_hex());
            true
        }
        Some(Err(e)) => {
            out.push(err_tag(&e));
            false
        }
    });
    out.join(" ")
}

fn records_batch<T: Serializable + RecHex>(chunks: &str) -> String {
    let mut out = vec![];
    drain(RecordsStream::<T, _>::new(stream::iter(upstream(chunks))), |item| match item {
        None => {
            out.push("end".to_string());
            false
        }
        Some(Ok(rs)) => {
            out.push(format!("[{}]", rs.iter().map(RecHex::rec_hex).collect::<Vec<_>>().join("+")));
            true
        }
        Some(Err(e)) => {
            out.push(err_tag(&e));
            false
        }
    });
    out.join(" ")
}

fn records<T: Serializable + RecHex>(mode: &str, chunks: &str) -> String {
    match mode {
        "single" => records_single::<T>(chunks),
        "batch" => records_batch::<T>(chunks),
        _ => panic!("harness: unknown mode {mode}"),
    }
}

fn chunk_debug<K: std::fmt::Debug>(c: &K) -> (String, String) {
    // `Chunk { chunk_type: Partial(2), data: [1, 2, 0] }`
    let s = format!("{c:?}");
    let ct = if s.contains("chunk_type: Full") {
        "F".to_string()
    } else {
        let pat = "chunk_type: Partial(";
        let i = s.find(pat).expect("harness: unexpected Chunk debug format") + pat.len();
        let rest = &s[i..];
        format!("P{}", &rest[..rest.find(')').unwrap()])
    };
    let pat = "data: ";
    let i = s.find(pat).unwrap() + pat.len();
    let data = s[i..s.len() - 2]
        .trim_matches(|c| c == '[' || c == ']')
        .split(", ")
        .filter(|x| !x.is_empty())
        .collect::<Vec<_>>()
        .join("+");
    (ct, if data.is_empty() { "-".into() } else { data })
}

fn join_u32(v: &[u32]) -> String {
    if v.is_empty() { "-".into() } else { v.iter().map(|x| x.to_string()).collect::<Vec<_>>().join("+") }
}

fn slice_n<const N: usize>(n: usize) -> String {
    let input: Vec<u32> = (1..=n as u32).collect();
    let idxs = std::cell::RefCell::new(vec![]);
    let mut out = vec![];
    let mut flat: Vec<u32> = vec![];
    drain(
        process_slice_by_chunks::<u32, _, _, _, N>(&input, |idx, chunk: ChunkData<'_, u32, N>| {
            idxs.borrow_mut().push(idx);
            let v = chunk.to_vec();
            async move { Ok::<_, Error>(v) }
        }),
        |item| {
            if let Some(fut) = item {
                let chunk = now(fut).unwrap();
                let (ct, data) = chunk_debug(&chunk);
                out.push(format!("{}:{ct}:{data}", idxs.borrow().last().unwrap()));
                flat.extend(chunk);
            }
            true
        },
    );
    out.push("|".into());
    out.push(format!("flat={}", join_u32(&flat)));
    out.join(" ")
}

fn stream_chunks_n<const N: usize>(items: &str) -> String {
    let input: Vec<Result<u32, Error>> = if items == "." {
        vec![]
    } else {
        items.split(',').map(|t| if t == "!" { Err(Error::Internal) } else { Ok(t.parse().unwrap()) }).collect()
    };
    let idxs = std::cell::RefCell::new(vec![]);
    let mut out = vec![];
    let mut polls_after_end = 0;
    let mut st = Box::pin(process_stream_by_chunks::<_, u32, Vec<u32>, _, _, _, N>(
        stream::iter(input),
        Vec::new(),
        |idx, chunk: Box<[u32; N]>| {
            idxs.borrow_mut().push(idx);
            let v = chunk.to_vec();
            async move { Ok::<_, Error>(v) }
        },
    ));
    let mut cx = Context::from_waker(futures::task::noop_waker_ref());
    loop {
        match st.as_mut().poll_next(&mut cx) {
            Poll::Pending => panic!("harness: stream returned Pending"),
            Poll::Ready(None) => {
                // fused: polling again must keep answering None
                polls_after_end += 1;
                if polls_after_end == 2 {
                    break;
                }
            }
            Poll::Ready(Some(fut)) => {
                assert_eq!(polls_after_end, 0, "item after end of stream");
                match now(fut) {
                    Ok(chunk) => {
                        let (ct, data) = chunk_debug(&chunk);
                        out.push(format!("{}:{ct}:{data}", idxs.borrow().last().unwrap()));
                    }
                    Err(_) => out.push("E".into()),
                }
            }
        }
    }
    out.join(" ")
}

fn unpack_nm<const N: usize, const M: usize>(ct: &str, datalen: usize) -> String {
    // build the chunk through the public API: a slice of N (full) or k < N (partial) records whose
    // processing function returns `datalen` sub-chunk payloads
    let n = match ct {
        "F" => N,
        p => p[1..].parse::<usize>().unwrap(),
    };
    assert!(n >= 1 && n <= N, "harness: chunk type {ct} is not producible for N = {N}");
    let input: Vec<u32> = vec![0; n];
    let mut res = String::new();
    drain(
        process_slice_by_chunks::<u32, _, _, _, N>(&input, |_idx, _chunk: ChunkData<'_, u32, N>| async move {
            Ok::<_, Error>((0..datalen as u32).collect::<Vec<u32>>())
        }),
        |item| {
            if let Some(fut) = item {
                let chunk = now(fut).unwrap();
                let subs = chunk.unpack::<M>();
                let mut out = vec!["ok".to_string()];
                for s in &subs {
                    let (ct, data) = chunk_debug(s);
                    out.push(format!("{ct}:{data}"));
                }
                res = out.join(" ");
            }
            true
        },
    );
    res
}

fn flatten(lists: &str) -> String {
    let input: Vec<Result<Vec<u32>, Error>> = if lists == "." {
        vec![]
    } else {
        lists
            .split(',')
            .map(|t| match t {
                "!" => Err(Error::Internal),
                "-" => Ok(vec![]),
                l => Ok(l.split('+').map(|x| x.parse().unwrap()).collect()),
            })
            .collect()
    };
    let mut out = vec![];
    let mut st = Box::pin(stream::iter(input).try_flatten_iters());
    let mut cx = Context::from_waker(futures::task::noop_waker_ref());
    let mut ended = 0;
    loop {
        match st.as_mut().poll_next(&mut cx) {
            Poll::Pending => panic!("harness: stream returned Pending"),
            Poll::Ready(None) => {
                ended += 1;
                if ended == 2 {
                    break;
                }
            }
            Poll::Ready(Some(item)) => {
                assert_eq!(ended, 0, "item after end of stream");
                match item {
                    Ok(x) => out.push(x.to_string()),
                    Err(_) => out.push("E".into()),
                }
            }
        }
    }
    out.push("end".into());
    out.join(" ")
}

fn ld(chunks: &str) -> String {
    let mut out = vec![];
    drain(LengthDelimitedStream::<LRec, _>::new(stream::iter(upstream(chunks))), |item| match item {
        None => {
            out.push("end".to_string());
            false
        }
        Some(Ok(rs)) => {
            out.push(format!("[{}]", rs.iter().map(|r| hex(&r.0)).collect::<Vec<_>>().join("+")));
            true
        }
        Some(Err(e)) => {
            out.push(io_tag(&e));
            false
        }
    });
    out.join(" ")
}

fn buffered(sz: usize, chunks: &str) -> String {
    let mut out = vec![];
    drain(
        BufferedBytesStream::new(stream::iter(upstream(chunks)), NonZeroUsize::new(sz).unwrap()),
        |item| match item {
            None => {
                out.push("end".to_string());
                false
            }
            Some(Ok(b)) => {
                out.push(hex(&b));
                true
            }
            Some(Err(e)) => {
                let msg = format!("{e}");
                out.push(if msg.contains("verif-upstream") { "E:upstream".into() } else { format!("E:other:{}", msg.replace(' ', "_")) });
                false
            }
        },
    );
    out.join(" ")
}

pub fn exec(req: &str) -> String {
    let t: Vec<&str> = req.split(' ').collect();
    match t[0] {
        "c17.records" => match t[2] {
            "r1" => records::<Rec<U1>>(t[1], t[3]),
            "r2" => records::<Rec<U2>>(t[1], t[3]),
            "r3" => records::<Rec<U3>>(t[1], t[3]),
            "r4" => records::<Rec<U4>>(t[1], t[3]),
            "r5" => records::<Rec<U5>>(t[1], t[3]),
            "r6" => records::<Rec<U6>>(t[1], t[3]),
            "r7" => records::<Rec<U7>>(t[1], t[3]),
            "r8" => records::<Rec<U8>>(t[1], t[3]),
            "fp31" => records::<Fp31>(t[1], t[3]),
            "fp32" => records::<Fp32BitPrime>(t[1], t[3]),
            ty => panic!("harness: unknown record type {ty}"),
        },
        "c17.ld" => ld(t[1]),
        "c17.buffered" => buffered(t[1].parse().unwrap(), t[2]),
        "c17.slice" => {
            let n: usize = t[2].parse().unwrap();
            match t[1] {
                "1" => slice_n::<1>(n),
                "2" => slice_n::<2>(n),
                "3" => slice_n::<3>(n),
                "4" => slice_n::<4>(n),
                "8" => slice_n::<8>(n),
                w => panic!("harness: unsupported chunk width {w}"),
            }
        }
        "c17.streamchunks" => match t[1] {
            "1" => stream_chunks_n::<1>(t[2]),
            "2" => stream_chunks_n::<2>(t[2]),
            "3" => stream_chunks_n::<3>(t[2]),
            "4" => stream_chunks_n::<4>(t[2]),
            "8" => stream_chunks_n::<8>(t[2]),
            w => panic!("harness: unsupported chunk width {w}"),
        },
        "c17.unpack" => {
            let dl: usize = t[4].parse().unwrap();
            match (t[1], t[2]) {
                ("1", "1") => unpack_nm::<1, 1>(t[3], dl),
                ("4", "1") => unpack_nm::<4, 1>(t[3], dl),
                ("4", "2") => unpack_nm::<4, 2>(t[3], dl),
                ("4", "4") => unpack_nm::<4, 4>(t[3], dl),
                ("4", "3") => unpack_nm::<4, 3>(t[3], dl),
                ("6", "2") => unpack_nm::<6, 2>(t[3], dl),
                ("6", "3") => unpack_nm::<6, 3>(t[3], dl),
                ("8", "2") => unpack_nm::<8, 2>(t[3], dl),
                ("8", "4") => unpack_nm::<8, 4>(t[3], dl),
                (n, m) => panic!("harness: unsupported unpack {n}/{m}"),
            }
        }
        "c17.flatten" => flatten(t[1]),
        "c17.fixed" => {
            let (len, n): (usize, usize) = (t[1].parse().unwrap(), t[2].parse().unwrap());
            let mut count = 0;
            drain(FixedLength::new(stream::iter(0..n), len), |item| {
                if item.is_some() {
                    count += 1;
                }
                true
            });
            format!("ok {count}")
        }
        _ => panic!("harness: unknown request {req}"),
    }
}

// ------------------------------------------------------------------------------------------ generators

/// all ways to cut `bytes` into non-empty consecutive pieces: bit i of `mask` set = cut after byte i
fn chunking(bytes: &[u8], mask: usize, empties: usize, rng: &mut Rng) -> String {
    let mut parts: Vec<Vec<u8>> = vec![];
    let mut cur: Vec<u8> = vec![];
    for (i, b) in bytes.iter().enumerate() {
        cur.push(*b);
        if i + 1 == bytes.len() || mask >> i & 1 == 1 {
            parts.push(std::mem::take(&mut cur));
        }
    }
    let mut toks: Vec<String> = vec![];
    match empties {
        0 => toks = parts.iter().map(|p| hex(p)).collect(),
        // an empty chunk at every boundary (and both ends)
        1 => {
            toks.push("-".into());
            for p in &parts {
                toks.push(hex(p));
                toks.push("-".into());
            }
        }
        // empty chunks at random places
        _ => {
            for p in &parts {
                while rng.below(3) == 0 {
                    toks.push("-".into());
                }
                toks.push(hex(p));
            }
            while rng.below(3) == 0 {
                toks.push("-".into());
            }
        }
    }
    if toks.is_empty() { ".".into() } else { toks.join(",") }
}

fn random_chunking(bytes: &[u8], rng: &mut Rng, max_chunk: usize, with_err: bool) -> String {
    let mut toks: Vec<String> = vec![];
    let mut i = 0;
    let err_at = if with_err { Some(rng.usize_below(bytes.len() + 1)) } else { None };
    let mut err_done = false;
    while i < bytes.len() {
        if let Some(e) = err_at {
            if !err_done && i >= e {
                toks.push("!".into());
                err_done = true;
            }
        }
        if rng.below(8) == 0 {
            toks.push("-".into());
            continue;
        }
        let mut k = 1 + rng.usize_below(max_chunk);
        if let Some(e) = err_at {
            if !err_done && i < e {
                k = k.min(e - i);
            }
        }
        let k = k.min(bytes.len() - i);
        toks.push(hex(&bytes[i..i + k]));
        i += k;
    }
    if with_err && !err_done {
        toks.push("!".into());
    }
    if toks.is_empty() { ".".into() } else { toks.join(",") }
}

fn encode_ld(records: &[Vec<u8>]) -> Vec<u8> {
    let mut v = vec![];
    for r in records {
        v.extend_from_slice(&(r.len() as u16).to_le_bytes());
        v.extend_from_slice(r);
    }
    v
}

fn gen_streams(rng: &mut Rng, thorough: bool) -> Vec<String> {
    let mut out: Vec<String> = vec![];
    // ---- boundaries first
    for s in [
        "c17.records single r1 .", "c17.records batch r1 .", "c17.records single r2 -", "c17.records batch r2 -,-",
        "c17.records single r2 01", "c17.records batch r2 01", "c17.records batch r2 -,01,-", "c17.records single r1 !",
        "c17.records batch r3 010203,!", "c17.records batch r3 0102,!,03", "c17.records single r3 0102,!,03",
        "c17.records batch r2 0102ff04,0506", "c17.records batch r2 0102,ff04,0506", "c17.records single r2 0102,ff04,0506",
        "c17.records batch r1 ff", "c17.records batch fp31 001e1f00", "c17.records single fp31 00,1e,1f,00",
        "c17.records batch fp32 fafffffffbffffff", "c17.records single fp32 fafffffffbffffff", "c17.records batch fp32 faffff,fffbffffff,01",
        "c17.ld .", "c17.ld -", "c17.ld 00", "c17.ld 0000", "c17.ld 00,00", "c17.ld 0000,0000,0000", "c17.ld 000000", "c17.ld 0100", "c17.ld 0100,aa",
        "c17.ld 01,00,aa", "c17.ld 0100aa0000", "c17.ld 0100aa00", "c17.ld 0200aa", "c17.ld 0200aa,!", "c17.ld !", "c17.ld 0100ff", "c17.ld 0100aa0100ff0100bb",
        "c17.ld 0100aa,0100ff,0100bb", "c17.ld 0100aa0100,ff0100bb", "c17.ld 0000,0100ff", "c17.ld 00000100ff",
        "c17.buffered 1 .", "c17.buffered 3 -", "c17.buffered 3 0102", "c17.buffered 3 010203", "c17.buffered 3 01020304", "c17.buffered 3 01,02,03,04,05,06",
        "c17.buffered 3 0102,!", "c17.buffered 3 01020304,!,05", "c17.buffered 2 -,-,01,-",
    ] {
        out.push(s.to_string());
    }
    // ---- exhaustive chunkings of short streams
    let nmax = if thorough { 14 } else { 10 };
    for n in 0..=nmax {
        let plain: Vec<u8> = (1..=n as u8).collect();
        let nmasks = if n == 0 { 1 } else { 1usize << (n - 1) };
        for mask in 0..nmasks {
            let variants: &[usize] = if n <= 6 { &[0, 1, 2] } else if mask % 2 == 0 { &[0, 1] } else { &[0, 2] };
            for &e in variants {
                let c = chunking(&plain, mask, e, rng);
                for sz in 1..=8usize {
                    if n > 10 && !(sz <= 3 || sz == 8) {
                        continue;
                    }
                    out.push(format!("c17.records single r{sz} {c}"));
                    out.push(format!("c17.records batch r{sz} {c}"));
                }
                if n <= 8 || mask % 4 == 0 {
                    for sz in [1usize, 2, 3, 4, 8] {
                        out.push(format!("c17.buffered {sz} {c}"));
                    }
                }
            }
            // one invalid record at a position derived from the mask
            if n >= 1 && n <= 9 {
                let mut bad = plain.clone();
                bad[mask % n] = 0xff;
                let c = chunking(&bad, mask, mask % 3, rng);
                for sz in 1..=4usize {
                    out.push(format!("c17.records single r{sz} {c}"));
                    out.push(format!("c17.records batch r{sz} {c}"));
                }
            }
        }
    }
    // length-delimited: every encoding of small length lists, every truncation, every chunking
    let lens: Vec<Vec<usize>> = vec![
        vec![0], vec![1], vec![2], vec![3], vec![0, 0], vec![0, 1], vec![1, 0], vec![1, 1], vec![2, 1], vec![0, 0, 0],
        vec![1, 0, 1], vec![0, 2, 0], vec![4], vec![2, 2], vec![1, 1, 1], vec![0, 0, 0, 0], vec![5, 0], vec![0, 6], vec![3, 3],
        vec![1, 2, 1], vec![0, 1, 0, 1],
    ];
    for ls in &lens {
        let recs: Vec<Vec<u8>> = ls.iter().enumerate().map(|(i, l)| (0..*l).map(|j| (0x10 * (i + 1) + j) as u8).collect()).collect();
        let full = encode_ld(&recs);
        if full.len() > nmax {
            continue;
        }
        for cutoff in 0..=full.len() {
            let bytes = &full[..cutoff];
            let nmasks = if bytes.is_empty() { 1 } else { 1usize << (bytes.len() - 1) };
            for mask in 0..nmasks {
                let e = if bytes.len() <= 6 { mask % 3 } else if mask % 5 == 0 { 1 + mask % 2 } else { 0 };
                out.push(format!("c17.ld {}", chunking(bytes, mask, e, rng)));
                if bytes.len() <= 6 && e != 0 {
                    out.push(format!("c17.ld {}", chunking(bytes, mask, 0, rng)));
                }
            }
        }
        // an invalid record in each position
        for bad in 0..recs.len() {
            if recs[bad].is_empty() {
                continue;
            }
            let mut r2 = recs.clone();
            r2[bad][0] = 0xff;
            let bytes = encode_ld(&r2);
            let nmasks = 1usize << (bytes.len() - 1);
            for mask in 0..nmasks {
                out.push(format!("c17.ld {}", chunking(&bytes, mask, mask % 3, rng)));
            }
        }
    }
    // ---- longer streams, random chunkings
    let reps = if thorough { 3000 } else { 300 };
    for k in 0..reps {
        // variable-length records with the interesting lengths
        let nrec = 1 + rng.usize_below(7);
        let mut recs: Vec<Vec<u8>> = (0..nrec)
            .map(|_| {
                let l = *rng.pick(&[0usize, 0, 1, 2, 255, 256, 300, 3, 80]);
                let mut r = rng.bytes(l);
                if !r.is_empty() && r[0] == 0xff {
                    r[0] = 0xfe;
                }
                r
            })
            .collect();
        if k % 7 == 0 {
            let i = rng.usize_below(nrec);
            if !recs[i].is_empty() {
                recs[i][0] = 0xff;
            }
        }
        let mut bytes = encode_ld(&recs);
        if k % 3 == 0 {
            let cut = rng.usize_below(bytes.len() + 1);
            bytes.truncate(cut);
        }
        let max_chunk = *rng.pick(&[1usize, 2, 3, 7, 64, 255, 256, 257, 400, 1000]);
        out.push(format!("c17.ld {}", random_chunking(&bytes, rng, max_chunk, k % 5 == 0)));
        // fixed-size records
        let n = rng.usize_below(200);
        let mut bytes = rng.bytes(n);
        for b in bytes.iter_mut() {
            if *b == 0xff && k % 4 != 0 {
                *b = 0xfe;
            }
        }
        let sz = 1 + rng.usize_below(8);
        let mc = *rng.pick(&[1usize, 2, 5, 8, 16, 33, 64, 200]);
        let c = random_chunking(&bytes, rng, mc, k % 6 == 0);
        out.push(format!("c17.records single r{sz} {c}"));
        out.push(format!("c17.records batch r{sz} {c}"));
        out.push(format!("c17.buffered {} {c}", 1 + rng.usize_below(40)));
        // real field types: bytes around the primes
        let mut fb: Vec<u8> = vec![];
        for _ in 0..rng.usize_below(12) {
            let v = *rng.pick(&[0u32, 1, 30, 31, 4_294_967_290, 4_294_967_291, 4_294_967_295, 7]);
            fb.extend_from_slice(&v.to_le_bytes());
        }
        let mc = *rng.pick(&[1usize, 3, 4, 9]);
        let c = random_chunking(&fb, rng, mc, false);
        out.push(format!("c17.records batch fp32 {c}"));
        out.push(format!("c17.records single fp32 {c}"));
        out.push(format!("c17.records batch fp31 {c}"));
        out.push(format!("c17.records single fp31 {c}"));
    }
    out
}

fn gen_chunks(rng: &mut Rng, thorough: bool) -> Vec<String> {
    let mut out = vec![];
    for n_width in [1usize, 2, 3, 4, 8] {
        for n in 0..=(if thorough { 64 } else { 26 }) {
            out.push(format!("c17.slice {n_width} {n}"));
        }
        // streams of items with an upstream error at every position (and none)
        for n in 0..=(if thorough { 20 } else { 11 }) {
            let items: Vec<String> = (1..=n).map(|x| x.to_string()).collect();
            out.push(format!("c17.streamchunks {n_width} {}", if items.is_empty() { ".".to_string() } else { items.join(",") }));
            for e in 0..=n {
                let mut it = items.clone();
                it.insert(e, "!".into());
                out.push(format!("c17.streamchunks {n_width} {}", it.join(",")));
            }
        }
    }
    for (n, m) in [(1usize, 1usize), (4, 1), (4, 2), (4, 4), (4, 3), (6, 2), (6, 3), (8, 2), (8, 4)] {
        for dl in 0..=(n / m + 2) {
            out.push(format!("c17.unpack {n} {m} F {dl}"));
            for k in 1..n {
                out.push(format!("c17.unpack {n} {m} P{k} {dl}"));
            }
        }
    }
    // flatten: all sequences of up to 4 items over {[], [1], [2,3], !}
    let alphabet = ["-", "1", "2+3", "!"];
    out.push("c17.flatten .".into());
    for len in 1..=4usize {
        for code in 0..alphabet.len().pow(len as u32) {
            let mut c = code;
            let mut its = vec![];
            for _ in 0..len {
                its.push(alphabet[c % 4]);
                c /= 4;
            }
            out.push(format!("c17.flatten {}", its.join(",")));
        }
    }
    for _ in 0..(if thorough { 500 } else { 60 }) {
        let n = 1 + rng.usize_below(10);
        let its: Vec<String> = (0..n)
            .map(|_| match rng.below(8) {
                0 => "!".to_string(),
                1 => "-".to_string(),
                _ => (0..1 + rng.usize_below(5)).map(|_| rng.below(100).to_string()).collect::<Vec<_>>().join("+"),
            })
            .collect();
        out.push(format!("c17.flatten {}", its.join(",")));
    }
    for len in 0..=4usize {
        for n in 0..=4usize {
            out.push(format!("c17.fixed {len} {n}"));
        }
    }
    out
}

#[test]
fn verif_c17_streams() {
    run_suite("c17_streams", gen_streams, exec);
}

#[test]
fn verif_c17_chunks() {
    run_suite("c17_chunks", gen_chunks, exec);
}
