// Correspondence suites for property C17. Each suite is a #[test] fn named verif_c17_<suite>.
