// Line protocol shared by all suites.
//
// A suite is (generator of request lines, executor of one request line on the REAL code).
// `run_suite` replays the corpus first, then the generated requests, executes each under
// `catch_unwind`, and writes `$VERIF_OUT/<suite>.trace` with one `request<TAB>response` per line.
// With VERIF_REPLAY=<file> only the request lines of that file are executed.
use std::{
    collections::BTreeMap,
    fmt::Write as _,
    io::Write as _,
    panic::{AssertUnwindSafe, catch_unwind},
    sync::{Mutex, Once},
};

/// SplitMix64: every random choice of every suite derives from one state seeded by VERIF_SEED.
#[derive(Clone)]
pub struct Rng(pub u64);

impl Rng {
    pub fn from_env(suite: &str) -> Self {
        let seed = std::env::var("VERIF_SEED")
            .ok()
            .and_then(|s| s.parse::<u64>().ok())
            .unwrap_or(0);
        // mix in the suite name so suites do not share streams
        let mut h = seed ^ 0x9E37_79B9_7F4A_7C15;
        for b in suite.bytes() {
            h = (h ^ u64::from(b)).wrapping_mul(0x0000_0100_0000_01B3);
        }
        Rng(h)
    }
    pub fn next_u64(&mut self) -> u64 {
        self.0 = self.0.wrapping_add(0x9E37_79B9_7F4A_7C15);
        let mut z = self.0;
        z = (z ^ (z >> 30)).wrapping_mul(0xBF58_476D_1CE4_E5B9);
        z = (z ^ (z >> 27)).wrapping_mul(0x94D0_49BB_1331_11EB);
        z ^ (z >> 31)
    }
    pub fn next_u128(&mut self) -> u128 {
        (u128::from(self.next_u64()) << 64) | u128::from(self.next_u64())
    }
    /// uniform-ish in 0..n (n > 0)
    pub fn below(&mut self, n: u64) -> u64 {
        self.next_u64() % n
    }
    pub fn usize_below(&mut self, n: usize) -> usize {
        (self.next_u64() % (n as u64)) as usize
    }
    pub fn bool(&mut self) -> bool {
        self.next_u64() & 1 == 1
    }
    pub fn bytes(&mut self, n: usize) -> Vec<u8> {
        let mut v = Vec::with_capacity(n);
        while v.len() < n {
            let x = self.next_u64().to_le_bytes();
            let k = (n - v.len()).min(8);
            v.extend_from_slice(&x[..k]);
        }
        v
    }
    pub fn pick<'a, T>(&mut self, xs: &'a [T]) -> &'a T {
        &xs[self.usize_below(xs.len())]
    }
    pub fn shuffle<T>(&mut self, xs: &mut [T]) {
        for i in (1..xs.len()).rev() {
            let j = self.usize_below(i + 1);
            xs.swap(i, j);
        }
    }
}

impl rand::RngCore for Rng {
    fn next_u32(&mut self) -> u32 {
        (Rng::next_u64(self) >> 32) as u32
    }
    fn next_u64(&mut self) -> u64 {
        Rng::next_u64(self)
    }
    fn fill_bytes(&mut self, dest: &mut [u8]) {
        let b = self.bytes(dest.len());
        dest.copy_from_slice(&b);
    }
    fn try_fill_bytes(&mut self, dest: &mut [u8]) -> Result<(), rand::Error> {
        self.fill_bytes(dest);
        Ok(())
    }
}
impl rand::CryptoRng for Rng {}

pub fn thorough() -> bool {
    std::env::var("VERIF_TIER").map(|t| t == "thorough").unwrap_or(false)
}

pub fn hex(bytes: &[u8]) -> String {
    if bytes.is_empty() {
        return "-".into();
    }
    let mut s = String::with_capacity(bytes.len() * 2);
    for b in bytes {
        write!(s, "{b:02x}").unwrap();
    }
    s
}

pub fn unhex(s: &str) -> Vec<u8> {
    if s == "-" {
        return vec![];
    }
    assert!(s.len() % 2 == 0, "odd hex length");
    (0..s.len() / 2)
        .map(|i| u8::from_str_radix(&s[2 * i..2 * i + 2], 16).expect("bad hex"))
        .collect()
}

pub fn nat_list<T: std::fmt::Display>(xs: &[T]) -> String {
    if xs.is_empty() {
        return "-".into();
    }
    xs.iter().map(|x| x.to_string()).collect::<Vec<_>>().join(",")
}

pub fn parse_nat_list<T: std::str::FromStr>(s: &str) -> Vec<T>
where
    T::Err: std::fmt::Debug,
{
    if s == "-" {
        return vec![];
    }
    s.split(',').map(|x| x.parse::<T>().unwrap()).collect()
}

static QUIET: Once = Once::new();
static LAST_PANIC: Mutex<Option<String>> = Mutex::new(None);

/// Run `f`, mapping a panic to `Err("panic:<first line of message>")`.
pub fn guarded<T>(f: impl FnOnce() -> T) -> Result<T, String> {
    QUIET.call_once(|| {
        std::panic::set_hook(Box::new(|info| {
            let msg = if let Some(s) = info.payload().downcast_ref::<&str>() {
                (*s).to_string()
            } else if let Some(s) = info.payload().downcast_ref::<String>() {
                s.clone()
            } else {
                "<non-string payload>".to_string()
            };
            *LAST_PANIC.lock().unwrap_or_else(|e| e.into_inner()) = Some(msg);
        }));
    });
    match catch_unwind(AssertUnwindSafe(f)) {
        Ok(v) => Ok(v),
        Err(p) => {
            let msg = if let Some(s) = p.downcast_ref::<&str>() {
                (*s).to_string()
            } else if let Some(s) = p.downcast_ref::<String>() {
                s.clone()
            } else {
                LAST_PANIC
                    .lock()
                    .unwrap_or_else(|e| e.into_inner())
                    .clone()
                    .unwrap_or_else(|| "<unknown>".into())
            };
            Err(format!("panic:{}", canon(msg.lines().next().unwrap_or(""))))
        }
    }
}

/// Canonicalise free text so it fits in one protocol field (no tabs/newlines, bounded length).
pub fn canon(s: &str) -> String {
    let mut t: String = s
        .chars()
        .map(|c| if c == '\t' || c == '\n' || c == '\r' { ' ' } else { c })
        .collect();
    if t.len() > 160 {
        let mut cut = 160;
        while !t.is_char_boundary(cut) {
            cut -= 1;
        }
        t.truncate(cut);
    }
    t
}

/// Like `run_suite`, but executes the requests on `threads` worker threads (independent cases, e.g. one
/// test world per request). The trace keeps the generated order.
pub fn run_suite_par(
    suite: &str,
    threads: usize,
    generate: impl FnOnce(&mut Rng, bool) -> Vec<String>,
    exec: impl Fn(&str) -> String + Sync,
) {
    if std::env::var("VERIF_REPLAY").ok().filter(|s| !s.is_empty()).is_some() {
        return run_suite(suite, generate, exec);
    }
    let out_dir = std::env::var("VERIF_OUT").expect("VERIF_OUT must name the output directory");
    std::fs::create_dir_all(&out_dir).unwrap();
    let mut reqs: Vec<String> = Vec::new();
    if let Ok(dir) = std::env::var("VERIF_CORPUS") {
        if let Ok(text) = std::fs::read_to_string(format!("{dir}/{suite}.txt")) {
            for l in text.lines() {
                let l = l.split('\t').next().unwrap().trim();
                if !l.is_empty() && !l.starts_with('#') {
                    reqs.push(l.to_string());
                }
            }
        }
    }
    let mut rng = Rng::from_env(suite);
    reqs.extend(generate(&mut rng, thorough()));
    let next = std::sync::atomic::AtomicUsize::new(0);
    let results: Mutex<Vec<Option<(String, u128)>>> = Mutex::new(vec![None; reqs.len()]);
    std::thread::scope(|sc| {
        for _ in 0..threads.max(1) {
            sc.spawn(|| loop {
                let i = next.fetch_add(1, std::sync::atomic::Ordering::SeqCst);
                if i >= reqs.len() {
                    break;
                }
                let started = std::time::Instant::now();
                let resp = match guarded(|| exec(&reqs[i])) {
                    Ok(s) => s,
                    Err(p) => p,
                };
                results.lock().unwrap_or_else(|e| e.into_inner())[i] = Some((resp, started.elapsed().as_millis()));
            });
        }
    });
    let results = results.into_inner().unwrap_or_else(|e| e.into_inner());
    let mut f = std::io::BufWriter::new(std::fs::File::create(format!("{out_dir}/{suite}.trace")).unwrap());
    let mut times = std::io::BufWriter::new(std::fs::File::create(format!("{out_dir}/{suite}.times")).unwrap());
    for (r, res) in reqs.iter().zip(results) {
        let (resp, ms) = res.expect("every request was executed");
        writeln!(times, "{}\t{}", ms, &r[..r.len().min(80)]).unwrap();
        writeln!(f, "{}\t{}", r, canon_resp(&resp)).unwrap();
    }
    f.flush().unwrap();
}

/// Drives one suite. `gen` produces request lines; `exec` runs one request on the real code.
pub fn run_suite(
    suite: &str,
    generate: impl FnOnce(&mut Rng, bool) -> Vec<String>,
    exec: impl Fn(&str) -> String,
) {
    let out_dir = std::env::var("VERIF_OUT").expect("VERIF_OUT must name the output directory");
    std::fs::create_dir_all(&out_dir).unwrap();
    let mut reqs: Vec<String> = Vec::new();
    let replay = std::env::var("VERIF_REPLAY").ok().filter(|s| !s.is_empty());
    if let Some(file) = &replay {
        for l in std::fs::read_to_string(file).expect("replay file").lines() {
            let l = l.split('\t').next().unwrap().trim();
            if !l.is_empty() && !l.starts_with('#') {
                reqs.push(l.to_string());
            }
        }
    } else {
        if let Ok(dir) = std::env::var("VERIF_CORPUS") {
            if let Ok(text) = std::fs::read_to_string(format!("{dir}/{suite}.txt")) {
                for l in text.lines() {
                    let l = l.split('\t').next().unwrap().trim();
                    if !l.is_empty() && !l.starts_with('#') {
                        reqs.push(l.to_string());
                    }
                }
            }
        }
        let mut rng = Rng::from_env(suite);
        reqs.extend(generate(&mut rng, thorough()));
    }
    let path = format!("{out_dir}/{suite}.trace");
    let mut f = std::io::BufWriter::new(std::fs::File::create(&path).unwrap());
    let mut times = std::io::BufWriter::new(std::fs::File::create(format!("{out_dir}/{suite}.times")).unwrap());
    for r in &reqs {
        debug_assert!(!r.contains('\t') && !r.contains('\n'));
        let started = std::time::Instant::now();
        let resp = match guarded(|| exec(r)) {
            Ok(s) => s,
            Err(p) => p,
        };
        // wall time per case (diagnostics only; never compared)
        writeln!(times, "{}\t{}", started.elapsed().as_millis(), &r[..r.len().min(80)]).unwrap();
        writeln!(f, "{}\t{}", r, canon_resp(&resp)).unwrap();
        // flush per case: if the process is killed (allocation failure, stack overflow) the trace
        // shows which request was in flight
        f.flush().unwrap();
    }
    f.flush().unwrap();
}

fn canon_resp(s: &str) -> String {
    s.chars()
        .map(|c| if c == '\t' || c == '\n' || c == '\r' { ' ' } else { c })
        .collect()
}

/// Block on a future with a fresh multi-threaded runtime and a wall-clock timeout.
/// A timeout is the outcome `Err("timeout")`.
pub fn block_on_timeout<F>(secs: u64, fut: F) -> Result<F::Output, String>
where
    F: std::future::Future,
{
    let rt = tokio::runtime::Builder::new_multi_thread()
        .worker_threads(4)
        .enable_all()
        .build()
        .unwrap();
    let r = rt.block_on(async { tokio::time::timeout(std::time::Duration::from_secs(secs), fut).await });
    rt.shutdown_background();
    r.map_err(|_| "timeout".to_string())
}

pub fn count_tags(tags: &[String]) -> BTreeMap<String, usize> {
    let mut m = BTreeMap::new();
    for t in tags {
        *m.entry(t.clone()).or_insert(0) += 1;
    }
    m
}
