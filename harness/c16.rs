// Correspondence suites for property C16. Each suite is a #[test] fn named verif_c16_<suite>.
