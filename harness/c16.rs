// Correspondence suites for property C16. Each suite is a #[test] fn named verif_c16_<suite>.
// (c16_batcher / c16_validators / c16_race live in hooks/context.rs: they need items private to protocol::context.)
//
// b21: registry behind the guarded hook in `Batch::validate` (dzkp_validator.rs -> hooks/dzkp_validator.rs
// `c16_note_validate`): every time a DZKP batch is handed to the proof step, its validation context's gate and the
// batch index are noted — only for gates of worlds the race suites started themselves (step names containing
// `c16race` / `c03race`), so the many other suites running in the same process leave no trace here.
use std::sync::Mutex;

static VALIDATIONS: Mutex<Vec<(String, usize)>> = Mutex::new(Vec::new());

pub fn note_validate(gate: &str, batch_index: usize) {
    if gate.contains("c16race") || gate.contains("c03race") {
        VALIDATIONS.lock().unwrap_or_else(|e| e.into_inner()).push((gate.to_string(), batch_index));
    }
}

/// removes and returns (sorted) the batch indices noted for gates containing `marker`
pub fn take_validations(marker: &str) -> Vec<usize> {
    let mut g = VALIDATIONS.lock().unwrap_or_else(|e| e.into_inner());
    let mut out = vec![];
    g.retain(|(gate, idx)| {
        if gate.contains(marker) {
            out.push(*idx);
            false
        } else {
            true
        }
    });
    out.sort_unstable();
    out
}
