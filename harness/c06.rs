// Correspondence suites for property C06. Each suite is a #[test] fn named verif_c06_<suite>.
