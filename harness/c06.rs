// Correspondence suites for property C06 (PRSS: pairwise agreement, step separation, no reuse).
//
//   c06_agree    three real endpoints (test_fixture::make_participants), real negotiate over TestWorld gateways,
//                real cross-shard setup: helper i's right values == helper i+1's left values for many
//                gates / indices / multi-block widths up to the offset cap; distinctness across
//                steps, indices and offsets
//   c06_noreuse  real multi-batch DZKP validation (many proof batches, each drawing its PRSS indices from its own
//                reserved range) in a debug build: the implementation's own reuse detector must stay silent
//   c06_usedset  the debug-build detectors: same (step, index, offset) drawn twice, indexed vs sequential misuse
//   c06_race     the detector under CONCURRENT callers: T OS threads released together draw the same fresh index
//                from one generator (real `Generator::generate` -> `UsedSet::use_index`), R rounds; exactly one
//                draw per round may be accepted
//   c06_xfault   the REAL `gen_and_distribute` on every follower shard of 2-5 shard worlds with a scripted leader per
//                helper (fault-free / seed channels closed empty / record delivered to a subset): outcomes per shard,
//                number of distinct cross-shard streams among a helper's Ok shards, neighbour consistency (b19)
// (c06_pack lives in hooks/context.rs: PrssIndex128 is visible only inside crate::protocol.)
use std::collections::HashSet;

use generic_array::ArrayLength;
use ipa_step::StepNarrow;
use rand_core::RngCore;
use typenum::{U1, U2, U3, U4, U8, U16, U32, U64, U128, U256, U512, U1024, U2048};

use super::proto::*;
use crate::{
    helpers::{Direction, Role, prss_protocol::negotiate, setup_cross_shard_prss},
    protocol::{
        Gate, RecordId,
        context::Context,
        prss::{Endpoint, SharedRandomness},
    },
    sharding::ShardConfiguration,
    test_fixture::{Runner, TestWorld, TestWorldConfig, WithShards, make_participants},
};

fn gate(name: &str) -> Gate {
    Gate::default().narrow(name)
}

fn both<Z: ArrayLength>(p: &Endpoint, g: &Gate, index: u32, chunks: usize) -> (Vec<u128>, Vec<u128>) {
    let prss = p.indexed(g);
    let mut l = vec![];
    let mut r = vec![];
    for (a, b) in prss.generate_chunks_iter::<_, Z>(index).take(chunks) {
        l.extend(a);
        r.extend(b);
    }
    (l, r)
}

fn agreement(ps: &[Endpoint; 3], draw: &dyn Fn(&Endpoint) -> (Vec<u128>, Vec<u128>), all: &mut Vec<u128>) -> Result<usize, String> {
    let vals: Vec<(Vec<u128>, Vec<u128>)> = ps.iter().map(|p| draw(p)).collect();
    for i in 0..3 {
        if vals[i].1 != vals[(i + 1) % 3].0 {
            return Err(format!("disagree helper {i} right vs helper {} left", (i + 1) % 3));
        }
        all.extend(vals[i].1.iter().copied());
    }
    Ok(vals[0].0.len())
}

fn distinct(all: &[u128]) -> bool {
    let s: HashSet<u128> = all.iter().copied().collect();
    s.len() == all.len()
}

fn agree_z<Z: ArrayLength>(seed: u64, gname: &str, index: u32, chunks: usize) -> String {
    let mut rng = Rng(seed);
    let ps = make_participants(&mut rng);
    let g = gate(gname);
    let mut all = vec![];
    let n = match agreement(&ps, &|p| both::<Z>(p, &g, index, chunks), &mut all) {
        Ok(n) => n,
        Err(e) => return e,
    };
    // step / index separation: another gate with the same index, and the same gate with neighbouring indices
    let g2 = gate(&format!("{gname}x"));
    let g3 = g.narrow("sub");
    for (gg, ix) in [(&g2, index), (&g3, index), (&g, index.wrapping_add(1)), (&g, index.wrapping_sub(1)), (&g, index ^ 0x8000_0000)] {
        if let Err(e) = agreement(&ps, &|p| both::<U1>(p, gg, ix, 1), &mut all) {
            return e;
        }
    }
    format!("agree {n} {}", if distinct(&all) { "distinct" } else { "repeated" })
}

fn exec_agree(req: &str) -> String {
    let t: Vec<&str> = req.split(' ').collect();
    match t[0] {
        "c06.agree" => {
            let seed: u64 = t[1].parse().unwrap();
            let index: u32 = t[3].parse().unwrap();
            let chunks: usize = t[5].parse().unwrap();
            macro_rules! z {
                ($($n:literal => $t:ty),*) => {
                    match t[4] { $( stringify!($n) => agree_z::<$t>(seed, t[2], index, chunks), )* w => panic!("harness: unsupported width {w}") }
                };
            }
            z!(1 => U1, 2 => U2, 3 => U3, 4 => U4, 8 => U8, 16 => U16, 32 => U32, 64 => U64, 128 => U128, 256 => U256,
               512 => U512, 1024 => U1024, 2048 => U2048)
        }
        "c06.negotiate" => {
            let seed: u64 = t[1].parse().unwrap();
            let r = block_on_timeout(60, async move {
                let world = TestWorld::new_with(TestWorldConfig::default().with_seed(seed));
                let g = gate("c06negotiate");
                let mut rngs = [Rng(seed ^ 1), Rng(seed ^ 2), Rng(seed ^ 3)];
                let [r0, r1, r2] = &mut rngs;
                let (a, b, c) = futures::future::join3(
                    negotiate(world.gateway(Role::H1), &g, r0),
                    negotiate(world.gateway(Role::H2), &g, r1),
                    negotiate(world.gateway(Role::H3), &g, r2),
                )
                .await;
                let ps = [a.unwrap(), b.unwrap(), c.unwrap()];
                let mut all = vec![];
                let mut n = 0;
                for (k, gname) in ["a", "b"].iter().enumerate() {
                    let gg = gate(gname);
                    for index in [0u32, 1, 2, u32::MAX] {
                        match agreement(&ps, &|p| both::<U1>(p, &gg, index.wrapping_add(k as u32 * 7), 1), &mut all) {
                            Ok(m) => n += 3 * m,
                            Err(e) => return e,
                        }
                    }
                }
                format!("agree {n} {}", if distinct(&all) { "distinct" } else { "repeated" })
            });
            r.unwrap_or_else(|e| e)
        }
        "c06.xshard" => {
            let seed: u64 = t[1].parse().unwrap();
            macro_rules! go {
                ($n:literal) => {
                    block_on_timeout(60, async move {
                        let world: TestWorld<WithShards<$n>> = TestWorld::with_shards(TestWorldConfig::default().with_seed(seed));
                        let g = gate("c06xshard");
                        let gref = &g;
                        let wref = &world;
                        let values: Vec<[(u128, u128); 3]> = world
                            .semi_honest(std::iter::empty::<crate::ff::boolean_array::BA64>(), |ctx, _| async move {
                                let gateway = wref.gateway(ctx.role(), ctx.shard_id());
                                let ep = setup_cross_shard_prss(gateway, gref, ctx.prss(), ctx.clone()).await.unwrap();
                                ep.indexed(gref).generate_values(RecordId::FIRST)
                            })
                            .await;
                        for s in 0..values.len() {
                            for i in 0..3 {
                                if values[s][i] != values[0][i] {
                                    return format!("disagree shard {s} vs shard 0 at helper {i}");
                                }
                                if values[s][i].1 != values[(s + 1) % values.len()][(i + 1) % 3].0 {
                                    return format!("disagree helper {i} right vs helper {} left (shards {s}/{})", (i + 1) % 3, (s + 1) % values.len());
                                }
                            }
                        }
                        format!("agree {}", 3 * values.len())
                    })
                };
            }
            let r = match t[2] {
                "2" => go!(2),
                "3" => go!(3),
                "4" => go!(4),
                "5" => go!(5),
                n => panic!("harness: unsupported shard count {n}"),
            };
            r.unwrap_or_else(|e| e)
        }
        _ => panic!("harness: unknown request {req}"),
    }
}

#[test]
fn verif_c06_agree() {
    run_suite(
        "c06_agree",
        |rng, thorough| {
            let mut out = vec![];
            let seed = |rng: &mut Rng| rng.below(1 << 40);
            // width x chunks reaching exactly the cap (offsets 0..=2048 are valid: 2049 blocks), and one past it
            for (z, chunks) in [
                (1usize, 1usize), (1, 2), (2, 1), (3, 1), (4, 2), (8, 3), (16, 1), (32, 2), (64, 1), (128, 3), (256, 1), (512, 4),
                (1024, 2), (2048, 1), (1, 2049), (1, 2050), (2, 1024), (2, 1025), (3, 683), (3, 684), (2048, 2), (1024, 3), (256, 9), (16, 129),
            ] {
                let index = match z % 3 { 0 => 0u32, 1 => u32::MAX, _ => (rng.next_u64() >> 32) as u32 };
                out.push(format!("c06.agree {} step{z} {index} {z} {chunks}", seed(rng)));
            }
            for _ in 0..(if thorough { 300 } else { 25 }) {
                let z = *rng.pick(&[1usize, 2, 3, 4, 8, 16, 32, 64]);
                let chunks = 1 + rng.usize_below(6);
                let index = (rng.next_u64() >> (32 + rng.below(32))) as u32;
                out.push(format!("c06.agree {} g{} {index} {z} {chunks}", seed(rng), rng.below(1000)));
            }
            // long step strings (deeply nested protocols reach 105 bytes; a single step may not contain `/`, so one long step stands in for the path): the compared gates `<g>`, `<g>x` and `<g>/sub`
            // differ only beyond byte 40..200, across the SHA-256 block/padding boundaries of the HKDF info (55/56, 64, 119/120, 128)
            let deep = "hybrid_aggregate_chunks1_fold00_saturating_add_select_bit00_eval_prf_malicious_protocol_mult_mask_with_p_r_f_input";
            for len in [31usize, 40, 45, 46, 47, 53, 54, 55, 56, 57, 63, 64, 65, 96, 105, 109, 110, 111, 118, 119, 120, 128, 200] {
                if !thorough && len % 2 == 1 && ![55, 63, 65, 105, 119].contains(&len) {
                    continue;
                }
                let name: String = deep.chars().cycle().take(len).collect();
                out.push(format!("c06.agree {} {name} {} 1 2", seed(rng), (rng.next_u64() >> 40) as u32));
            }
            for _ in 0..(if thorough { 20 } else { 3 }) {
                out.push(format!("c06.negotiate {}", seed(rng)));
            }
            for n in [2, 3, 4, 5] {
                for _ in 0..(if thorough { 5 } else { 1 }) {
                    out.push(format!("c06.xshard {} {n}", seed(rng)));
                }
            }
            out
        },
        exec_agree,
    );
}

fn exec_used(req: &str) -> String {
    let t: Vec<&str> = req.split(' ').collect();
    let mut rng = Rng(0xC06);
    let ps = make_participants(&mut rng);
    let p = &ps[0];
    fn one<Z: ArrayLength>(p: &Endpoint, kind: &str, g: &Gate, index: u32, chunks: usize) {
        let prss = p.indexed(g);
        match kind {
            "ib" => prss.generate_chunks_iter::<_, Z>(index).take(chunks).for_each(drop),
            "il" => prss.generate_chunks_one_side::<_, Z>(index, Direction::Left).take(chunks).for_each(drop),
            "ir" => prss.generate_chunks_one_side::<_, Z>(index, Direction::Right).take(chunks).for_each(drop),
            k => panic!("harness: unknown op {k}"),
        }
    }
    for op in t[1].split(',') {
        let f: Vec<&str> = op.split(':').collect();
        let g = gate(f[1]);
        if f[0] == "sq" {
            let n: usize = f[2].parse().unwrap();
            let (mut l, mut r) = p.sequential(&g);
            for _ in 0..n {
                let _ = l.next_u64();
                let _ = r.next_u64();
            }
        } else {
            let index: u32 = f[2].parse().unwrap();
            let chunks: usize = f[4].parse().unwrap();
            match f[3] {
                "1" => one::<U1>(p, f[0], &g, index, chunks),
                "2" => one::<U2>(p, f[0], &g, index, chunks),
                "3" => one::<U3>(p, f[0], &g, index, chunks),
                "4" => one::<U4>(p, f[0], &g, index, chunks),
                "8" => one::<U8>(p, f[0], &g, index, chunks),
                "1024" => one::<U1024>(p, f[0], &g, index, chunks),
                z => panic!("harness: unsupported width {z}"),
            }
        }
    }
    "ok".into()
}

#[test]
fn verif_c06_usedset() {
    run_suite(
        "c06_usedset",
        |rng, thorough| {
            let mut out: Vec<String> = [
                "ib:a:0:1:1",
                "ib:a:0:1:1,ib:a:0:1:1",
                "ib:a:0:1:1,ib:a:1:1:1,ib:b:0:1:1",
                "ib:a:0:2:1,ib:a:0:1:1",
                "ib:a:5:1:3,il:a:5:1:1",
                "il:a:5:1:1,ir:a:5:1:1",
                "il:a:5:2:2,il:a:5:4:1",
                "il:a:5:2:2,ir:a:5:4:1,ib:a:6:4:1",
                "ir:a:5:3:1,ib:a:5:1:3",
                "ib:a:4294967295:1:1,ib:a:4294967294:1:1",
                "sq:a:3",
                "sq:a:0,sq:a:0",
                "sq:a:2,ib:a:0:1:1",
                "sq:a:2,il:a:0:1:1",
                "ib:a:0:1:1,sq:a:1",
                "ir:a:9:1:1,sq:a:1",
                "sq:a:2,sq:b:2,ib:c:0:1:1",
                "ib:a:0:1:2049",
                "ib:a:0:1:2050",
                "il:a:0:1024:2,il:a:0:1:1",
                "il:a:0:1024:3",
                "ir:a:7:8:257",
                "ib:a:1:1:2049,ib:a:1:1:1",
            ]
            .iter()
            .map(|s| format!("c06.used {s}"))
            .collect();
            // random short op sequences over two gates and few indices so that collisions are frequent
            for _ in 0..(if thorough { 2000 } else { 150 }) {
                let n = 1 + rng.usize_below(5);
                let ops: Vec<String> = (0..n)
                    .map(|_| {
                        let g = *rng.pick(&["a", "b"]);
                        match rng.below(6) {
                            0 => format!("sq:{g}:{}", rng.below(4)),
                            k => {
                                let kind = ["ib", "il", "ir"][(k % 3) as usize];
                                let z = *rng.pick(&[1usize, 2, 3, 4, 8]);
                                format!("{kind}:{g}:{}:{z}:{}", rng.below(3), 1 + rng.below(3))
                            }
                        }
                    })
                    .collect();
                out.push(format!("c06.used {}", ops.join(",")));
            }
            out
        },
        exec_used,
    );
}

// ---- no reuse across proof batches: real protocol runs with the debug-build detector live ----

/// MAC validator over several batches (batch size = the context's active work): every batch creates its
/// accumulator from PRSS indices 3·offset + {0,1,2} and validates on channels 2·offset + {0,1} / offset.
async fn mac_batches(count: usize, seed: u64) -> String {
    use crate::{
        ff::{Fp32BitPrime, U128Conversions},
        protocol::context::{UpgradableContext, UpgradedContext, Validator, upgrade::Upgradable},
        secret_sharing::replicated::{ReplicatedSecretSharing, semi_honest::AdditiveShare as Replicated},
        seq_join::SeqJoin,
    };
    type F = Fp32BitPrime;
    let world = TestWorld::new_with(TestWorldConfig::default().with_seed(seed));
    let mut rng = Rng(seed);
    let p = u128::from(<F as crate::ff::PrimeField>::PRIME);
    let mut per_helper: [Vec<Replicated<F>>; 3] = [vec![], vec![], vec![]];
    for _ in 0..count {
        let s: Vec<F> = (0..3).map(|_| F::truncate_from(rng.next_u128() % p)).collect();
        for h in 0..3 {
            per_helper[h].push(Replicated::new(s[h], s[(h + 1) % 3]));
        }
    }
    let futs = world.malicious_contexts().into_iter().zip(per_helper).map(|(ctx, input)| async move {
        let ctx = ctx.set_total_records(count);
        let v = ctx.validator::<F>();
        let m_ctx = v.context();
        m_ctx
            .try_join(input.into_iter().enumerate().map(|(i, a)| {
                let ctx = m_ctx.clone();
                async move {
                    let record_id = RecordId::from(i);
                    let _m = a.upgrade(ctx.clone(), record_id).await?;
                    ctx.validate_record(record_id).await
                }
            }))
            .await
            .map(|_| ())
    });
    let rs = futures::future::join_all(futs).await;
    if rs.iter().all(Result::is_ok) { "ok".into() } else { format!("err:{}", canon(&format!("{rs:?}"))) }
}

fn exec_noreuse(req: &str) -> String {
    let t: Vec<&str> = req.split(' ').collect();
    if t[1] == "mac" {
        let count: usize = t[2].parse().unwrap();
        let seed: u64 = t[3].parse().unwrap();
        return block_on_timeout(30, mac_batches(count, seed)).unwrap_or_else(|e| e);
    }
    // c06.noreuse dzkp <ty> <count> <records per batch> <seed>  ==> the C03 executor on the validate_record API
    let inner = format!("c03.validate {} {} {} {} {} -", t[2], t[3], t[4], t[5], t[6]);
    let r = super::c03::exec_validate(&inner);
    if r == "ok,ok,ok" { "ok".into() } else { r }
}

#[test]
fn verif_c06_noreuse() {
    run_suite(
        "c06_noreuse",
        |rng, thorough| {
            let mut out = vec![];
            // (type, records, records per batch): 1 .. 64 proof batches, one or two gates per batch
            let mut cfgs = vec![
                ("record", "b1", 64usize, 1usize), ("record", "b1", 33, 2), ("record", "ba8", 40, 4), ("record2", "ba3", 24, 2),
                ("record", "ba64", 17, 1), ("record2", "b1", 50, 8), ("record", "ba256", 12, 1), ("record", "ba16", 128, 16),
            ];
            if thorough {
                cfgs.extend_from_slice(&[("record", "b1", 256, 1), ("record2", "ba8", 200, 2), ("record", "ba32", 300, 4), ("record", "ba5", 129, 1)]);
            }
            for (api, ty, n, per) in cfgs {
                out.push(format!("c06.noreuse dzkp {api} {ty} {n} {per} {}", rng.below(1 << 30)));
            }
            // MAC validator: 1 record, a few batches, many batches
            for n in if thorough { vec![1usize, 2, 31, 32, 33, 100, 257, 1000] } else { vec![1usize, 33, 100, 257] } {
                out.push(format!("c06.noreuse mac {n} {}", rng.below(1 << 30)));
            }
            out
        },
        exec_noreuse,
    );
}


// ---- the reuse detector under concurrent callers ----
//
//   c06.race <left|right|both> <T> <R> <seed>  ->  accepted=<total> rounds=<R>
//
// One endpoint (seeded), one gate, ONE `IndexedSharedRandomness` shared by T OS threads. In round r every thread
// waits on a spin barrier and then draws index r: `left` / `right` through `generate_chunks_one_side::<_, U1>` (one
// `Generator::generate` call, i.e. one `UsedSet::use_index(r:0)`), `both` through `generate_values` (left, then
// right generator). A draw that returns counts as accepted; a draw the detector refuses panics (caught). Every
// index is fresh when its round starts, so exactly ONE of the T concurrent draws must be accepted:
// accepted == rounds, whatever the scheduling (theorem `exactly_one_accept`) — deterministic on a correct tree.
// A detector whose test and insert are not one critical section lets two threads through in some rounds.
#[cfg(debug_assertions)]
fn exec_race(req: &str) -> String {
    use std::{
        panic::{AssertUnwindSafe, catch_unwind},
        sync::atomic::{AtomicUsize, Ordering},
    };
    let t: Vec<&str> = req.split(' ').collect();
    assert_eq!(t[0], "c06.race");
    let side = t[1];
    let threads: usize = t[2].parse().unwrap();
    let rounds: usize = t[3].parse().unwrap();
    let seed: u64 = t[4].parse().unwrap();
    assert!(threads >= 1 && threads <= 64 && rounds <= (1 << 24), "harness: bad race parameters");
    let mut rng = Rng(seed);
    let ps = make_participants(&mut rng);
    let g = gate("c06race");
    let prss = ps[0].indexed(&g);
    let arrived = AtomicUsize::new(0);
    let accepted = AtomicUsize::new(0);
    std::thread::scope(|s| {
        for _ in 0..threads {
            s.spawn(|| {
                for r in 0..rounds {
                    // spin barrier: all threads leave it within a few nanoseconds of each other
                    arrived.fetch_add(1, Ordering::SeqCst);
                    let mut spins = 0u32;
                    while arrived.load(Ordering::Acquire) < threads * (r + 1) {
                        spins += 1;
                        if spins % 4096 == 0 {
                            std::thread::yield_now();
                        } else {
                            std::hint::spin_loop();
                        }
                    }
                    let index = r as u32;
                    let ok = catch_unwind(AssertUnwindSafe(|| match side {
                        "left" => drop(prss.generate_chunks_one_side::<_, U1>(index, Direction::Left).next()),
                        "right" => drop(prss.generate_chunks_one_side::<_, U1>(index, Direction::Right).next()),
                        "both" => drop(prss.generate_values(index)),
                        k => panic!("harness: unknown side {k}"),
                    }))
                    .is_ok();
                    if ok {
                        accepted.fetch_add(1, Ordering::SeqCst);
                    }
                }
            });
        }
    });
    format!("accepted={} rounds={rounds}", accepted.load(Ordering::SeqCst))
}

// `UsedSet` exists in debug builds only: no detector, no suite (the check then reports the missing trace).
#[cfg(debug_assertions)]
#[test]
fn verif_c06_race() {
    run_suite(
        "c06_race",
        |rng, thorough| {
            let k = if thorough { 20 } else { 1 };
            let mut out = vec![];
            for (side, threads, rounds) in [("left", 4usize, 5000usize), ("right", 2, 2000), ("both", 3, 1000), ("left", 8, 500), ("right", 1, 100)] {
                out.push(format!("c06.race {side} {threads} {} {}", rounds * k, rng.below(1 << 40)));
            }
            out
        },
        exec_race,
    );
}

// ---------------------------------------------------------------------------------------------
// c06_xfault: the REAL `gen_and_distribute` (`helpers::setup_cross_shard_prss`) on every follower shard, with a
// scripted LEADER per helper.
//
//   c06.xfault <seed> <shards> <f1>/<f2>/<f3>
//     f_i   ok      the leader of helper i runs the real routine too (fault-free)
//           d:<j,k,..> | d:-   the leader draws its seeds exactly as the routine does (`prss.generate(RecordId::FIRST)`),
//                   sets its own endpoint up from them, sends the record to the listed follower shards only and
//                   CLOSES the seed channel of every other shard without a record (`d:-`: closes all of them
//                   empty -- the leader went away before distributing)
//   -> H1:<o|e|x per shard>:<distinct> H2:.. H3:.. nb=<ok|bad>
//        o = Ok, e = Err(.. EndOfStream ..), x = any other Err; <distinct> = number of different cross-shard streams
//        (first two records of `endpoint.indexed(gate)`) among the helper's Ok shards; nb = every Ok shard of helper
//        i and every Ok shard of helper i+1 (any two shard indices) agree right-vs-left
// ---------------------------------------------------------------------------------------------
mod xfault {
    use super::*;
    use crate::{
        helpers::{ChannelId, TotalRecords},
        protocol::prss::{Seed, SeededEndpointSetup},
        sharding::ShardIndex,
    };

    type Stream = [(u128, u128); 2];

    fn parse_script(s: &str) -> Option<Vec<u32>> {
        if s == "ok" {
            return None;
        }
        let l = s.strip_prefix("d:").expect("harness: fault script");
        Some(if l == "-" { vec![] } else { l.split(',').map(|x| x.parse().expect("harness: shard number")).collect() })
    }

    pub fn exec(req: &str) -> String {
        let t: Vec<&str> = req.split(' ').collect();
        assert!(t[0] == "c06.xfault" && t.len() == 4, "harness: unknown request {req}");
        let seed: u64 = t[1].parse().unwrap();
        let scripts: Vec<Option<Vec<u32>>> = t[3].split('/').map(parse_script).collect();
        assert!(scripts.len() == 3, "harness: one script per helper");
        macro_rules! go {
            ($n:literal) => {
                block_on_timeout(60, async move {
                    let world: TestWorld<WithShards<$n>> = TestWorld::with_shards(TestWorldConfig::default().with_seed(seed));
                    let g = gate("c06xfault");
                    let gref = &g;
                    let wref = &world;
                    let sref = &scripts;
                    let per_shard: Vec<[Result<Stream, String>; 3]> = world
                        .semi_honest(std::iter::empty::<crate::ff::boolean_array::BA64>(), |ctx, _| async move {
                            let gateway = wref.gateway(ctx.role(), ctx.shard_id());
                            let h = Role::all().iter().position(|r| *r == ctx.role()).unwrap();
                            let ep = match (&sref[h], ctx.is_leader()) {
                                (Some(delivered), true) => {
                                    // a scripted leader: same draw as the routine, partial / no distribution
                                    let setup: SeededEndpointSetup = ctx.prss().generate(RecordId::FIRST);
                                    for shard in ctx.peer_shards() {
                                        let sender = gateway.get_shard_sender::<(Seed, Seed)>(&ChannelId::new(shard, gref.clone()), TotalRecords::ONE);
                                        if delivered.contains(&u32::from(shard)) {
                                            sender.send(RecordId::FIRST, (setup.left_seed().clone(), setup.right_seed().clone())).await.unwrap();
                                        } else {
                                            sender.close(RecordId::FIRST).await;
                                        }
                                    }
                                    Ok(setup.setup())
                                }
                                _ => setup_cross_shard_prss(gateway, gref, ctx.prss(), ctx.clone()).await,
                            };
                            match ep {
                                Ok(ep) => {
                                    let p = ep.indexed(gref);
                                    Ok([p.generate_values(RecordId::FIRST), p.generate_values(RecordId::from(1u32))])
                                }
                                Err(e) => Err(format!("{e:?}")),
                            }
                        })
                        .await;
                    let _ = ShardIndex::FIRST;
                    let mut out = vec![];
                    for i in 0..3 {
                        let mut marks = String::new();
                        let mut seen: Vec<Stream> = vec![];
                        for sh in &per_shard {
                            match &sh[i] {
                                Ok(v) => {
                                    marks.push('o');
                                    if !seen.contains(v) {
                                        seen.push(*v);
                                    }
                                }
                                Err(e) if e.contains("EndOfStream") => marks.push('e'),
                                Err(_) => marks.push('x'),
                            }
                        }
                        out.push(format!("H{}:{marks}:{}", i + 1, seen.len()));
                    }
                    let mut nb = true;
                    for i in 0..3 {
                        for a in per_shard.iter().filter_map(|sh| sh[i].as_ref().ok()) {
                            for b in per_shard.iter().filter_map(|sh| sh[(i + 1) % 3].as_ref().ok()) {
                                nb &= (0..2).all(|k| a[k].1 == b[k].0);
                            }
                        }
                    }
                    format!("{} nb={}", out.join(" "), if nb { "ok" } else { "bad" })
                })
            };
        }
        let r = match t[2] {
            "2" => go!(2),
            "3" => go!(3),
            "4" => go!(4),
            "5" => go!(5),
            n => panic!("harness: unsupported shard count {n}"),
        };
        r.unwrap_or_else(|e| e)
    }

    pub fn generate(rng: &mut Rng, thorough: bool) -> Vec<String> {
        let mut out = vec![];
        let seed = |rng: &mut Rng| rng.below(1 << 40);
        // the leader went away before distributing: on one helper, on every helper
        for n in [3usize, 2, 4, 5] {
            out.push(format!("c06.xfault {} {n} d:-/ok/ok", seed(rng)));
            out.push(format!("c06.xfault {} {n} d:-/d:-/d:-", seed(rng)));
        }
        // fault-free through the scripted leader (must be indistinguishable from `ok`) and through the real one
        for n in [2usize, 3, 5] {
            let all: Vec<String> = (1..n).map(|j| j.to_string()).collect();
            out.push(format!("c06.xfault {} {n} d:{}/ok/ok", seed(rng), all.join(",")));
            out.push(format!("c06.xfault {} {n} ok/ok/ok", seed(rng)));
        }
        // the record reaches some followers only
        out.push(format!("c06.xfault {} 3 d:1/ok/ok", seed(rng)));
        out.push(format!("c06.xfault {} 3 ok/d:2/ok", seed(rng)));
        out.push(format!("c06.xfault {} 3 d:2/d:1/d:-", seed(rng)));
        out.push(format!("c06.xfault {} 4 ok/ok/d:1,3", seed(rng)));
        out.push(format!("c06.xfault {} 5 d:4/d:1,2,3/d:2", seed(rng)));
        for _ in 0..(if thorough { 200 } else { 12 }) {
            let n = 2 + rng.usize_below(4);
            let scripts: Vec<String> = (0..3)
                .map(|_| {
                    if rng.below(3) == 0 {
                        "ok".to_string()
                    } else {
                        let d: Vec<String> = (1..n).filter(|_| rng.bool()).map(|j| j.to_string()).collect();
                        if d.is_empty() { "d:-".to_string() } else { format!("d:{}", d.join(",")) }
                    }
                })
                .collect();
            out.push(format!("c06.xfault {} {n} {}", seed(rng), scripts.join("/")));
        }
        out
    }
}

#[test]
fn verif_c06_xfault() {
    run_suite("c06_xfault", xfault::generate, xfault::exec);
}
