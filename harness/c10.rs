// Correspondence suites for property C10 (encrypted reports decrypt only if untouched; bad input
// never crashes a helper). Each suite is a #[test] fn named verif_c10_<suite>.
//
// Request grammar (TY = `8_3` for <BA8,BA3> as used by query/runner/hybrid.rs, `32_7` for <BA32,BA7>):
//   c10.parse  TY REG LOG RECORD        try_from(Bytes) + decrypt of one record
//   c10.flip   TY REG LOG RECORD BIT    the same on RECORD with bit BIT (0 = lsb of byte 0) flipped
//   c10.rt     TY KIND KEYID REG MK BTT SITE TS EPS SENS SEED   real encrypt -> try_from -> decrypt
//   c10.info   imp|conv BYTES           Hybrid*Info::from_bytes
//   c10.infonew KEYID SITE TS EPS SENS  HybridConversionInfo::new + to_bytes + from_bytes
//   c10.stream TY REG LOG CHUNKS        LengthDelimitedStream -> try_flatten_iters -> decrypt (as Query::execute)
//   c10.query  SZ REG LOG LABELS EXP CHUNKS1 CHUNKS2 CHUNKS3   the real Query::execute on three helpers (see below)
// REG  = comma list of base-key indices; position in the list = key id of the helper's registry (`-` = no keys)
// LOG  = comma list of `k:info:plain:enc:ct` = everything that was ever sealed (k = base-key index);
//        this is the table of the ideal AEAD against which the model decides `open`.
// Bytes are lowercase hex (`-` = empty). EPS/SENS are f64 bit patterns (decimal u64).
// Responses: `ok imp MK BTT KEYID` | `ok conv MK BTT KEYID SITE TS EPS SENS` | `err <kind> …` | `panic:…`.
use std::sync::OnceLock;

use bytes::Bytes;
use futures::{StreamExt, TryStreamExt};
use generic_array::GenericArray;

use super::proto::*;
use crate::{
    error::{BoxError, Error},
    ff::{
        Serializable,
        boolean_array::{BA3, BA7, BA8, BA32, BA64},
    },
    helpers::{BodyStream, LengthDelimitedStream, stream::TryFlattenItersExt},
    hpke::{
        CryptError, IpaPrivateKey, IpaPublicKey, KeyPair, KeyRegistry, PrivateKeyRegistry,
        PublicKeyRegistry, Serializable as _, seal_in_place,
    },
    report::{
        hybrid::{
            EncryptedHybridReport, HybridConversionReport, HybridImpressionReport, HybridReport,
            InvalidHybridReportError,
        },
        hybrid_info::{HybridConversionInfo, HybridImpressionInfo},
    },
    secret_sharing::replicated::semi_honest::AdditiveShare as Replicated,
};

const N_BASE_KEYS: usize = 4;

/// The fixed key pairs all suites use (independent of VERIF_SEED so that recorded requests replay).
fn base_keys() -> &'static Vec<(IpaPrivateKey, IpaPublicKey)> {
    static KEYS: OnceLock<Vec<(IpaPrivateKey, IpaPublicKey)>> = OnceLock::new();
    KEYS.get_or_init(|| {
        let mut rng = Rng(0x00C1_0C10_0C10_0C10);
        let reg = KeyRegistry::<KeyPair>::random(N_BASE_KEYS, &mut rng);
        (0..N_BASE_KEYS)
            .map(|i| {
                let id = u8::try_from(i).unwrap();
                (
                    reg.private_key(id).unwrap().clone(),
                    reg.public_key(id).unwrap().clone(),
                )
            })
            .collect()
    })
}

/// A helper's key registry: key id = position in the list. It is the REAL `KeyRegistry<KeyPair>`
/// (hpke/registry.rs), so its lookup (incl. the bounds check for unknown key ids) is part of what is compared.
pub struct Reg(KeyRegistry<KeyPair>);

impl Reg {
    pub fn from_pairs(keys: Vec<(IpaPrivateKey, IpaPublicKey)>) -> Self {
        let mut ks: Vec<KeyPair> = keys.into_iter().map(KeyPair::from).collect();
        macro_rules! arr {
            ($n:literal) => {{
                let a: [KeyPair; $n] = std::array::from_fn(|_| ks.remove(0));
                KeyRegistry::from_keys(a)
            }};
        }
        Reg(match ks.len() {
            0 => KeyRegistry::empty(),
            1 => arr!(1),
            2 => arr!(2),
            3 => arr!(3),
            4 => arr!(4),
            5 => arr!(5),
            6 => arr!(6),
            7 => arr!(7),
            8 => arr!(8),
            n => panic!("harness: registry of {n} keys not supported"),
        })
    }

    pub fn parse(s: &str) -> Self {
        Self::from_pairs(
            parse_nat_list::<usize>(s)
                .into_iter()
                .map(|i| base_keys()[i].clone())
                .collect(),
        )
    }
}

impl PrivateKeyRegistry for Reg {
    fn private_key(&self, key_id: u8) -> Option<&IpaPrivateKey> {
        self.0.private_key(key_id)
    }
}

impl PublicKeyRegistry for Reg {
    fn public_key(&self, key_id: u8) -> Option<&IpaPublicKey> {
        self.0.public_key(key_id)
    }
}

fn ser<T: Serializable>(x: &T) -> String {
    let mut b = GenericArray::<u8, T::Size>::default();
    x.serialize(&mut b);
    hex(&b)
}

fn conv_info_str(i: &HybridConversionInfo) -> String {
    format!(
        "{} {} {} {} {}",
        i.key_id,
        hex(i.conversion_site_domain.as_bytes()),
        i.timestamp,
        i.epsilon.to_bits(),
        i.sensitivity.to_bits()
    )
}

pub fn err_str(e: &InvalidHybridReportError) -> String {
    match e {
        InvalidHybridReportError::NonAsciiString(_) => "err nonascii".into(),
        InvalidHybridReportError::Crypt(CryptError::NoSuchKey(k)) => format!("err nosuchkey {k}"),
        InvalidHybridReportError::Crypt(CryptError::Other) => "err crypt".into(),
        InvalidHybridReportError::DeserializationError(f, _) => {
            format!("err deser {}", f.replace(' ', "_"))
        }
        InvalidHybridReportError::Length(a, b) => format!("err length {a} {b}"),
        InvalidHybridReportError::UnknownEventType(v) => format!("err eventtype {v}"),
        InvalidHybridReportError::WrongInfoType(_) => "err wronginfotype".into(),
    }
}

fn flip(mut v: Vec<u8>, bit: usize) -> Vec<u8> {
    v[bit / 8] ^= 1 << (bit % 8);
    v
}

fn parse_chunks(s: &str) -> Vec<Vec<u8>> {
    if s == "-" {
        return vec![];
    }
    s.split(',').map(|c| unhex(if c == "e" { "-" } else { c })).collect()
}

fn f64_of(s: &str) -> f64 {
    f64::from_bits(s.parse::<u64>().unwrap())
}

macro_rules! impl_ty {
    ($modname:ident, $bk:ty, $v:ty) => {
        mod $modname {
            use super::*;
            pub type Enc = EncryptedHybridReport<$bk, $v>;

            pub fn report_str(r: &HybridReport<$bk, $v>) -> String {
                match r {
                    HybridReport::Impression(i) => format!(
                        "imp {} {} {}",
                        ser(&i.match_key),
                        ser(&i.breakdown_key),
                        i.info.key_id
                    ),
                    HybridReport::Conversion(c) => format!(
                        "conv {} {} {}",
                        ser(&c.match_key),
                        ser(&c.value),
                        conv_info_str(&c.info)
                    ),
                }
            }

            pub fn parse(reg: &Reg, record: Vec<u8>) -> String {
                match Enc::try_from(Bytes::from(record)) {
                    Err(e) => err_str(&e),
                    Ok(r) => match r.decrypt(reg) {
                        Ok(rep) => format!("ok {}", report_str(&rep)),
                        Err(e) => err_str(&e),
                    },
                }
            }

            pub const BK_SIZE: usize = <<Replicated<$bk> as Serializable>::Size as typenum::Unsigned>::USIZE;
            pub const V_SIZE: usize = <<Replicated<$v> as Serializable>::Size as typenum::Unsigned>::USIZE;

            /// Real encryption path followed by the real decryption path.
            #[allow(clippy::too_many_arguments)]
            pub fn roundtrip(
                kind: &str,
                key_id: u8,
                reg: &Reg,
                mk: &[u8],
                btt: &[u8],
                site: &[u8],
                ts: u64,
                eps: f64,
                sens: f64,
                seed: u64,
            ) -> String {
                let mut rng = Rng(seed);
                let match_key = Replicated::<BA64>::deserialize(GenericArray::from_slice(mk)).unwrap();
                let report: HybridReport<$bk, $v> = if kind == "imp" {
                    #[allow(irrefutable_let_patterns)]
                    let Ok(breakdown_key) = Replicated::<$bk>::deserialize(GenericArray::from_slice(btt)) else {
                        return "err harness-bad-share".into();
                    };
                    HybridReport::Impression(HybridImpressionReport { match_key, breakdown_key, info: HybridImpressionInfo::new(key_id) })
                } else {
                    let Ok(value) = Replicated::<$v>::deserialize(GenericArray::from_slice(btt)) else {
                        return "err harness-bad-share".into();
                    };
                    let site = std::str::from_utf8(site).expect("harness: site must be UTF-8 to reach HybridConversionInfo::new");
                    let info = match HybridConversionInfo::new(key_id, site, ts, eps, sens) {
                        Ok(i) => i,
                        Err(e) => return err_str(&e.into()),
                    };
                    HybridReport::Conversion(HybridConversionReport { match_key, value, info })
                };
                let declared = report.encrypted_len();
                let bytes = match report.encrypt(key_id, reg, &mut rng) {
                    Ok(b) => b,
                    Err(e) => return err_str(&e),
                };
                // the delimited form must be the 2-byte LE length followed by the same layout
                let mut delim = Vec::new();
                report.delimited_encrypt_to(key_id, reg, &mut Rng(seed), &mut delim).unwrap();
                let delim_ok = delim.len() == bytes.len() + 2
                    && usize::from(u16::from_le_bytes([delim[0], delim[1]])) == bytes.len()
                    && delim[2..] == bytes[..];
                let key_off = bytes.len() - usize::from(match &report {
                    HybridReport::Impression(i) => u16::try_from(i.info.byte_len()).unwrap(),
                    HybridReport::Conversion(c) => u16::try_from(c.info.byte_len()).unwrap(),
                }) - 1;
                let tail = hex(&bytes[key_off..]);
                let evt = bytes[0];
                let out = parse(reg, bytes.clone());
                // compared through the canonical string: floats by bit pattern (NaN != NaN numerically)
                let same = match Enc::try_from(Bytes::from(bytes.clone())).and_then(|e| e.decrypt(reg)) {
                    Ok(r) => report_str(&r) == report_str(&report),
                    Err(_) => false,
                };
                format!("{out} len={} declared={declared} delim={} evt={evt} tail={tail} same={}", bytes.len(), u8::from(delim_ok), u8::from(same))
            }

            /// Encrypt with the REAL `HybridReport::encrypt` to base key `kid % N_BASE_KEYS` and describe the
            /// two sealed parts (read back through the real accessors) as log entries.
            #[allow(clippy::too_many_arguments)]
            pub fn encrypt_real(evt: u8, kid: u8, mk: &[u8], btt: &[u8], site: &str, ts: u64, eps: u64, sens: u64, rng: &mut Rng) -> (Vec<u8>, Vec<String>) {
                let match_key = Replicated::<BA64>::deserialize(GenericArray::from_slice(mk)).unwrap();
                let k = usize::from(kid) % N_BASE_KEYS;
                let mut keys = vec![base_keys()[0].clone(); usize::from(kid) + 1];
                keys[usize::from(kid)] = base_keys()[k].clone();
                let reg = Reg::from_pairs(keys);
                let (report, info_enc): (HybridReport<$bk, $v>, Vec<u8>) = if evt == 0 {
                    let info = HybridImpressionInfo::new(kid);
                    let e = info.to_enc_bytes().to_vec();
                    (HybridReport::Impression(HybridImpressionReport { match_key, breakdown_key: Replicated::<$bk>::deserialize(GenericArray::from_slice(btt)).unwrap(), info }), e)
                } else {
                    let info = HybridConversionInfo { key_id: kid, conversion_site_domain: site.to_string(), timestamp: ts, epsilon: f64::from_bits(eps), sensitivity: f64::from_bits(sens) };
                    let e = info.to_enc_bytes().to_vec();
                    (HybridReport::Conversion(HybridConversionReport { match_key, value: Replicated::<$v>::deserialize(GenericArray::from_slice(btt)).unwrap(), info }), e)
                };
                let bytes = report.encrypt(kid, &reg, rng).unwrap();
                let enc = Enc::try_from(Bytes::from(bytes.clone())).unwrap();
                let log = vec![
                    format!("{k}:{}:{}:{}:{}", hex(&info_enc), hex(mk), hex(enc.encap_key_mk()), hex(enc.mk_ciphertext())),
                    format!("{k}:{}:{}:{}:{}", hex(&info_enc), hex(btt), hex(enc.encap_key_btt()), hex(enc.btt_ciphertext())),
                ];
                (bytes, log)
            }

            pub fn stream(reg: &Reg, chunks: Vec<Vec<u8>>) -> String {
                let body = BodyStream::from_bytes_stream(futures::stream::iter(
                    chunks.into_iter().map(|c| Ok::<Bytes, BoxError>(Bytes::from(c))),
                ));
                let fut = LengthDelimitedStream::<Enc, _>::new(body)
                    .map_err(Into::<Error>::into)
                    .try_flatten_iters()
                    .map(|r| r.and_then(|enc| enc.decrypt(reg).map_err(Into::<Error>::into)))
                    .try_collect::<Vec<_>>();
                match block_on_timeout(20, fut) {
                    Err(t) => t,
                    Ok(Err(_)) => "err".into(),
                    Ok(Ok(reports)) => {
                        let mut s = format!("ok {}", reports.len());
                        for r in &reports {
                            s.push_str(" | ");
                            s.push_str(&report_str(r));
                        }
                        s
                    }
                }
            }
        }
    };
}

impl_ty!(t8_3, BA8, BA3);
impl_ty!(t32_7, BA32, BA7);

macro_rules! dispatch {
    ($ty:expr, $f:ident ( $($a:expr),* )) => {
        match $ty {
            "8_3" => t8_3::$f($($a),*),
            "32_7" => t32_7::$f($($a),*),
            t => panic!("harness: unknown type pair {t}"),
        }
    };
}

fn exec_info(kind: &str, bytes: &[u8]) -> String {
    match kind {
        "imp" => match HybridImpressionInfo::from_bytes(bytes) {
            Ok(i) => format!("ok {} tobytes={} enc={}", i.key_id, hex(&i.to_bytes()), hex(&i.to_enc_bytes())),
            Err(e) => err_str(&e),
        },
        "conv" => match HybridConversionInfo::from_bytes(bytes) {
            Ok(i) => format!("ok {} tobytes={} enc={}", conv_info_str(&i), hex(&i.to_bytes()), hex(&i.to_enc_bytes())),
            Err(e) => err_str(&e),
        },
        k => panic!("harness: unknown info kind {k}"),
    }
}

fn exec_infonew(t: &[&str]) -> String {
    let key_id: u8 = t[0].parse().unwrap();
    let site_bytes = unhex(t[1]);
    let site = std::str::from_utf8(&site_bytes).expect("harness: site must be UTF-8");
    let info = match HybridConversionInfo::new(key_id, site, t[2].parse().unwrap(), f64_of(t[3]), f64_of(t[4])) {
        Ok(i) => i,
        Err(e) => return err_str(&e.into()),
    };
    let bytes = info.to_bytes();
    let back = match guarded(|| HybridConversionInfo::from_bytes(&bytes)) {
        Err(p) => p,
        Ok(Err(e)) => err_str(&e),
        Ok(Ok(i2)) => {
            // compare through the canonical string (floats by bit pattern)
            if conv_info_str(&i2) == conv_info_str(&info) { "same".into() } else { format!("diff {}", conv_info_str(&i2)) }
        }
    };
    format!("ok bytelen={} tobytes={} enc={} back={}", bytes.len(), hex(&bytes), hex(&info.to_enc_bytes()), back)
}

pub fn exec(req: &str) -> String {
    let t: Vec<&str> = req.split(' ').collect();
    match t[0] {
        "c10.parse" => {
            let reg = Reg::parse(t[2]);
            dispatch!(t[1], parse(&reg, unhex(t[4])))
        }
        "c10.flip" => {
            let reg = Reg::parse(t[2]);
            dispatch!(t[1], parse(&reg, flip(unhex(t[4]), t[5].parse().unwrap())))
        }
        "c10.rt" => {
            let reg = Reg::parse(t[4]);
            dispatch!(t[1], roundtrip(t[2], t[3].parse().unwrap(), &reg, &unhex(t[5]), &unhex(t[6]), &unhex(t[7]),
                t[8].parse().unwrap(), f64_of(t[9]), f64_of(t[10]), t[11].parse().unwrap()))
        }
        "c10.info" => exec_info(t[1], &unhex(t[2])),
        "c10.infonew" => exec_infonew(&t[1..]),
        "c10.stream" => {
            let reg = Reg::parse(t[2]);
            dispatch!(t[1], stream(&reg, parse_chunks(t[4])))
        }
        _ => panic!("harness: unknown request {req}"),
    }
}

// ------------------------------------------------------------------ generators

/// Everything sealed so far (the ideal-AEAD table handed to the model).
#[derive(Default, Clone)]
struct Log(Vec<String>);

impl Log {
    fn show(&self) -> String {
        if self.0.is_empty() { "-".into() } else { self.0.join(",") }
    }
}

/// Seal `plain` to base key `k` under `info` with the real HPKE code; returns (enc, ct‖tag).
fn seal(log: &mut Log, k: usize, plain: &[u8], info: &[u8], rng: &mut Rng) -> (Vec<u8>, Vec<u8>) {
    let mut p = plain.to_vec();
    let (enc, ct, tag) = seal_in_place(&base_keys()[k].1, &mut p, info, rng).unwrap();
    let enc = enc.to_bytes().to_vec();
    let mut c = ct.to_vec();
    c.extend_from_slice(&tag.to_bytes());
    log.0.push(format!("{k}:{}:{}:{}:{}", hex(info), hex(plain), hex(&enc), hex(&c)));
    (enc, c)
}

/// The `DOMAIN ‖ HELPER_ORIGIN` prefix of every HPKE info string, taken from the real code.
fn enc_prefix() -> Vec<u8> {
    let b = HybridImpressionInfo::new(0).to_enc_bytes();
    b[..b.len() - 1].to_vec()
}

#[derive(Clone)]
struct Spec {
    evt: u8,
    seal_key: usize,
    key_id_byte: u8,
    mk: Vec<u8>,
    btt: Vec<u8>,
    /// bytes placed after the key identifier
    info_wire: Vec<u8>,
    /// HPKE info the sender used
    info_enc: Vec<u8>,
}

fn conv_wire(site: &[u8], kid: u8, ts: u64, eps: u64, sens: u64) -> (Vec<u8>, Vec<u8>) {
    let mut tailv = vec![kid];
    tailv.extend_from_slice(&ts.to_be_bytes());
    tailv.extend_from_slice(&eps.to_be_bytes());
    tailv.extend_from_slice(&sens.to_be_bytes());
    let mut wire = site.to_vec();
    wire.push(0);
    wire.extend_from_slice(&tailv);
    let mut enc = enc_prefix();
    enc.extend_from_slice(site);
    enc.extend_from_slice(&tailv);
    (wire, enc)
}

fn imp_wire(kid: u8) -> (Vec<u8>, Vec<u8>) {
    let mut enc = enc_prefix();
    enc.push(kid);
    (vec![kid], enc)
}

fn build(log: &mut Log, s: &Spec, rng: &mut Rng) -> Vec<u8> {
    let (e1, c1) = seal(log, s.seal_key, &s.mk, &s.info_enc, rng);
    let (e2, c2) = seal(log, s.seal_key, &s.btt, &s.info_enc, rng);
    let mut r = vec![s.evt];
    r.extend_from_slice(&e1);
    r.extend_from_slice(&c1);
    r.extend_from_slice(&e2);
    r.extend_from_slice(&c2);
    r.push(s.key_id_byte);
    r.extend_from_slice(&s.info_wire);
    r
}

fn btt_size(ty: &str, evt: u8) -> usize {
    match (ty, evt) {
        ("8_3", 0) => t8_3::BK_SIZE,
        ("8_3", _) => t8_3::V_SIZE,
        ("32_7", 0) => t32_7::BK_SIZE,
        ("32_7", _) => t32_7::V_SIZE,
        _ => unreachable!(),
    }
}

fn btt_bits(ty: &str, evt: u8) -> u32 {
    match (ty, evt) {
        ("8_3", 0) => 8,
        ("8_3", _) => 3,
        ("32_7", 0) => 32,
        ("32_7", _) => 7,
        _ => unreachable!(),
    }
}

/// A canonical random share of the breakdown-key / value type (padding bits zero).
fn rand_btt(ty: &str, evt: u8, rng: &mut Rng) -> Vec<u8> {
    let n = btt_size(ty, evt);
    let bits = btt_bits(ty, evt);
    let half = n / 2;
    let mut v = rng.bytes(n);
    for h in 0..2 {
        for i in 0..half {
            let lo = 8 * i as u32;
            let keep = bits.saturating_sub(lo).min(8);
            let mask = if keep == 8 { 0xff } else { (1u16 << keep) as u8 - 1 };
            v[h * half + i] &= mask;
        }
    }
    v
}

fn honest_spec(ty: &str, evt: u8, kid: u8, site: &[u8], ts: u64, eps: u64, sens: u64, rng: &mut Rng) -> Spec {
    let (info_wire, info_enc) = if evt == 0 { imp_wire(kid) } else { conv_wire(site, kid, ts, eps, sens) };
    Spec { evt, seal_key: usize::from(kid) % N_BASE_KEYS, key_id_byte: kid, mk: rng.bytes(16), btt: rand_btt(ty, evt, rng), info_wire, info_enc }
}

/// An honest record produced by the real encryption path (site must be a `str`; NUL / non-ASCII allowed
/// because the info is built as a struct literal), logged for the model's ideal AEAD.
#[allow(clippy::too_many_arguments)]
fn real_record(ty: &str, log: &mut Log, evt: u8, kid: u8, site: &str, ts: u64, eps: u64, sens: u64, rng: &mut Rng) -> Vec<u8> {
    let mk = rng.bytes(16);
    let btt = rand_btt(ty, evt, rng);
    let (bytes, entries) = dispatch!(ty, encrypt_real(evt, kid, &mk, &btt, site, ts, eps, sens, rng));
    log.0.extend(entries);
    bytes
}

const F64_PATTERNS: [u64; 10] = [
    0,                       // +0.0
    0x8000_0000_0000_0000,   // -0.0
    0x7ff0_0000_0000_0000,   // +inf
    0xfff0_0000_0000_0000,   // -inf
    0x7ff8_0000_0000_0000,   // NaN
    0x7ff0_0000_0000_0001,   // signalling NaN
    0xffff_ffff_ffff_ffff,   // NaN, all ones
    1,                       // smallest subnormal
    0x3ff0_0000_0000_0000,   // 1.0
    0x0010_0000_0000_0000,   // smallest normal
];

fn ascii_site(n: usize, rng: &mut Rng) -> Vec<u8> {
    (0..n).map(|_| 1 + (rng.below(127) as u8)).collect()
}

fn gen_parse(rng: &mut Rng, thorough: bool) -> Vec<String> {
    let mut out = vec![];
    let reg_full = "0,1,2,3";
    for ty in ["8_3", "32_7"] {
        let push = |out: &mut Vec<String>, reg: &str, log: &Log, rec: &[u8]| {
            out.push(format!("c10.parse {ty} {reg} {} {}", log.show(), hex(rec)));
        };
        // empty and one-byte records, every event-type byte
        let empty_log = Log::default();
        push(&mut out, reg_full, &empty_log, &[]);
        for b in 0..=255u8 {
            push(&mut out, reg_full, &empty_log, &[b]);
        }
        // valid records of both kinds; all truncations
        let mut log = Log::default();
        let imp = real_record(ty, &mut log, 0, 0, "", 0, 0, 0, rng);
        let conv0 = real_record(ty, &mut log, 1, 0, "", 0, 0, 0, rng);
        let conv2 = real_record(ty, &mut log, 1, 1, "ab", 1_729_707_432, 0x4014_0000_0000_0000, 0x3ff1_9999_9999_999a, rng);
        for rec in [&imp, &conv0, &conv2] {
            for n in 0..=rec.len() {
                push(&mut out, reg_full, &log, &rec[..n]);
            }
            // trailing extra bytes
            for extra in [1usize, 2, 25, 26] {
                let mut r = rec.clone();
                r.extend(rng.bytes(extra));
                push(&mut out, reg_full, &log, &r);
                let mut r = rec.clone();
                r.extend(vec![0u8; extra]);
                push(&mut out, reg_full, &log, &r);
            }
            // every event-type byte in front of an otherwise valid record
            for b in 0..=255u8 {
                let mut r = rec.clone();
                r[0] = b;
                push(&mut out, reg_full, &log, &r);
            }
            // key identifier byte: every value, several registries
            let info_len = if rec[0] == 0 { 1 } else if std::ptr::eq(rec, &conv0) { 26 } else { 28 };
            let koff = rec.len() - info_len - 1;
            for kid in [0u8, 1, 2, 3, 4, 127, 128, 255] {
                for reg in ["-", "0", "0,1", reg_full, "1,0,3,2", "0,0,0,0", "1,1"] {
                    let mut r = rec.clone();
                    r[koff] = kid;
                    push(&mut out, reg, &log, &r);
                }
            }
            // key id inside the info
            for kid in [0u8, 1, 255] {
                let mut r = rec.clone();
                let ioff = if r[0] == 0 { koff + 1 } else { koff + 1 + (info_len - 25) };
                r[ioff] = kid;
                push(&mut out, reg_full, &log, &r);
            }
        }
        // site-domain lengths incl. NUL / non-ASCII / invalid UTF-8, extreme timestamps and floats
        let mut sites: Vec<Vec<u8>> = vec![];
        for n in [0usize, 1, 2, 127, 255] {
            sites.push(ascii_site(n, rng));
            if n > 0 {
                let mut s = ascii_site(n, rng);
                let p = rng.usize_below(n);
                s[p] = 0; // NUL inside the site (F7)
                sites.push(s);
                let mut s = ascii_site(n, rng);
                s[n - 1] = 0;
                sites.push(s);
                let mut s = ascii_site(n, rng);
                s[0] = 0;
                sites.push(s);
                let mut s = ascii_site(n, rng);
                let p = rng.usize_below(n);
                s[p] = 0x80 | (rng.below(128) as u8); // not UTF-8 on its own (mostly)
                sites.push(s);
            }
        }
        sites.push("é".as_bytes().to_vec());
        sites.push("例え.jp".as_bytes().to_vec());
        sites.push("\u{10FFFF}x".as_bytes().to_vec());
        sites.push(vec![0xC0, 0x80]); // overlong NUL
        sites.push(vec![0xED, 0xA0, 0x80]); // surrogate
        sites.push(vec![0xF4, 0x90, 0x80, 0x80]); // > U+10FFFF
        sites.push(vec![0xE2, 0x82]); // truncated sequence
        sites.push(vec![0xFF]);
        for (j, site) in sites.iter().enumerate() {
            let mut log = Log::default();
            let ts = [0u64, 1, u64::MAX, u64::MAX - 1, 1 << 63, 0x0100_0000_0000_0000, 0x00ff_ffff_ffff_ffff][j % 7];
            let eps = F64_PATTERNS[j % 10];
            let sens = F64_PATTERNS[(j / 2 + 3) % 10];
            let kid = (j % 4) as u8;
            let rec = build(&mut log, &honest_spec(ty, 1, kid, site, ts, eps, sens, rng), rng);
            push(&mut out, reg_full, &log, &rec);
        }
        // timestamps / floats whose big-endian bytes contain or are all zero / 0xff
        for j in 0..(if thorough { 200 } else { 24 }) {
            let mut log = Log::default();
            let pick = |rng: &mut Rng| match rng.below(4) {
                0 => *rng.pick(&F64_PATTERNS),
                1 => rng.next_u64() & 0x00ff_00ff_00ff_00ff,
                2 => rng.next_u64() | 0xff00_0000_0000_00ff,
                _ => rng.next_u64(),
            };
            let (ts, eps, sens) = (pick(rng), pick(rng), pick(rng));
            let n = rng.usize_below(40);
            let rec = build(&mut log, &honest_spec(ty, 1, (j % 4) as u8, &ascii_site(n, rng), ts, eps, sens, rng), rng);
            push(&mut out, reg_full, &log, &rec);
        }
        // crafted infos: no delimiter, short / long tails, impression info of length 0 / 2, info key id != key byte
        let mut crafted: Vec<Spec> = vec![];
        let base_c = honest_spec(ty, 1, 0, b"example.com", 7, F64_PATTERNS[8], F64_PATTERNS[8], rng);
        let base_i = honest_spec(ty, 0, 0, &[], 0, 0, 0, rng);
        for cut in [1usize, 2, 8, 24, 25, 26, 27, 36, 37] {
            let mut s = base_c.clone();
            let n = s.info_wire.len();
            if cut <= n {
                s.info_wire.truncate(n - cut);
                crafted.push(s);
            }
        }
        for extra in [1usize, 2, 25] {
            let mut s = base_c.clone();
            s.info_wire.extend(rng.bytes(extra));
            crafted.push(s);
        }
        {
            let mut s = base_c.clone();
            s.info_wire = s.info_wire.iter().map(|&b| if b == 0 { 1 } else { b }).collect(); // no delimiter at all
            crafted.push(s);
            let mut s = base_c.clone();
            s.info_wire = vec![0];
            crafted.push(s);
            let mut s = base_c.clone();
            s.info_wire = vec![0; 26];
            s.info_enc = conv_wire(&[], 0, 0, 0, 0).1;
            crafted.push(s);
            let mut s = base_i.clone();
            s.info_wire = vec![];
            crafted.push(s);
            let mut s = base_i.clone();
            s.info_wire = vec![0, 0];
            crafted.push(s);
            let mut s = base_i.clone();
            s.info_wire = vec![0, 7, 7, 7];
            crafted.push(s);
            // sender used key id 1 in the info but 0 in the key-identifier byte (sealed to key 0)
            let mut s = honest_spec(ty, 0, 1, &[], 0, 0, 0, rng);
            s.key_id_byte = 0;
            s.seal_key = 0;
            crafted.push(s);
            let mut s = honest_spec(ty, 1, 2, b"x.y", 5, 6, 7, rng);
            s.key_id_byte = 3;
            s.seal_key = 3;
            crafted.push(s);
            // sealed under a different info than the one on the wire
            let mut s = base_c.clone();
            s.info_enc = conv_wire(b"example.con", 0, 7, F64_PATTERNS[8], F64_PATTERNS[8]).1;
            crafted.push(s);
            let mut s = base_i.clone();
            s.info_enc = imp_wire(1).1;
            crafted.push(s);
            // impression sealed with a conversion-style info and vice versa
            let mut s = base_i.clone();
            s.info_enc = base_c.info_enc.clone();
            crafted.push(s);
            // cross-kind: event byte says the other kind
            let mut s = base_i.clone();
            s.evt = 1;
            crafted.push(s);
            let mut s = base_c.clone();
            s.evt = 0;
            crafted.push(s);
            // conversion whose site starts with the key id byte, relabelled as an impression with 1-byte info
            let mut s = base_c.clone();
            s.evt = 0;
            s.info_wire = vec![0];
            crafted.push(s);
            // padding bits set in the breakdown-key / value plaintext
            for evt in [0u8, 1] {
                let n = btt_size(ty, evt);
                for pos in [0usize, n / 2 - 1, n / 2, n - 1] {
                    let mut s = if evt == 0 { base_i.clone() } else { base_c.clone() };
                    s.btt = vec![0; n];
                    s.btt[pos] = 0x80;
                    crafted.push(s);
                    let mut s = if evt == 0 { base_i.clone() } else { base_c.clone() };
                    s.btt = vec![0xff; n];
                    crafted.push(s);
                }
            }
            // plaintexts of the wrong size (shifts the layout)
            for (a, b) in [(15usize, 2usize), (17, 2), (16, 1), (16, 3), (0, 0), (2, 16)] {
                let mut s = base_c.clone();
                s.mk = rng.bytes(a);
                s.btt = rng.bytes(b);
                crafted.push(s);
            }
        }
        for s in &crafted {
            let mut log = Log::default();
            let rec = build(&mut log, s, rng);
            push(&mut out, reg_full, &log, &rec);
            push(&mut out, "1,2,3,0", &log, &rec);
        }
        // swapped / spliced ciphertexts between two honest records
        {
            let mut log = Log::default();
            let a = build(&mut log, &honest_spec(ty, 1, 0, b"s.com", 1, 2, 3, rng), rng);
            let b = build(&mut log, &honest_spec(ty, 1, 0, b"s.com", 1, 2, 3, rng), rng);
            let c = build(&mut log, &honest_spec(ty, 1, 0, b"t.com", 1, 2, 3, rng), rng);
            let v = btt_size(ty, 1);
            let mk_end = 1 + 32 + 16 + 16;
            let btt_end = mk_end + 32 + 16 + v;
            let mut r = a.clone();
            r[1..mk_end].copy_from_slice(&b[1..mk_end]); // mk of b, value of a: same info => accepted
            push(&mut out, reg_full, &log, &r);
            let mut r = a.clone();
            r[mk_end..btt_end].copy_from_slice(&c[mk_end..btt_end]); // value sealed under another site
            push(&mut out, reg_full, &log, &r);
            let mut r = a.clone();
            r[1..33].copy_from_slice(&b[1..33]); // encapsulated key of b with ciphertext of a
            push(&mut out, reg_full, &log, &r);
            let mut r = a.clone();
            r[mk_end - 16..mk_end].copy_from_slice(&b[mk_end - 16..mk_end]); // tag of b
            push(&mut out, reg_full, &log, &r);
        }
        // garbage of random length
        let max_len = 420;
        for _ in 0..(if thorough { 4000 } else { 300 }) {
            let n = match rng.below(4) {
                0 => rng.usize_below(8),
                1 => 90 + rng.usize_below(60),
                _ => rng.usize_below(max_len),
            };
            let mut r = rng.bytes(n);
            if n > 0 && rng.below(4) != 0 {
                r[0] = rng.below(2) as u8;
            }
            if n > 0 && rng.bool() {
                // plausible key id and a NUL somewhere so that the info parser gets further
                let p = rng.usize_below(n);
                r[p] = 0;
            }
            push(&mut out, *rng.pick(&["-", "0", reg_full]), &empty_log, &r);
        }
    }
    out
}

fn gen_flip(rng: &mut Rng, thorough: bool) -> Vec<String> {
    let mut out = vec![];
    let tys: &[&str] = if thorough { &["8_3", "32_7"] } else { &["8_3"] };
    for ty in tys {
        let site64 = String::from_utf8(ascii_site(64, rng)).unwrap();
        let mut specs: Vec<(u8, u8, &str, u64, u64, u64)> = vec![
            (0, 0, "", 0, 0, 0),
            (1, 0, "meta.com", 1_729_707_432, 0x4014_0000_0000_0000, 0x3ff1_9999_9999_999a),
        ];
        if thorough {
            specs.push((0, 3, "", 0, 0, 0));
            specs.push((1, 2, "", 0, 0, 0));
            specs.push((1, 1, &site64, u64::MAX, F64_PATTERNS[4], F64_PATTERNS[1]));
        }
        for &(evt, kid, site, ts, eps, sens) in &specs {
            let mut log = Log::default();
            let rec = real_record(ty, &mut log, evt, kid, site, ts, eps, sens, rng);
            out.push(format!("c10.parse {ty} 0,1,2,3 {} {}", log.show(), hex(&rec)));
            for bit in 0..8 * rec.len() {
                out.push(format!("c10.flip {ty} 0,1,2,3 {} {} {bit}", log.show(), hex(&rec)));
            }
        }
    }
    out
}

fn gen_roundtrip(rng: &mut Rng, thorough: bool) -> Vec<String> {
    let mut out = vec![];
    for ty in ["8_3", "32_7"] {
        let mut push = |kind: &str, kid: u8, reg: &str, mk: &[u8], btt: &[u8], site: &[u8], ts: u64, eps: u64, sens: u64, seed: u64| {
            out.push(format!("c10.rt {ty} {kind} {kid} {reg} {} {} {} {ts} {eps} {sens} {seed}", hex(mk), hex(btt), hex(site)));
        };
        // boundaries: zero / all-ones shares, every base key, missing keys
        for kid in 0..6u8 {
            for reg in ["0,1,2,3", "0", "-", "3,2,1,0"] {
                push("imp", kid, reg, &[0; 16], &vec![0; btt_size(ty, 0)], &[], 0, 0, 0, 1);
                push("conv", kid, reg, &[0xff; 16], &vec![0; btt_size(ty, 1)], b"a.b", u64::MAX, F64_PATTERNS[4], F64_PATTERNS[1], 2);
            }
        }
        push("imp", 0, "0", &[0xff; 16], &vec![0xff; btt_size(ty, 0)], &[], 0, 0, 0, 3);
        push("imp", 255, "0,1,2,3", &[1; 16], &vec![0; btt_size(ty, 0)], &[], 0, 0, 0, 3);
        // site lengths incl. NUL and non-ASCII (valid UTF-8 only: `new` takes &str)
        for n in [0usize, 1, 2, 127, 255] {
            let s = ascii_site(n, rng);
            push("conv", 0, "0,1", &rng.bytes(16), &rand_btt(ty, 1, rng), &s, rng.next_u64(), rng.next_u64(), rng.next_u64(), rng.next_u64());
            if n > 0 {
                for p in [0, n / 2, n - 1] {
                    let mut z = s.clone();
                    z[p] = 0;
                    push("conv", 1, "0,1", &rng.bytes(16), &rand_btt(ty, 1, rng), &z, 1, 2, 3, rng.next_u64());
                }
            }
        }
        push("conv", 0, "0", &rng.bytes(16), &rand_btt(ty, 1, rng), "é.com".as_bytes(), 1, 2, 3, 9);
        push("conv", 0, "0", &rng.bytes(16), &rand_btt(ty, 1, rng), "\u{7f}".as_bytes(), 1, 2, 3, 9);
        push("conv", 0, "0", &rng.bytes(16), &rand_btt(ty, 1, rng), "\u{80}".as_bytes(), 1, 2, 3, 9);
        for &e in &F64_PATTERNS {
            for &t in &[0u64, u64::MAX, 1 << 56, 0xff] {
                push("conv", 2, "0,1,2", &rng.bytes(16), &rand_btt(ty, 1, rng), b"x", t, e, e ^ 1, rng.next_u64());
            }
        }
        for _ in 0..(if thorough { 3000 } else { 150 }) {
            let kid = rng.below(4) as u8;
            if rng.bool() {
                push("imp", kid, "0,1,2,3", &rng.bytes(16), &rand_btt(ty, 0, rng), &[], 0, 0, 0, rng.next_u64());
            } else {
                let n = rng.usize_below(64);
                push("conv", kid, "0,1,2,3", &rng.bytes(16), &rand_btt(ty, 1, rng), &ascii_site(n, rng), rng.next_u64(), rng.next_u64(), rng.next_u64(), rng.next_u64());
            }
        }
    }
    out
}

fn gen_info(rng: &mut Rng, thorough: bool) -> Vec<String> {
    let mut out = vec![];
    // impression info: every length 0..3, every first byte
    out.push("c10.info imp -".to_string());
    for b in 0..=255u8 {
        out.push(format!("c10.info imp {}", hex(&[b])));
    }
    out.push("c10.info imp 0000".to_string());
    out.push("c10.info imp 01ff02".to_string());
    // conversion info
    out.push("c10.info conv -".to_string());
    out.push("c10.info conv 00".to_string());
    out.push("c10.info conv 41".to_string());
    for n in 0..=60usize {
        out.push(format!("c10.info conv {}", hex(&vec![0u8; n])));
        out.push(format!("c10.info conv {}", hex(&vec![0x41u8; n])));
        let mut v = vec![0x41u8; n];
        if n > 0 {
            v[n / 2] = 0;
        }
        out.push(format!("c10.info conv {}", hex(&v)));
    }
    let (w, _) = conv_wire(b"example.com", 3, 77, 88, 99);
    for n in 0..=w.len() + 2 {
        let mut v = w.clone();
        v.resize(n, 0x5a);
        out.push(format!("c10.info conv {}", hex(&v)));
    }
    for site in [&b""[..], b"a", &[0xC3, 0xA9], &[0xC3], &[0xC0, 0x80], &[0xED, 0xA0, 0x80], &[0xED, 0x9F, 0xBF], &[0xF4, 0x8F, 0xBF, 0xBF], &[0xF4, 0x90, 0x80, 0x80], &[0xF0, 0x90, 0x80, 0x80], &[0xF0, 0x8F, 0x80, 0x80], &[0xE0, 0xA0, 0x80], &[0xE0, 0x9F, 0x80], &[0x80], &[0xFF], &[0xF8, 0x88, 0x80, 0x80, 0x80]] {
        let (w, _) = conv_wire(site, 0, 1, 2, 3);
        out.push(format!("c10.info conv {}", hex(&w)));
    }
    for _ in 0..(if thorough { 5000 } else { 400 }) {
        let n = rng.usize_below(48);
        let mut v = rng.bytes(n);
        if rng.bool() {
            for b in &mut v {
                *b &= 0x7f;
            }
        }
        if n > 0 && rng.below(3) != 0 {
            let p = rng.usize_below(n);
            v[p] = 0;
        }
        if rng.bool() {
            // well-formed tail after whatever the site is
            v.push(0);
            v.extend(rng.bytes(25));
        }
        out.push(format!("c10.info conv {}", hex(&v)));
    }
    // HybridConversionInfo::new: ASCII / NUL / non-ASCII sites
    let mut sites: Vec<Vec<u8>> = vec![vec![], vec![0], b"a".to_vec(), vec![0x7f], b"a\0b".to_vec(), b"\0ab".to_vec(), b"ab\0".to_vec(), "é".as_bytes().to_vec(), "a\u{80}".as_bytes().to_vec()];
    for n in [1usize, 2, 127, 255] {
        sites.push(ascii_site(n, rng));
        let mut s = ascii_site(n, rng);
        let p = rng.usize_below(n);
        s[p] = 0;
        sites.push(s);
    }
    for _ in 0..(if thorough { 500 } else { 40 }) {
        let n = rng.usize_below(32);
        let mut s: Vec<u8> = (0..n).map(|_| rng.below(128) as u8).collect();
        if n > 0 && rng.bool() {
            let p = rng.usize_below(n);
            s[p] = 0;
        }
        sites.push(s);
    }
    for (j, s) in sites.iter().enumerate() {
        let ts = [0u64, u64::MAX, 1 << 56][j % 3];
        out.push(format!("c10.infonew {} {} {ts} {} {}", j % 256, hex(s), F64_PATTERNS[j % 10], F64_PATTERNS[(j + 5) % 10]));
    }
    out
}

fn show_chunks(chunks: &[Vec<u8>]) -> String {
    if chunks.is_empty() {
        return "-".into();
    }
    chunks.iter().map(|c| if c.is_empty() { "e".to_string() } else { hex(c) }).collect::<Vec<_>>().join(",")
}

fn gen_stream(rng: &mut Rng, thorough: bool) -> Vec<String> {
    let mut out = vec![];
    let ty = "8_3";
    let reg = "0,1,2,3";
    let mut log = Log::default();
    let recs: Vec<Vec<u8>> = vec![
        real_record(ty, &mut log, 0, 0, "", 0, 0, 0, rng),
        real_record(ty, &mut log, 1, 1, "meta.com", 5, 6, 7, rng),
        real_record(ty, &mut log, 0, 2, "", 0, 0, 0, rng),
    ];
    let frame = |r: &[u8]| {
        let mut v = u16::try_from(r.len()).unwrap().to_le_bytes().to_vec();
        v.extend_from_slice(r);
        v
    };
    let mut push = |chunks: &[Vec<u8>]| out.push(format!("c10.stream {ty} {reg} {} {}", log.show(), show_chunks(chunks)));
    let good: Vec<u8> = recs.iter().flat_map(|r| frame(r)).collect();
    push(&[]);
    push(&[vec![]]);
    push(&[good.clone()]);
    // zero-length records: alone, first, middle, last, several
    push(&[vec![0, 0]]);
    push(&[vec![0], vec![0]]);
    push(&[[vec![0, 0], good.clone()].concat()]);
    push(&[[frame(&recs[0]), vec![0, 0], frame(&recs[1])].concat()]);
    push(&[[good.clone(), vec![0, 0]].concat()]);
    push(&[good.clone(), vec![0, 0]]);
    push(&[vec![0, 0, 0, 0, 0, 0]]);
    // one-byte records of every event type
    for b in [0u8, 1, 2, 255] {
        push(&[vec![1, 0, b]]);
        push(&[[good.clone(), vec![1, 0, b]].concat()]);
    }
    // truncated: stream ends inside a length prefix / inside a record
    for cut in [1usize, 2, 3, 50, good.len() - 1, good.len() - 2, frame(&recs[0]).len() + 1] {
        push(&[good[..cut].to_vec()]);
    }
    // length prefix shorter / longer than the record
    for (i, r) in recs.iter().enumerate() {
        for d in [-2i32, -1, 1, 2] {
            let n = (r.len() as i32 + d) as u16;
            let mut v = n.to_le_bytes().to_vec();
            v.extend_from_slice(r);
            if i == 0 {
                v.extend(frame(&recs[1]));
            }
            push(&[v]);
        }
    }
    // every truncation of the first record, length-delimited
    for n in 0..recs[0].len() {
        push(&[frame(&recs[0][..n])]);
    }
    for n in (0..recs[1].len()).step_by(if thorough { 1 } else { 5 }) {
        push(&[[frame(&recs[0]), frame(&recs[1][..n])].concat()]);
    }
    // chunked delivery
    for _ in 0..(if thorough { 300 } else { 40 }) {
        let mut body = vec![];
        for _ in 0..rng.usize_below(5) {
            match rng.below(6) {
                0 => body.extend(vec![0, 0]),
                1 => {
                    let r: &Vec<u8> = rng.pick(&recs[..]);
                    let n = rng.usize_below(r.len());
                    body.extend(frame(&r[..n]));
                }
                _ => { let r: &Vec<u8> = rng.pick(&recs[..]); body.extend(frame(r)) }
            }
        }
        let mut chunks = vec![];
        let mut i = 0;
        while i < body.len() {
            let m = if rng.bool() { 4 } else { 200 };
            let n = 1 + rng.usize_below(m);
            let j = (i + n).min(body.len());
            chunks.push(body[i..j].to_vec());
            i = j;
        }
        push(&chunks);
    }
    out
}

// ------------------------------------------------------------------ c10_query (the real Query::execute)
//
//   c10.query SZ REG LOG LABELS EXP CHUNKS1 CHUNKS2 CHUNKS3
//        SZ      query_size handed to `Query::execute` (the same on the three helpers)
//        REG/LOG as above; the three helpers share one key registry
//        CHUNKSh the body helper h receives, as the comma list of chunks in which it arrives
//        LABELS  three letters, how the generator BUILT helper h's body (spec side, used by the oracle only
//                and by the harness to decide whom to wait for):
//                  v  exactly SZ honest records of a consistent replicated sharing, nothing else
//                  m  malformed where the helper has to read (within the first SZ records / the framing
//                     before them): the helper must return an error value
//                  l  SZ honest records followed by something else (more records, garbage, a cut header)
//                  s  fewer than SZ honest records, clean end of stream
//        EXP     spec side (oracle only): the non-zero buckets `b:v,…` (`-` = none) of the attribution of the first
//                SZ reports the generator put into the bodies, computed from their plaintexts
//        -> `H1=<o> H2=<o> H3=<o>[ hist=<b:v,…>]` (hist: reconstructed result when all three completed), o = `ok` | `err:<Error variant>[:<io kind>][:<report error>]` | `timeout`
//           | `peer`.  When some helper is labelled m, only the m helpers are awaited (60 s) and the others
//           are reported as `peer` whatever they do: an honest helper whose peer erred out of the query
//           waits for it forever (no helper-to-helper message precedes the input phase), which is the
//           orchestrator's business (query kill), not a defect of the waiting helper. Without an m label all
//           three are awaited.
// The test itself lives in hooks/runner.rs (`Query` is private to query::runner).

pub struct QueryReq {
    pub sz: usize,
    pub reg: Reg,
    pub labels: Vec<u8>,
    pub chunks: [Vec<Vec<u8>>; 3],
    pub seed: u64,
}

pub fn parse_query_req(req: &str) -> QueryReq {
    let t: Vec<&str> = req.split(' ').collect();
    assert_eq!(t[0], "c10.query");
    assert_eq!(t.len(), 9, "harness: c10.query takes 8 arguments");
    let labels = t[4].as_bytes().to_vec();
    assert!(labels.len() == 3 && labels.iter().all(|l| b"vmls".contains(l)), "harness: bad labels");
    QueryReq {
        sz: t[1].parse().unwrap(),
        reg: Reg::parse(t[2]),
        labels,
        chunks: [parse_chunks(t[6]), parse_chunks(t[7]), parse_chunks(t[8])],
        // PRSS seed of the TestWorld: a function of the request only
        seed: req.bytes().fold(0xcbf2_9ce4_8422_2325u64, |h, b| (h ^ u64::from(b)).wrapping_mul(0x0000_0100_0000_01B3)),
    }
}

/// `err:<variant>` with the io kind and the report parser's / decryptor's error where there is one.
pub fn query_err_class(e: &Error) -> String {
    let tag = |r: &InvalidHybridReportError| err_str(r).trim_start_matches("err ").replace(' ', "_");
    match e {
        Error::Io(io) => {
            let inner = io.get_ref().and_then(|b| b.downcast_ref::<InvalidHybridReportError>());
            match inner {
                Some(r) => format!("err:Io:{:?}:{}", io.kind(), tag(r)),
                None => format!("err:Io:{:?}", io.kind()),
            }
        }
        Error::InvalidHybridReport(r) => format!("err:InvalidHybridReport:{}", tag(r)),
        e => {
            let d = format!("{e:?}");
            let k: String = d.chars().take_while(|c| c.is_alphanumeric() || *c == '_').collect();
            format!("err:{k}")
        }
    }
}

fn frame(r: &[u8]) -> Vec<u8> {
    let mut v = u16::try_from(r.len()).unwrap().to_le_bytes().to_vec();
    v.extend_from_slice(r);
    v
}

fn frames(rs: &[Vec<u8>]) -> Vec<u8> {
    rs.iter().flat_map(|r| frame(r)).collect()
}

/// Encrypted records of one consistent replicated sharing: `recs[h][i]` is helper h's copy of report i.
struct QBase {
    recs: [Vec<Vec<u8>>; 3],
    log: Log,
    spec: Vec<(u8, u64, u8)>,
}

/// Attribution of plaintext reports, from the statement of the protocol: a match key that occurs in exactly
/// two reports adds their value sum (mod 2^3) to the bucket of their breakdown-key sum (mod 2^8).
fn attribution(spec: &[(u8, u64, u8)]) -> String {
    let mut hist = std::collections::BTreeMap::<u8, u32>::new();
    let mut keys: Vec<u64> = spec.iter().map(|s| s.1).collect();
    keys.sort_unstable();
    keys.dedup();
    for k in keys {
        let rows: Vec<&(u8, u64, u8)> = spec.iter().filter(|s| s.1 == k).collect();
        if rows.len() == 2 {
            let bk = rows.iter().map(|r| if r.0 == 0 { r.2 } else { 0 }).fold(0u8, u8::wrapping_add);
            let v = rows.iter().map(|r| if r.0 == 0 { 0 } else { r.2 }).sum::<u8>() % 8;
            *hist.entry(bk).or_default() += u32::from(v);
        }
    }
    let nz: Vec<String> = hist.iter().filter(|(_, v)| **v != 0).map(|(b, v)| format!("{b}:{v}")).collect();
    if nz.is_empty() { "-".into() } else { nz.join(",") }
}

/// `(event type, match key, breakdown key / trigger value)` per report, shared x = x0 ^ x1 ^ x2 with
/// helper h holding (x_h, x_{h+1}); encrypted by the real `HybridReport::encrypt` under key id 0.
fn q_base(spec: &[(u8, u64, u8)], rng: &mut Rng) -> QBase {
    let mut recs: [Vec<Vec<u8>>; 3] = Default::default();
    let mut log = Log::default();
    for (i, &(evt, mk, val)) in spec.iter().enumerate() {
        let m0 = rng.next_u64();
        let m1 = rng.next_u64();
        let m = [m0, m1, mk ^ m0 ^ m1];
        let bits = btt_bits("8_3", evt);
        let mask = ((1u16 << bits) - 1) as u8;
        let b0 = (rng.below(256) as u8) & mask;
        let b1 = (rng.below(256) as u8) & mask;
        let b = [b0, b1, (val & mask) ^ b0 ^ b1];
        for h in 0..3 {
            let mut mkb = m[h].to_le_bytes().to_vec();
            mkb.extend_from_slice(&m[(h + 1) % 3].to_le_bytes());
            let btt = [b[h], b[(h + 1) % 3]];
            let (bytes, entries) = t8_3::encrypt_real(evt, 0, &mkb, &btt, "meta.com", 100 + i as u64, 0, 0, rng);
            log.0.extend(entries);
            recs[h].push(bytes);
        }
    }
    QBase { recs, log, spec: spec.to_vec() }
}

/// Split `body` into chunks of 1..=max bytes.
fn rechunk(body: &[u8], max: usize, rng: &mut Rng) -> Vec<Vec<u8>> {
    let mut chunks = vec![];
    let mut i = 0;
    while i < body.len() {
        let j = (i + 1 + rng.usize_below(max)).min(body.len());
        chunks.push(body[i..j].to_vec());
        i = j;
    }
    chunks
}

type Chunks = Vec<Vec<u8>>;

struct QGen<'a> {
    out: Vec<String>,
    base: &'a QBase,
    reg: &'static str,
    /// number of honest records at the front of the bodies built next (None = all of the base)
    present: Option<usize>,
}

impl QGen<'_> {
    /// `targets`: which helpers get `f(records of that helper)` (label `label`); the others get their
    /// honest records in one chunk (label v).
    fn emit(&mut self, sz: usize, targets: &[usize], label: char, f: &mut dyn FnMut(&[Vec<u8>]) -> Chunks) {
        let mut labels = String::new();
        let mut bodies = vec![];
        for h in 0..3 {
            if targets.contains(&h) {
                labels.push(label);
                bodies.push(show_chunks(&f(&self.base.recs[h])));
            } else {
                labels.push('v');
                bodies.push(show_chunks(&[frames(&self.base.recs[h])]));
            }
        }
        // expectation for queries that complete (labels v / l / s on all helpers): the first sz reports present
        let present = self.present.unwrap_or(self.base.spec.len()).min(sz);
        let exp = attribution(&self.base.spec[..present]);
        self.out.push(format!("c10.query {sz} {} {} {labels} {exp} {}", self.reg, self.base.log.show(), bodies.join(" ")));
    }

    /// the malformation on all three helpers, and on one helper only (rotating)
    fn both(&mut self, sz: usize, rot: &mut usize, f: &mut dyn FnMut(&[Vec<u8>]) -> Chunks) {
        self.emit(sz, &[0, 1, 2], 'm', f);
        self.emit(sz, &[*rot % 3], 'm', f);
        *rot += 1;
    }
}

/// index of the key-identifier byte of a record built by `q_base` (impression info = 1 byte,
/// conversion info = site ‖ NUL ‖ 25 bytes)
fn key_off(rec: &[u8]) -> usize {
    let info_len = if rec[0] == 0 { 1 } else { "meta.com".len() + 26 };
    rec.len() - info_len - 1
}

/// The four reports on which a whole protocol run is cheap enough: one attributed pair, two unmatched.
fn q_base4(rng: &mut Rng) -> QBase {
    q_base(&[(0, 12, 5), (1, 13, 1), (0, 11, 3), (1, 11, 2)], rng)
}

/// Bodies LONGER than query_size on all three helpers (every `ok` is a complete protocol run, ~40 s).
pub fn gen_query_long(rng: &mut Rng, thorough: bool) -> Vec<String> {
    let b4 = q_base4(rng);
    let mut g = QGen { out: vec![], base: &b4, reg: "0,1,2,3", present: None };
    let all = [0usize, 1, 2];
    // the first query_size records are honest; behind them, in later chunks: one more honest record and a
    // cut length header (never polled for: `take(query_size)`)
    g.emit(3, &all, 'l', &mut |r| vec![frames(&r[..3]), frame(&r[3]), vec![7]]);
    // behind the first query_size records but in the SAME chunk: try_from rejects the zero-length record
    // in the poll that parsed the honest ones and the whole poll is an error
    g.emit(4, &all, 'l', &mut |r| vec![[frames(r), vec![0, 0]].concat()]);
    g.emit(2, &all, 'l', &mut |r| vec![[frames(&r[..2]), vec![1, 0, 9]].concat()]);
    if thorough {
        // longer than query_size in the same chunk: the extra honest record is parsed and dropped;
        // a cut header / cut record in the same chunk is never looked at
        g.emit(3, &all, 'l', &mut |r| vec![frames(r)]);
        g.emit(4, &all, 'l', &mut |r| vec![frames(r), vec![0, 0]]);
        g.emit(4, &all, 'l', &mut |r| vec![[frames(r), vec![9]].concat()]);
        g.emit(3, &all, 'l', &mut |r| { let f = frames(r); vec![f[..f.len() - 5].to_vec()] });
    }
    g.out
}

/// Bodies SHORTER than query_size (clean end of stream) on all three helpers.
pub fn gen_query_short(rng: &mut Rng, thorough: bool) -> Vec<String> {
    let b4 = q_base4(rng);
    let mut g = QGen { out: vec![], base: &b4, reg: "0,1,2,3", present: None };
    let all = [0usize, 1, 2];
    // no records at all: no chunk, one empty chunk
    g.present = Some(0);
    g.emit(4, &all, 's', &mut |_| vec![]);
    g.emit(1, &all, 's', &mut |_| vec![vec![]]);
    g.present = Some(3);
    g.emit(4, &all, 's', &mut |r| vec![frames(&r[..3])]);
    if thorough {
        g.present = Some(4);
        g.emit(1000, &all, 's', &mut |r| vec![frames(r)]);
        g.present = Some(1);
        g.emit(4, &all, 's', &mut |r| vec![frames(&r[..1])]);
        g.present = Some(2);
        g.emit(4, &all, 's', &mut |r| rechunk(&frames(&r[..2]), 9, rng));
    }
    g.out
}

pub fn gen_query(rng: &mut Rng, thorough: bool) -> Vec<String> {
    let full = "0,1,2,3";
    let mut out = vec![];
    // ---- valid bodies: the whole protocol runs (one attributed pair, two unmatched reports)
    {
        let b4 = q_base4(rng);
        let mut g = QGen { out: vec![], base: &b4, reg: full, present: None };
        let all = [0usize, 1, 2];
        g.emit(4, &all, 'v', &mut |r| vec![frames(r)]);
        if thorough {
            // arriving in tiny / random chunks (headers and records split)
            g.emit(4, &all, 'v', &mut |r| rechunk(&frames(r), 5, rng));
            g.emit(4, &all, 'v', &mut |r| rechunk(&frames(r), 300, rng));
        }
        out.append(&mut g.out);
    }
    // ---- malformed bodies: errors before any helper-to-helper message, cheap
    let b2 = q_base(&[(0, 21, 4), (1, 21, 6)], rng);
    let mut g = QGen { out: vec![], base: &b2, reg: full, present: None };
    let mut rot = 0usize;
    let all = [0usize, 1, 2];
    // zero-length record: alone, first, middle, last, twice, behind an empty chunk
    g.both(2, &mut rot, &mut |r| vec![vec![], vec![], [frame(&r[0]), vec![0, 0]].concat()]);
    g.both(2, &mut rot, &mut |_| vec![vec![0, 0]]);
    g.both(2, &mut rot, &mut |_| vec![vec![0], vec![0]]);
    g.both(3, &mut rot, &mut |r| vec![[vec![0, 0], frames(r)].concat()]);
    g.both(3, &mut rot, &mut |r| vec![[frame(&r[0]), vec![0, 0], frame(&r[1])].concat()]);
    g.both(3, &mut rot, &mut |r| vec![[frames(r), vec![0, 0]].concat()]);
    g.both(3, &mut rot, &mut |r| vec![frames(r), vec![0, 0]]);
    g.both(2, &mut rot, &mut |_| vec![vec![0, 0, 0, 0]]);
    // truncated record: the stream ends inside the second record / inside its length header / right after it
    for i in 0..2usize {
        let len = frame(&b2.recs[0][i]).len();
        for cut in [1usize, 2, 3, len / 2, len - 1] {
            g.both(2, &mut rot, &mut |r| {
                let mut b = if i == 1 { frame(&r[0]) } else { vec![] };
                b.extend_from_slice(&frame(&r[i])[..cut]);
                vec![b]
            });
        }
    }
    // truncated record with a matching length prefix (every prefix of both kinds in the all-helpers form,
    // a selection on one helper), followed by an honest record
    for i in 0..2usize {
        let len = b2.recs[0][i].len();
        let step = if thorough { 1 } else { 7 };
        let mut cuts: Vec<usize> = (1..len).step_by(step).collect();
        cuts.extend([2, len - 27, len - 26, len - 3, len - 2, len - 1].into_iter().filter(|c| *c > 0 && *c < len));
        for n in cuts {
            g.emit(2, &all, 'm', &mut |r| vec![[frame(&r[i][..n]), frame(&r[1 - i])].concat()]);
        }
        for n in [1usize, 48, len - 1] {
            g.emit(2, &[rot % 3], 'm', &mut |r| vec![[frame(&r[1 - i]), frame(&r[i][..n])].concat()]);
            rot += 1;
        }
    }
    // trailing garbage inside a record (length prefix covers it)
    for i in 0..2usize {
        for extra in [1usize, 2, 26, 300] {
            let junk = rng.bytes(extra);
            g.both(2, &mut rot, &mut |r| vec![[frame(&[r[i].clone(), junk.clone()].concat()), frame(&r[1 - i])].concat()]);
            g.both(2, &mut rot, &mut |r| vec![[frame(&r[1 - i]), frame(&[r[i].clone(), vec![0; extra]].concat())].concat()]);
        }
    }
    // length prefix shorter / longer than the record
    for i in 0..2usize {
        for d in [-2i32, -1, 1, 2] {
            g.both(2, &mut rot, &mut |r| {
                let n = (r[i].len() as i32 + d) as u16;
                let mut v = n.to_le_bytes().to_vec();
                v.extend_from_slice(&r[i]);
                v.extend(frame(&r[1 - i]));
                vec![v]
            });
        }
    }
    // wrong key id byte; registries that lack / permute the key
    for i in 0..2usize {
        for kid in [1u8, 2, 3, 4, 127, 128, 255] {
            g.both(2, &mut rot, &mut |r| {
                let mut x = r[i].clone();
                let k = key_off(&x);
                x[k] = kid;
                vec![[frame(&r[1 - i]), frame(&x)].concat()]
            });
        }
        // key id inside the info (part of the HPKE info string)
        g.both(2, &mut rot, &mut |r| {
            let mut x = r[i].clone();
            let k = if x[0] == 0 { x.len() - 1 } else { x.len() - 25 };
            x[k] = 1;
            vec![[frame(&x), frame(&r[1 - i])].concat()]
        });
    }
    for reg in ["-", "1", "1,0", "3,2,1,0"] {
        let mut g2 = QGen { out: vec![], base: &b2, reg, present: None };
        g2.emit(2, &all, 'm', &mut |r| vec![frames(r)]);
        g.out.append(&mut g2.out);
    }
    // every event-type byte, on the impression (all helpers) and the conversion record (one helper / a sample)
    for b in 1..=255u8 {
        g.emit(2, &all, 'm', &mut |r| {
            let mut x = r[0].clone();
            x[0] = b;
            vec![[frame(&x), frame(&r[1])].concat()]
        });
    }
    for b in (0..=255u8).filter(|b| *b != 1 && (thorough || [0, 2, 3, 127, 128, 254, 255].contains(b))) {
        g.emit(2, &[usize::from(b) % 3], 'm', &mut |r| {
            let mut x = r[1].clone();
            x[0] = b;
            vec![[frame(&r[0]), frame(&x)].concat()]
        });
    }
    // a valid stream followed by a cut length header / a cut record that the helper has to read
    g.both(3, &mut rot, &mut |r| vec![[frames(r), vec![9]].concat()]);
    g.both(3, &mut rot, &mut |r| vec![frames(r), vec![9]]);
    g.both(3, &mut rot, &mut |r| vec![[frames(r), vec![9, 0]].concat()]);
    g.both(3, &mut rot, &mut |r| vec![[frames(r), vec![9, 0, 1, 2, 3]].concat()]);
    g.both(1000, &mut rot, &mut |r| vec![[frames(r), vec![0xff]].concat()]);
    // single-bit flips in each field of both records
    for i in 0..2usize {
        let len = b2.recs[0][i].len();
        let k = key_off(&b2.recs[0][i]);
        for pos in [1usize, 32, 33, 48, 49, 64, 65, 97, 98, k - 1, k + 1, len - 1] {
            let bit = rng.usize_below(8);
            g.both(2, &mut rot, &mut |r| {
                let x = flip(r[i].clone(), 8 * pos + bit);
                vec![[frame(&r[1 - i]), frame(&x)].concat()]
            });
        }
    }
    // the kind of error depends on how the body is chunked: record 0 fails in decrypt (key id), record 1 in
    // try_from (event type) — same poll: the Io error overtakes; separate polls: the decryption error is first
    for split in [false, true] {
        g.both(2, &mut rot, &mut |r| {
            let mut x = r[0].clone();
            let k = key_off(&x);
            x[k] = 9;
            let mut y = r[1].clone();
            y[0] = 77;
            if split { vec![frame(&x), frame(&y)] } else { vec![[frame(&x), frame(&y)].concat()] }
        });
    }
    // malformed records delivered in small chunks
    for _ in 0..(if thorough { 60 } else { 12 }) {
        let which = rng.below(4);
        let max = *rng.pick(&[1usize, 3, 64, 400]);
        let seed = rng.next_u64();
        g.both(2, &mut rot, &mut |r| {
            let mut rr = Rng(seed);
            let body = match which {
                0 => [frame(&r[0]), vec![0, 0], frame(&r[1])].concat(),
                1 => { let f = frames(r); f[..f.len() - 1 - rr.usize_below(40)].to_vec() }
                2 => { let mut x = r[1].clone(); let k = key_off(&x); x[k] = 5; [frame(&r[0]), frame(&x)].concat() }
                _ => { let n = rr.usize_below(r[0].len()); [frame(&r[0][..n]), frame(&r[1])].concat() }
            };
            rechunk(&body, max, &mut rr)
        });
    }
    // garbage bodies
    for _ in 0..(if thorough { 400 } else { 40 }) {
        let n = match rng.below(3) { 0 => rng.usize_below(6), 1 => 100 + rng.usize_below(60), _ => rng.usize_below(400) };
        let mut junk = rng.bytes(n.max(1));
        if rng.bool() && junk.len() >= 3 {
            // plausible length prefix and event type
            let l = u16::try_from(junk.len() - 2).unwrap().to_le_bytes();
            junk[0] = l[0];
            junk[1] = l[1];
            junk[2] = rng.below(2) as u8;
        }
        let seed = rng.next_u64();
        g.both(2, &mut rot, &mut |_| {
            // independent garbage per helper
            let mut rr = Rng(seed);
            let mut j = junk.clone();
            let p = rr.usize_below(j.len());
            j[p] ^= 1;
            vec![j]
        });
    }
    out.append(&mut g.out);
    out
}

#[test]
fn verif_c10_parse() {
    run_suite("c10_parse", gen_parse, exec);
}

#[test]
fn verif_c10_info() {
    run_suite("c10_info", gen_info, exec);
}

#[test]
fn verif_c10_flip() {
    run_suite("c10_flip", gen_flip, exec);
}

#[test]
fn verif_c10_roundtrip() {
    run_suite("c10_roundtrip", gen_roundtrip, exec);
}

#[test]
fn verif_c10_stream() {
    run_suite("c10_stream", gen_stream, exec);
}
