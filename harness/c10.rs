// Correspondence suites for property C10. Each suite is a #[test] fn named verif_c10_<suite>.
