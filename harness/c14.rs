// Correspondence suites for property C14. Each suite is a #[test] fn named verif_c14_<suite>.
