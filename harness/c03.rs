// Correspondence suites for property C03 (DZKP multiplication proofs).
//
//   c03_table     real TABLE_U / TABLE_V rows, all 64 products, the three constants           (exhaustive)
//   c03_indices   real table_indices_prover / _from_right_prover / _from_left_prover on blocks
//   c03_hash      real hash_to_field (SHA-256 output passed to the model)
//   c03_validate  real DZKPValidator::validate / validate_record under TestWorld malicious contexts:
//                 honest batches, and one helper deviating in exactly one recorded / transmitted bit
//   c03_order     real MaliciousDZKPValidator in validate_record mode, real honest multiplications whose
//                 intermediates are pushed in a scripted order (per batch, per gate, per helper), then validate_record
// (c03_lagrange / c03_proof live in hooks/ipa_prf.rs: they need the private malicious_security module;
//  c03_store / c03_vstore live in hooks/dzkp_validator.rs: they dump the private block vectors.)
use std::iter::zip;

use bitvec::prelude::{BitVec, Lsb0};
use futures::{StreamExt, TryStreamExt, stream};
use generic_array::GenericArray;
use super::proto::*;
use crate::{
    error::Error,
    ff::{Field, Fp61BitPrime, PrimeField, Serializable, U128Conversions, boolean::Boolean},
    helpers::{
        Direction,
        hashing::{compute_hash, hash_to_field},
    },
    protocol::{
        RecordId,
        basics::SecureMul,
        context::{
            Context, DZKPContext, DZKPUpgradedMaliciousContext, TEST_DZKP_STEPS, UpgradableContext,
            dzkp_field::{DZKPBaseField, DZKPCompatibleField, TABLE_U, TABLE_V},
            dzkp_validator::{DZKPValidator, MultiplicationInputsBlock, Segment, SegmentEntry},
        },
        prss::SharedRandomness,
    },
    secret_sharing::{
        FieldSimd, SharedValue, SharedValueArray, Vectorizable,
        replicated::semi_honest::AdditiveShare as Replicated,
    },
    seq_join::{SeqJoin, seq_join},
    sharding::NotSharded,
    test_fixture::{TestWorld, TestWorldConfig},
};

// ------------------------------------------------------------------------------------------- table

fn exec_table(req: &str) -> String {
    let t: Vec<&str> = req.split(' ').collect();
    match t[0] {
        "c03.consts" => format!(
            "{} {} {}",
            Fp61BitPrime::INVERSE_OF_TWO.as_u128(),
            Fp61BitPrime::MINUS_ONE_HALF.as_u128(),
            Fp61BitPrime::MINUS_TWO.as_u128()
        ),
        "c03.table" => {
            let tb = if t[1] == "U" { &TABLE_U } else { &TABLE_V };
            (0..8usize)
                .map(|i| nat_list(&tb[i].iter().map(|x| x.as_u128()).collect::<Vec<_>>()))
                .collect::<Vec<_>>()
                .join(";")
        }
        "c03.tableprod" => {
            let i: usize = t[1].parse().unwrap();
            let j: usize = t[2].parse().unwrap();
            let mut acc = Fp61BitPrime::ZERO;
            for k in 0..4 {
                acc += TABLE_U[i][k] * TABLE_V[j][k];
            }
            acc.as_u128().to_string()
        }
        _ => panic!("harness: unknown request {req}"),
    }
}

#[test]
fn verif_c03_table() {
    run_suite(
        "c03_table",
        |_rng, _thorough| {
            let mut v = vec!["c03.consts".to_string(), "c03.table U".into(), "c03.table V".into()];
            for i in 0..8 {
                for j in 0..8 {
                    v.push(format!("c03.tableprod {i} {j}"));
                }
            }
            v
        },
        exec_table,
    );
}

// ----------------------------------------------------------------------------------------- indices

fn block_from(args: &[&str]) -> MultiplicationInputsBlock {
    let a = |s: &str| -> [u8; 32] { unhex(s).try_into().expect("32 bytes") };
    MultiplicationInputsBlock {
        x_left: a(args[0]).into(),
        x_right: a(args[1]).into(),
        y_left: a(args[2]).into(),
        y_right: a(args[3]).into(),
        prss_left: a(args[4]).into(),
        prss_right: a(args[5]).into(),
        z_right: a(args[6]).into(),
    }
}

fn digits(xs: impl Iterator<Item = u8>) -> String {
    xs.map(|d| char::from(b'0' + d)).collect()
}

fn exec_indices(req: &str) -> String {
    let t: Vec<&str> = req.split(' ').collect();
    let b = block_from(&t[2..]);
    match t[1] {
        "prover" => {
            let l = b.table_indices_prover();
            format!("{} {}", digits(l.iter().map(|p| p.0)), digits(l.iter().map(|p| p.1)))
        }
        "right" => digits(b.table_indices_from_right_prover().into_iter()),
        "left" => digits(b.table_indices_from_left_prover().into_iter()),
        w => panic!("harness: unknown indices fn {w}"),
    }
}

#[test]
fn verif_c03_indices() {
    run_suite(
        "c03_indices",
        |rng, thorough| {
            let mut blocks: Vec<[[u8; 32]; 7]> = vec![[[0u8; 32]; 7], [[0xffu8; 32]; 7]];
            // one field all ones, others zero; byte patterns 0x55 / 0xaa / 0x33 / 0xcc / 0x0f / 0xf0
            for f in 0..7 {
                let mut b = [[0u8; 32]; 7];
                b[f] = [0xff; 32];
                blocks.push(b);
            }
            for pat in [0x55u8, 0xaa, 0x33, 0xcc, 0x0f, 0xf0, 0x01, 0x80] {
                for f in 0..7 {
                    let mut b = [[0u8; 32]; 7];
                    b[f] = [pat; 32];
                    b[(f + 3) % 7] = [!pat; 32];
                    blocks.push(b);
                }
            }
            // one-hot: a single set bit in a single field, every position in thorough, edges + random otherwise
            let positions: Vec<usize> = if thorough {
                (0..256).collect()
            } else {
                let mut p = vec![0, 1, 2, 3, 4, 7, 8, 63, 64, 124, 125, 126, 127, 128, 129, 130, 131, 191, 192, 252, 253, 254, 255];
                for _ in 0..12 {
                    p.push(rng.usize_below(256));
                }
                p
            };
            for &pos in &positions {
                for f in 0..7 {
                    let mut b = [[0u8; 32]; 7];
                    b[f][pos / 8] = 1 << (pos % 8);
                    blocks.push(b);
                }
                // all fields set at this position (index 7 / consistent e) and all-but-position
                let mut b = [[0u8; 32]; 7];
                for f in 0..7 {
                    b[f][pos / 8] = 1 << (pos % 8);
                }
                blocks.push(b);
            }
            for _ in 0..(if thorough { 600 } else { 60 }) {
                let mut b = [[0u8; 32]; 7];
                for f in 0..7 {
                    b[f].copy_from_slice(&rng.bytes(32));
                }
                blocks.push(b);
            }
            let mut out = vec![];
            for b in blocks {
                let args = b.iter().map(|x| hex(x)).collect::<Vec<_>>().join(" ");
                for w in ["prover", "right", "left"] {
                    out.push(format!("c03.indices {w} {args}"));
                }
            }
            out
        },
        exec_indices,
    );
}

// -------------------------------------------------------------------------------------------- hash

fn f61(v: u128) -> Fp61BitPrime {
    Fp61BitPrime::truncate_from(v)
}

fn exec_hash(req: &str) -> String {
    let t: Vec<&str> = req.split(' ').collect();
    let l: Vec<Fp61BitPrime> = parse_nat_list::<u128>(t[1]).into_iter().map(f61).collect();
    let r: Vec<Fp61BitPrime> = parse_nat_list::<u128>(t[2]).into_iter().map(f61).collect();
    let (hl, hr) = (compute_hash(&l), compute_hash(&r));
    let combined = compute_hash([&hl, &hr]);
    let mut buf = GenericArray::default();
    combined.serialize(&mut buf);
    if hex(&buf) != t[3] {
        return "hash-mismatch".into();
    }
    let ex: u128 = t[4].parse().unwrap();
    hash_to_field::<Fp61BitPrime>(&hl, &hr, ex).as_u128().to_string()
}

#[test]
fn verif_c03_hash() {
    run_suite(
        "c03_hash",
        |rng, thorough| {
            let p = Fp61BitPrime::PRIME as u128;
            let mut out = vec![];
            let n = if thorough { 4000 } else { 300 };
            for k in 0..n {
                let len = 1 + rng.usize_below(7);
                let l: Vec<u128> = (0..len).map(|_| rng.next_u128() % p).collect();
                let r: Vec<u128> = (0..len).map(|_| rng.next_u128() % p).collect();
                let hl = compute_hash(&l.iter().map(|&x| f61(x)).collect::<Vec<Fp61BitPrime>>());
                let hr = compute_hash(&r.iter().map(|&x| f61(x)).collect::<Vec<Fp61BitPrime>>());
                let combined = compute_hash([&hl, &hr]);
                let mut buf = GenericArray::default();
                combined.serialize(&mut buf);
                let ex: u128 = match k % 8 {
                    0 => 0,
                    1 => 1,
                    2 => 32,
                    3 => (p - 1) / 2,
                    4 => (p + 1) / 2, // 2*ex >= p: the assertion fires
                    _ => 4,
                };
                out.push(format!("c03.hash2field {} {} {} {ex}", nat_list(&l), nat_list(&r), hex(&buf)));
            }
            out
        },
        exec_hash,
    );
}

// ---------------------------------------------------------------------------------------- validate

#[derive(Clone, Copy, Debug)]
struct Dev {
    helper: usize,
    field: usize, // 0..7 = xl xr yl yr pl pr zr ; 7 = transmitted z
    record: usize,
    bit: usize,
}

const FIELD_NAMES: [&str; 8] = ["xl", "xr", "yl", "yr", "pl", "pr", "zr", "z"];

fn parse_dev(s: &str) -> Option<Dev> {
    if s == "-" {
        return None;
    }
    let p: Vec<&str> = s.split(':').collect();
    Some(Dev {
        helper: p[0].parse().unwrap(),
        field: FIELD_NAMES.iter().position(|n| *n == p[1]).expect("field"),
        record: p[2].parse().unwrap(),
        bit: p[3].parse().unwrap(),
    })
}

/// What a deviating helper runs instead of `zkp_multiply`: the same protocol on the real context
/// (real PRSS, real channels, real `push`), except that exactly one bit of one recorded intermediate,
/// or of the `z` it transmits, is flipped.
async fn deviating_multiply<const N: usize>(
    ctx: DZKPUpgradedMaliciousContext<'_, NotSharded>,
    record_id: RecordId,
    a: &Replicated<Boolean, N>,
    b: &Replicated<Boolean, N>,
    dev: Dev,
) -> Result<Replicated<Boolean, N>, Error>
where
    Boolean: FieldSimd<N> + DZKPCompatibleField<N>,
{
    let role = ctx.role();
    let (prss_left, prss_right) = ctx
        .prss()
        .generate::<(<Boolean as Vectorizable<N>>::Array, _), _>(record_id);
    let z_left = a.left_arr().clone() * b.left_arr()
        + a.left_arr().clone() * b.right_arr()
        + a.right_arr().clone() * b.left_arr()
        + &prss_left
        - &prss_right;
    let mut z_send = z_left.clone();
    if dev.field == 7 {
        // flip one bit of the transmitted share
        let mut bits: Vec<Boolean> = z_send.clone().into_iter().collect();
        bits[dev.bit] = Boolean::from(!bool::from(bits[dev.bit]));
        z_send = <<Boolean as Vectorizable<N>>::Array>::try_from(bits).ok().expect("rebuild flipped z");
    }
    ctx.send_channel::<<Boolean as Vectorizable<N>>::Array>(role.peer(Direction::Left))
        .send(record_id, &z_send)
        .await?;
    let z_right: <Boolean as Vectorizable<N>>::Array = ctx
        .recv_channel(role.peer(Direction::Right))
        .receive(record_id)
        .await?;
    let z = Replicated::<Boolean, N>::new_arr(z_left, z_right);

    let mut bvs: Vec<BitVec<u8, Lsb0>> = [
        Boolean::as_segment_entry(a.left_arr()),
        Boolean::as_segment_entry(a.right_arr()),
        Boolean::as_segment_entry(b.left_arr()),
        Boolean::as_segment_entry(b.right_arr()),
        Boolean::as_segment_entry(&prss_left),
        Boolean::as_segment_entry(&prss_right),
        Boolean::as_segment_entry(z.right_arr()),
    ]
    .into_iter()
    .map(|e| e.as_bitslice().to_bitvec())
    .collect();
    if dev.field < 7 {
        let cur = bvs[dev.field][dev.bit];
        bvs[dev.field].set(dev.bit, !cur);
    }
    let segment = Segment::from_entries(
        SegmentEntry::from_bitslice(&bvs[0]),
        SegmentEntry::from_bitslice(&bvs[1]),
        SegmentEntry::from_bitslice(&bvs[2]),
        SegmentEntry::from_bitslice(&bvs[3]),
        SegmentEntry::from_bitslice(&bvs[4]),
        SegmentEntry::from_bitslice(&bvs[5]),
        SegmentEntry::from_bitslice(&bvs[6]),
    );
    ctx.push(record_id, segment);
    Ok(z)
}

fn verdict(r: &Result<(), Error>) -> String {
    match r {
        Ok(()) => "ok".into(),
        Err(Error::DZKPValidationFailed | Error::ParallelDZKPValidationFailed) => "fail".into(),
        Err(e) => format!("err:{}", canon(&format!("{e:?}")).replace([' ', ','], "_")),
    }
}

async fn run_validate<const N: usize>(api: &str, count: usize, mpg: usize, seed: u64, dev: Option<Dev>) -> String
where
    Boolean: FieldSimd<N> + DZKPCompatibleField<N>,
{
    let mut rng = Rng(seed ^ 0xC03);
    // replicated sharings of random x and y: helper i holds (s_i, s_{i+1})
    let mut xs: [Vec<Replicated<Boolean, N>>; 3] = [vec![], vec![], vec![]];
    let mut ys: [Vec<Replicated<Boolean, N>>; 3] = [vec![], vec![], vec![]];
    for _ in 0..count {
        let sx: [<Boolean as Vectorizable<N>>::Array; 3] =
            std::array::from_fn(|_| SharedValueArray::from_fn(|_| Boolean::from(rng.bool())));
        let sy: [<Boolean as Vectorizable<N>>::Array; 3] =
            std::array::from_fn(|_| SharedValueArray::from_fn(|_| Boolean::from(rng.bool())));
        for i in 0..3 {
            xs[i].push(Replicated::new_arr(sx[i].clone(), sx[(i + 1) % 3].clone()));
            ys[i].push(Replicated::new_arr(sy[i].clone(), sy[(i + 1) % 3].clone()));
        }
    }
    let config = TestWorldConfig::default().with_seed(seed).with_timeout_secs(60);
    let world = TestWorld::<NotSharded>::with_config(&config);
    let single = api.starts_with("single");
    let two_gates = api.ends_with('2');
    let futs = world
        .malicious_contexts()
        .into_iter()
        .zip(zip(xs, ys))
        .enumerate()
        .map(|(h, (ctx, (x, y)))| async move {
            let v = ctx
                .set_total_records(count)
                .dzkp_validator(TEST_DZKP_STEPS, if single { usize::MAX } else { mpg });
            let m_ctx = v.context();
            let work = stream::iter(zip(x, y)).enumerate().map(|(i, (a, b))| {
                let m_ctx = m_ctx.clone();
                async move {
                    // two-gate mode: two independent multiplications per record under two different steps,
                    // so that one proof batch holds intermediates of several gates
                    let ctx_a = if two_gates { m_ctx.narrow("a") } else { m_ctx.clone() };
                    let first = match dev {
                        Some(d) if d.helper == h && d.record == i => {
                            deviating_multiply::<N>(ctx_a, RecordId::from(i), &a, &b, d).await
                        }
                        _ => a.multiply(&b, ctx_a, RecordId::from(i)).await,
                    }?;
                    if two_gates {
                        b.multiply(&a, m_ctx.narrow("b"), RecordId::from(i)).await
                    } else {
                        Ok(first)
                    }
                }
            });
            if single {
                let r: Result<Vec<_>, Error> = seq_join(m_ctx.active_work(), work).try_collect().await;
                match r {
                    Ok(_) => verdict(&v.validate().await),
                    Err(e) => verdict(&Err(e)),
                }
            } else {
                let r: Result<Vec<_>, Error> = v.validated_seq_join(work).try_collect().await;
                verdict(&r.map(|_| ()))
            }
        })
        .collect::<Vec<_>>();
    futures::future::join_all(futs).await.join(",")
}

pub fn exec_validate(req: &str) -> String {
    let t: Vec<&str> = req.split(' ').collect();
    let (api, ty) = (t[1].to_string(), t[2]);
    let count: usize = t[3].parse().unwrap();
    let mpg: usize = t[4].parse().unwrap();
    let seed: u64 = t[5].parse().unwrap();
    let dev = parse_dev(t[6]);
    macro_rules! go {
        ($n:literal) => {
            block_on_timeout(120, run_validate::<$n>(&api, count, mpg, seed, dev))
        };
    }
    let r = match ty {
        "b1" => go!(1),
        "ba3" => go!(3),
        "ba5" => go!(5),
        "ba8" => go!(8),
        "ba16" => go!(16),
        "ba20" => go!(20),
        "ba32" => go!(32),
        "ba64" => go!(64),
        "ba256" => go!(256),
        _ => panic!("harness: unknown type {ty}"),
    };
    match r {
        Ok(s) => s,
        Err(e) => e,
    }
}

fn width(ty: &str) -> usize {
    ty.trim_start_matches("ba").trim_start_matches('b').parse().unwrap()
}

#[test]
fn verif_c03_validate() {
    run_suite(
        "c03_validate",
        |rng, thorough| {
            let mut out = vec![];
            let types = ["b1", "ba3", "ba5", "ba8", "ba16", "ba20", "ba32", "ba64", "ba256"];
            // honest, single-shot validation: sizes 1 .. past several recursion boundaries.
            // (padded) multiplications per gate = ceil(count * next_pow2(width) / 256) * 256;
            // 256 = 4^4, 1024 = 4^5, 4096 = 4^6 are exact powers of the recursion factor.
            for ty in types {
                let w = width(ty).next_power_of_two();
                let per_block = (256 / w).max(1);
                let mut counts = vec![1usize, 2, per_block, per_block + 1];
                if w == 256 {
                    counts.extend_from_slice(&[3, 4, 5, 15, 16, 17]);
                } else {
                    counts.extend_from_slice(&[4 * per_block, 4 * per_block + 1]);
                    if thorough {
                        counts.extend_from_slice(&[16 * per_block, 16 * per_block + 1]);
                    }
                }
                counts.sort_unstable();
                counts.dedup();
                for c in counts {
                    if c > 3000 && !thorough {
                        continue;
                    }
                    out.push(format!("c03.validate single {ty} {c} {c} {} -", rng.below(1 << 30)));
                }
            }
            // honest, validate_record API: several batches (records_per_batch a power of two)
            for (ty, count, mpg) in [
                ("b1", 10, 1), ("b1", 9, 2), ("b1", 257, 128), ("ba3", 7, 4), ("ba8", 33, 16), ("ba8", 64, 32),
                ("ba20", 12, 4), ("ba32", 17, 8), ("ba64", 9, 4), ("ba256", 6, 2), ("ba256", 5, 1), ("ba16", 40, 8),
            ] {
                out.push(format!("c03.validate record {ty} {count} {mpg} {} -", rng.below(1 << 30)));
            }
            if thorough {
                for _ in 0..40 {
                    let ty = *rng.pick(&types);
                    let count = 2 + rng.usize_below(200);
                    let mpg = 1usize << rng.usize_below(count.min(128).ilog2() as usize + 1);
                    out.push(format!("c03.validate record {ty} {count} {mpg} {} -", rng.below(1 << 30)));
                }
            }
            // several gates (steps) in one proof batch
            for (api, ty, count, mpg) in [
                ("single2", "b1", 3, 3), ("single2", "ba8", 33, 33), ("single2", "ba256", 2, 2), ("single2", "ba20", 9, 9),
                ("record2", "ba3", 12, 4), ("record2", "ba64", 6, 2), ("record2", "b1", 130, 64),
            ] {
                out.push(format!("c03.validate {api} {ty} {count} {mpg} {} -", rng.below(1 << 30)));
            }
            for h in 0..3 {
                for (k, f) in FIELD_NAMES.iter().enumerate() {
                    if (k + h) % 2 == 0 || thorough {
                        let (ty, count) = [("ba8", 5usize), ("b1", 40), ("ba32", 9)][(k + h) % 3];
                        let rec = rng.usize_below(count);
                        let bit = rng.usize_below(width(ty));
                        out.push(format!("c03.validate single2 {ty} {count} {count} {} {h}:{f}:{rec}:{bit}", rng.below(1 << 30)));
                    }
                }
            }
            // one helper deviates in exactly one bit: every (helper, field) pair, single-shot validation
            for h in 0..3 {
                for f in FIELD_NAMES {
                    let ty = *rng.pick(&types);
                    let w = width(ty);
                    let count = 1 + rng.usize_below(2 * (256 / w.next_power_of_two()).max(1) + 3);
                    let rec = rng.usize_below(count);
                    let bit = rng.usize_below(w);
                    out.push(format!("c03.validate single {ty} {count} {count} {} {h}:{f}:{rec}:{bit}", rng.below(1 << 30)));
                }
            }
            // boundary positions: first/last record, first/last bit, multi-block batches, both APIs
            let reps = if thorough { 12 } else { 2 };
            for k in 0..reps {
                for (ty, count, mpg, api) in [
                    ("b1", 300, 300, "single"), ("ba256", 5, 5, "single"), ("ba8", 40, 8, "record"),
                    ("ba64", 9, 4, "record"), ("ba3", 70, 70, "single"), ("b1", 6, 2, "record"),
                ] {
                    let w = width(ty);
                    let h = rng.usize_below(3);
                    let f = FIELD_NAMES[rng.usize_below(8)];
                    // record API: deviate in the last batch so that the honest helpers have nothing left to wait for
                    let last_batch_start = if api == "record" { (count - 1) / mpg * mpg } else { 0 };
                    let rec = match k % 3 {
                        0 => count - 1,
                        1 => last_batch_start,
                        _ => last_batch_start + rng.usize_below(count - last_batch_start),
                    };
                    let bit = match k % 4 { 0 => 0, 1 => w - 1, _ => rng.usize_below(w) };
                    out.push(format!("c03.validate {api} {ty} {count} {mpg} {} {h}:{f}:{rec}:{bit}", rng.below(1 << 30)));
                }
            }
            if thorough {
                // all 256 bit positions of a full block (ba256), rotating helper and field
                for bit in 0..256usize {
                    let h = bit % 3;
                    let f = FIELD_NAMES[bit % 8];
                    out.push(format!("c03.validate single ba256 2 2 {} {h}:{f}:{}:{bit}", rng.below(1 << 30), bit % 2));
                }
            }
            out
        },
        exec_validate,
    );
}

// ------------------------------------------------------------------------------------------- order
//
//   c03.order <ty> <count> <rpb> <gates> <seed> <script>[/<script>/<script>]
//
// The REAL `MaliciousDZKPValidator` in validate_record mode (`ctx.dzkp_validator(steps, rpb)`), real honest
// multiplications (PRSS, channels) of `count` records under `gates` different steps — but the moment at which a
// multiplication records its intermediates in the proof batch is scripted:
//   <gate letter><record>   that multiplication pushes now   (a3 = gate "a", record 3)
//   v<batch>                validate_record for every record of that batch, concurrently, awaited
// One script for all helpers, or one per helper. Response: per helper one character per record
// (`o` accepted, `f` DZKP validation failed, `e` other error, `-` never validated), helpers joined by `,`.

pub const ORDER_GATES: [&str; 3] = ["a", "b", "c"];

/// `zkp_multiply` minus its last step: the intermediates are returned instead of being pushed.
pub async fn multiply_unpushed<const N: usize>(
    ctx: DZKPUpgradedMaliciousContext<'_, NotSharded>,
    record_id: RecordId,
    a: &Replicated<Boolean, N>,
    b: &Replicated<Boolean, N>,
) -> Result<Vec<BitVec<u8, Lsb0>>, Error>
where
    Boolean: FieldSimd<N> + DZKPCompatibleField<N>,
{
    let role = ctx.role();
    let (prss_left, prss_right) = ctx
        .prss()
        .generate::<(<Boolean as Vectorizable<N>>::Array, _), _>(record_id);
    let z_left = a.left_arr().clone() * b.left_arr()
        + a.left_arr().clone() * b.right_arr()
        + a.right_arr().clone() * b.left_arr()
        + &prss_left
        - &prss_right;
    ctx.send_channel::<<Boolean as Vectorizable<N>>::Array>(role.peer(Direction::Left))
        .send(record_id, &z_left)
        .await?;
    let z_right: <Boolean as Vectorizable<N>>::Array = ctx
        .recv_channel(role.peer(Direction::Right))
        .receive(record_id)
        .await?;
    let z = Replicated::<Boolean, N>::new_arr(z_left, z_right);
    Ok([
        Boolean::as_segment_entry(a.left_arr()),
        Boolean::as_segment_entry(a.right_arr()),
        Boolean::as_segment_entry(b.left_arr()),
        Boolean::as_segment_entry(b.right_arr()),
        Boolean::as_segment_entry(&prss_left),
        Boolean::as_segment_entry(&prss_right),
        Boolean::as_segment_entry(z.right_arr()),
    ]
    .into_iter()
    .map(|e| e.as_bitslice().to_bitvec())
    .collect())
}

#[derive(Clone, Copy, Debug)]
enum OrderTok {
    Push(usize, usize),
    Validate(usize),
}

fn parse_order_script(s: &str) -> Vec<OrderTok> {
    s.split(',')
        .map(|t| {
            let (c, n) = t.split_at(1);
            let n: usize = n.parse().expect("harness: script token");
            match c {
                "v" => OrderTok::Validate(n),
                g => OrderTok::Push(ORDER_GATES.iter().position(|x| *x == g).expect("harness: gate letter"), n),
            }
        })
        .collect()
}

async fn run_order<const N: usize>(count: usize, rpb: usize, ngates: usize, seed: u64, scripts: [Vec<OrderTok>; 3]) -> String
where
    Boolean: FieldSimd<N> + DZKPCompatibleField<N>,
{
    let mut rng = Rng(seed ^ 0xC03D);
    let mut xs: [Vec<Replicated<Boolean, N>>; 3] = [vec![], vec![], vec![]];
    let mut ys: [Vec<Replicated<Boolean, N>>; 3] = [vec![], vec![], vec![]];
    for _ in 0..count {
        let sx: [<Boolean as Vectorizable<N>>::Array; 3] =
            std::array::from_fn(|_| SharedValueArray::from_fn(|_| Boolean::from(rng.bool())));
        let sy: [<Boolean as Vectorizable<N>>::Array; 3] =
            std::array::from_fn(|_| SharedValueArray::from_fn(|_| Boolean::from(rng.bool())));
        for i in 0..3 {
            xs[i].push(Replicated::new_arr(sx[i].clone(), sx[(i + 1) % 3].clone()));
            ys[i].push(Replicated::new_arr(sy[i].clone(), sy[(i + 1) % 3].clone()));
        }
    }
    let config = TestWorldConfig::default().with_seed(seed).with_timeout_secs(60);
    let world = TestWorld::<NotSharded>::with_config(&config);
    let futs = world
        .malicious_contexts()
        .into_iter()
        .zip(zip(xs, ys))
        .zip(scripts)
        .map(|((ctx, (x, y)), script)| async move {
            let v = ctx.set_total_records(count).dzkp_validator(TEST_DZKP_STEPS, rpb);
            let m_ctx = v.context();
            // phase 1: every multiplication runs to completion; nothing is recorded yet
            let work = stream::iter(zip(x, y)).enumerate().map(|(i, (a, b))| {
                let m_ctx = m_ctx.clone();
                async move {
                    let mut per_gate = vec![];
                    for g in 0..ngates {
                        let c = m_ctx.narrow(ORDER_GATES[g]);
                        per_gate.push(if g % 2 == 0 {
                            multiply_unpushed::<N>(c, RecordId::from(i), &a, &b).await?
                        } else {
                            multiply_unpushed::<N>(c, RecordId::from(i), &b, &a).await?
                        });
                    }
                    Ok::<_, Error>(per_gate)
                }
            });
            let done: Vec<Vec<Vec<BitVec<u8, Lsb0>>>> = match seq_join(m_ctx.active_work(), work).try_collect().await {
                Ok(d) => d,
                Err(e) => {
                    // the validator holds nothing; report the error as this helper's outcome
                    return format!("err:{}", canon(&format!("{e:?}")).replace([' ', ','], "_"));
                }
            };
            // phase 2: the scripted reports and validations
            let mut verdicts = vec!['-'; count];
            for tok in script {
                match tok {
                    OrderTok::Push(g, r) => {
                        let bvs = &done[r][g];
                        let e = |i: usize| SegmentEntry::from_bitslice(&bvs[i]);
                        m_ctx
                            .narrow(ORDER_GATES[g])
                            .push(RecordId::from(r), Segment::from_entries(e(0), e(1), e(2), e(3), e(4), e(5), e(6)));
                    }
                    OrderTok::Validate(k) => {
                        let recs: Vec<usize> = (k * rpb..((k + 1) * rpb).min(count)).collect();
                        let rs = futures::future::join_all(recs.iter().map(|&r| m_ctx.validate_record(RecordId::from(r)))).await;
                        for (r, res) in zip(recs, rs) {
                            verdicts[r] = match res {
                                Ok(()) => 'o',
                                Err(Error::DZKPValidationFailed | Error::ParallelDZKPValidationFailed) => 'f',
                                Err(_) => 'e',
                            };
                        }
                    }
                }
            }
            drop(v);
            verdicts.into_iter().collect::<String>()
        })
        .collect::<Vec<_>>();
    futures::future::join_all(futs).await.join(",")
}

pub fn exec_order(req: &str) -> String {
    let t: Vec<&str> = req.split(' ').collect();
    let ty = t[1];
    let count: usize = t[2].parse().unwrap();
    let rpb: usize = t[3].parse().unwrap();
    let ngates: usize = t[4].parse().unwrap();
    let seed: u64 = t[5].parse().unwrap();
    let parts: Vec<&str> = t[6].split('/').collect();
    let scripts: [Vec<OrderTok>; 3] = match parts.len() {
        1 => std::array::from_fn(|_| parse_order_script(parts[0])),
        3 => std::array::from_fn(|i| parse_order_script(parts[i])),
        n => panic!("harness: {n} scripts"),
    };
    macro_rules! go {
        ($n:literal) => {
            block_on_timeout(120, run_order::<$n>(count, rpb, ngates, seed, scripts))
        };
    }
    let r = match ty {
        "b1" => go!(1),
        "ba3" => go!(3),
        "ba8" => go!(8),
        "ba20" => go!(20),
        "ba64" => go!(64),
        "ba256" => go!(256),
        _ => panic!("harness: unknown type {ty}"),
    };
    match r {
        Ok(s) => s,
        Err(e) => e,
    }
}

fn order_tok(g: usize, r: usize) -> String {
    format!("{}{r}", ORDER_GATES[g])
}

/// all pushes of batch `b` (every gate), each gate's records in the order given by `perm(gate)`
fn order_batch(rpb: usize, count: usize, ngates: usize, b: usize, mut perm: impl FnMut(usize, &mut Vec<usize>)) -> Vec<String> {
    let mut out = vec![];
    for g in 0..ngates {
        let mut recs: Vec<usize> = (b * rpb..((b + 1) * rpb).min(count)).collect();
        perm(g, &mut recs);
        out.extend(recs.into_iter().map(|r| order_tok(g, r)));
    }
    out
}

#[test]
fn verif_c03_order() {
    run_suite_par(
        "c03_order",
        4,
        |rng, thorough| {
            let mut out = vec![];
            // the smallest case: one batch of two records, one gate, record 1 reports first
            out.push(format!("c03.order b1 2 2 1 {} a1,a0,v0", rng.below(1 << 30)));
            out.push(format!("c03.order b1 2 2 1 {} a0,a1,v0", rng.below(1 << 30)));
            let shapes: Vec<(&str, usize, usize, usize)> = vec![
                // type, records per batch, total records (last batch partial where not a multiple), gates
                ("ba3", 2, 4, 1), ("ba3", 4, 7, 2), ("ba8", 2, 5, 2), ("ba8", 4, 12, 3), ("ba8", 8, 11, 1),
                ("ba64", 2, 3, 2), ("ba64", 4, 9, 1), ("ba256", 2, 4, 2), ("ba256", 4, 6, 1), ("b1", 8, 20, 2),
                ("ba20", 4, 10, 2), ("ba8", 16, 33, 1),
            ];
            for (k, &(ty, rpb, count, ngates)) in shapes.iter().enumerate() {
                let nb = count.div_ceil(rpb);
                // (1) batch after batch; inside a batch every gate reports backwards
                let mut s = vec![];
                for b in 0..nb {
                    s.extend(order_batch(rpb, count, ngates, b, |_, r| r.reverse()));
                    s.push(format!("v{b}"));
                }
                out.push(format!("c03.order {ty} {count} {rpb} {ngates} {} {}", rng.below(1 << 30), s.join(",")));
                // (2) batch after batch; every gate in its own random order, gates interleaved
                let mut s = vec![];
                for b in 0..nb {
                    let mut pushes = order_batch(rpb, count, ngates, b, |_, r| rng.shuffle(r));
                    if k % 2 == 0 {
                        rng.shuffle(&mut pushes);
                    }
                    s.extend(pushes);
                    s.push(format!("v{b}"));
                }
                out.push(format!("c03.order {ty} {count} {rpb} {ngates} {} {}", rng.below(1 << 30), s.join(",")));
                // (3) everything is reported first (one global shuffle over batches and gates), then validated
                let mut s: Vec<String> = (0..nb).flat_map(|b| order_batch(rpb, count, ngates, b, |_, _| ())).collect();
                rng.shuffle(&mut s);
                s.extend((0..nb).map(|b| format!("v{b}")));
                out.push(format!("c03.order {ty} {count} {rpb} {ngates} {} {}", rng.below(1 << 30), s.join(",")));
                // (4) the second record of every batch reports first, the rest in order; later batches report
                //     before earlier ones; validation in batch order
                if k % 3 == 0 || thorough {
                    let mut s = vec![];
                    for b in (0..nb).rev() {
                        s.extend(order_batch(rpb, count, ngates, b, |_, r| {
                            if r.len() > 1 {
                                r.swap(0, 1);
                            }
                        }));
                    }
                    s.extend((0..nb).map(|b| format!("v{b}")));
                    out.push(format!("c03.order {ty} {count} {rpb} {ngates} {} {}", rng.below(1 << 30), s.join(",")));
                }
                // (5) every helper has its own order
                if k % 3 == 1 || thorough {
                    let scripts: Vec<String> = (0..3)
                        .map(|_| {
                            let mut s = vec![];
                            for b in 0..nb {
                                let mut pushes = order_batch(rpb, count, ngates, b, |_, r| rng.shuffle(r));
                                rng.shuffle(&mut pushes);
                                s.extend(pushes);
                                s.push(format!("v{b}"));
                            }
                            s.join(",")
                        })
                        .collect();
                    out.push(format!("c03.order {ty} {count} {rpb} {ngates} {} {}", rng.below(1 << 30), scripts.join("/")));
                }
            }
            if thorough {
                for _ in 0..60 {
                    let ty = *rng.pick(&["b1", "ba3", "ba8", "ba20", "ba64", "ba256"]);
                    let rpb = 1usize << (1 + rng.usize_below(4));
                    let nb = 1 + rng.usize_below(4);
                    let count = (nb - 1) * rpb + 1 + rng.usize_below(rpb);
                    let ngates = 1 + rng.usize_below(3);
                    let mut s = vec![];
                    for b in 0..nb {
                        let mut pushes = order_batch(rpb, count, ngates, b, |_, r| rng.shuffle(r));
                        rng.shuffle(&mut pushes);
                        s.extend(pushes);
                        s.push(format!("v{b}"));
                    }
                    out.push(format!("c03.order {ty} {count} {rpb} {ngates} {} {}", rng.below(1 << 30), s.join(",")));
                }
            }
            out
        },
        exec_order,
    );
}
