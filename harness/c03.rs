// Correspondence suites for property C03. Each suite is a #[test] fn named verif_c03_<suite>.
