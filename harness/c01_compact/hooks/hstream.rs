// compact-gate build of the C01 suites only: the other properties' hook code is not included.
