// Root of the C01-only verification harness used for the compact-gate build
// (`--no-default-features --features "compact-gate web-app in-memory-infra stall-detection ipa-verif"`,
// IPA_VERIF_DIR = this directory). Other properties' suites use descriptive-gate-only step narrowing
// (`narrow("…")`, `DefaultBitStep`) and do not compile under compact gates.
macro_rules! verif_mod {
    ($name:ident, $file:literal) => {
        pub mod $name {
            include!(concat!(env!("IPA_VERIF_DIR"), "/", $file));
        }
    };
}

verif_mod!(proto, "proto.rs");
verif_mod!(c01, "c01.rs");
