// Correspondence suites for property C19. Each suite is a #[test] fn named verif_c19_<suite>.
