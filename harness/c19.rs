// Correspondence suites for property C19 (resharding). Each suite is a #[test] fn named verif_c19_<suite>.
//
// Request grammar
//   c19.reshard <iter|stream|try> <n> <dests> <hints> <errs>
//     n      number of shards (1..5); the three helpers run the same thing on replicated shares
//     dests  one list per source shard, separated by `/`; list = `-` (no records) or comma separated
//            destination shard of the k-th record of that shard (this IS the shard picker: a table
//            lookup on (source shard, record id), identical on the three helpers)
//     hints  `-`, or one number per shard: how much the stream's size hint exceeds its real length
//            (only `try`; `reshard_try_stream` must cope with streams shorter than their hint);
//            a NEGATIVE number makes the hint smaller than the stream
//     errs   `-`, or one entry per shard: position at which the input stream yields `Err`
//            (`x` = no error on that shard)
//   [fault] optional 7th token: a transport fault injected through the in-memory shard network
//            `cut:<src>:<dst>:<k>`  the first non-empty chunk that shard <src> sends to shard <dst>
//            loses its last <k> bytes (1..15: never a whole 16-byte record), on all three helpers
//   The k-th record of shard s carries the value s*1000+k (BA64), so every record is unique.
//   Response: per shard `/`-separated: the reconstructed output vector (comma separated, `-` empty),
//   `!` if all three helpers returned Err on that shard, `~` if on all three helpers the shard was
//   still waiting when the observation window closed (it never returns: its peer never closes the
//   channel), `mixed` if helpers disagree.
//   Every shard's call runs under its own time limit, so one shard's failure and its peers' waiting
//   are observed separately: 3 s when the request injects a failure, 15 s otherwise.
use std::{cell::RefCell, collections::HashSet, pin::Pin, sync::{Arc, Mutex}, task::{Context as TaskContext, Poll}};

use futures::{Stream, stream, stream::StreamExt};

use super::proto::*;
use crate::{
    ff::{U128Conversions, boolean_array::BA64},
    helpers::in_memory_config::{DynStreamInterceptor, InspectContext},
    protocol::context::{ShardedContext, reshard_iter, reshard_stream, reshard_try_stream},
    secret_sharing::replicated::semi_honest::AdditiveShare as Replicated,
    sharding::{ShardConfiguration, ShardIndex},
    test_fixture::{Distribute, Reconstruct, Runner, TestWorld, TestWorldConfig, WithShards},
};

thread_local! {
    static SIZES: RefCell<Vec<usize>> = const { RefCell::new(Vec::new()) };
}

/// Sets the per-shard input sizes for the `TestWorld` that is created next on this thread.
pub fn set_sizes(sizes: Vec<usize>) {
    SIZES.with(|s| *s.borrow_mut() = sizes);
}

/// Distributes the (concatenated) input to the shards in consecutive chunks of the sizes set by the
/// current request.
pub struct BySizes;

impl Distribute for BySizes {
    fn distribute<const SHARDS: usize, A>(input: Vec<A>) -> [Vec<A>; SHARDS] {
        let sizes = SIZES.with(|s| s.borrow().clone());
        assert_eq!(sizes.len(), SHARDS, "harness: sizes not set on this thread");
        let mut it = input.into_iter();
        std::array::from_fn(|i| it.by_ref().take(sizes[i]).collect())
    }
}

/// A stream with a size hint chosen by the harness.
pub struct Hinted<S> {
    pub inner: Pin<Box<S>>,
    pub hint: usize,
}

impl<S: Stream> Stream for Hinted<S> {
    type Item = S::Item;
    fn poll_next(mut self: Pin<&mut Self>, cx: &mut TaskContext<'_>) -> Poll<Option<Self::Item>> {
        self.inner.as_mut().poll_next(cx)
    }
    fn size_hint(&self) -> (usize, Option<usize>) {
        (0, Some(self.hint))
    }
}

pub fn parse_lists(s: &str) -> Vec<Vec<u32>> {
    s.split('/').map(|l| parse_nat_list::<u32>(l)).collect()
}

/// `cut:<src>:<dst>:<k>`
#[derive(Clone, Copy)]
pub struct Cut {
    src: u32,
    dst: u32,
    k: usize,
}

fn cutter(cut: Cut) -> DynStreamInterceptor {
    let done: Mutex<HashSet<String>> = Mutex::new(HashSet::new());
    Arc::new(move |ctx: &InspectContext, data: &mut Vec<u8>| {
        if let InspectContext::ShardMessage { helper, source, dest, .. } = ctx {
            if u32::from(*source) == cut.src && u32::from(*dest) == cut.dst && data.len() > cut.k {
                if done.lock().unwrap().insert(format!("{helper:?}")) {
                    data.truncate(data.len() - cut.k);
                }
            }
        }
    })
}

async fn run_n<const N: usize>(variant: String, dests: Vec<Vec<u32>>, hints: Vec<i64>, errs: Vec<Option<usize>>, cut: Option<Cut>) -> String {
    let input: Vec<BA64> = dests
        .iter()
        .enumerate()
        .flat_map(|(s, l)| (0..l.len()).map(move |k| BA64::truncate_from((s * 1000 + k) as u128)))
        .collect();
    set_sizes(dests.iter().map(Vec::len).collect());
    let faulty = cut.is_some() || errs.iter().any(Option::is_some) || hints.iter().any(|h| *h < 0);
    let window = std::time::Duration::from_secs(if faulty { 3 } else { 15 });
    let mut config = TestWorldConfig::default().with_timeout_secs(60);
    if let Some(cut) = cut {
        config.stream_interceptor = cutter(cut);
    }
    let world: TestWorld<WithShards<N, BySizes>> = TestWorld::with_shards(config);
    let dests = Arc::new(dests);
    let hints = Arc::new(hints);
    let errs = Arc::new(errs);
    let variant = Arc::new(variant);
    let r: Vec<[Result<Vec<Replicated<BA64>>, String>; 3]> = world
        .semi_honest(input.into_iter(), |ctx, shard_input: Vec<Replicated<BA64>>| {
            let (dests, hints, errs, variant) = (Arc::clone(&dests), Arc::clone(&hints), Arc::clone(&errs), Arc::clone(&variant));
            async move {
                let me = usize::from(ctx.shard_id());
                assert_eq!(shard_input.len(), dests[me].len(), "harness: input distribution");
                let table = Arc::clone(&dests);
                let picker = move |c: crate::protocol::context::ShardedSemiHonestContext<'_>, rid: crate::protocol::RecordId, _: &Replicated<BA64>| {
                    ShardIndex::from(table[usize::from(c.shard_id())][usize::from(rid)])
                };
                let res = tokio::time::timeout(window, async move { match variant.as_str() {
                    "iter" => reshard_iter(ctx, shard_input, picker).await,
                    "stream" => reshard_stream(ctx, stream::iter(shard_input), picker).await,
                    "try" => {
                        let len = shard_input.len();
                        let mut items: Vec<Result<Replicated<BA64>, crate::error::Error>> = shard_input.into_iter().map(Ok).collect();
                        if let Some(pos) = errs.get(me).copied().flatten() {
                            items.insert(pos.min(len), Err(crate::error::Error::InconsistentShares));
                        }
                        let extra = hints.get(me).copied().unwrap_or(0);
                        let hint = usize::try_from((len as i64 + extra).max(0)).unwrap();
                        reshard_try_stream(ctx, Hinted { inner: Box::pin(stream::iter(items)), hint }, picker).await
                    }
                    v => panic!("harness: unknown variant {v}"),
                } }).await;
                match res {
                    Ok(r) => r.map_err(|e| format!("{e:?}")),
                    Err(_) => Err("~".to_string()),
                }
            }
        })
        .await;
    let mut out = Vec::new();
    for shard in r {
        let oks = shard.iter().filter(|x| x.is_ok()).count();
        if oks == 3 {
            let [a, b, c] = shard.map(Result::unwrap);
            if a.len() != b.len() || b.len() != c.len() {
                out.push("mixed".to_string());
                continue;
            }
            let vals: Vec<u128> = [a, b, c].reconstruct().into_iter().map(|v: BA64| v.as_u128()).collect();
            out.push(nat_list(&vals));
        } else if oks == 0 {
            let waiting = shard.iter().filter(|x| matches!(x, Err(e) if e == "~")).count();
            out.push(match waiting { 0 => "!", 3 => "~", _ => "mixed" }.into());
        } else {
            out.push("mixed".into());
        }
    }
    out.join("/")
}

pub fn exec(req: &str) -> String {
    let t: Vec<&str> = req.split(' ').collect();
    assert_eq!(t[0], "c19.reshard");
    let variant = t[1].to_string();
    let n: usize = t[2].parse().unwrap();
    let dests = parse_lists(t[3]);
    assert_eq!(dests.len(), n);
    let hints: Vec<i64> = if t[4] == "-" { vec![] } else { t[4].split(',').map(|x| x.parse().unwrap()).collect() };
    let errs: Vec<Option<usize>> = if t[5] == "-" { vec![] } else { t[5].split(',').map(|x| x.parse().ok()).collect() };
    let cut: Option<Cut> = t.get(6).map(|c| {
        let p: Vec<&str> = c.split(':').collect();
        assert!(p.len() == 4 && p[0] == "cut", "harness: bad fault {c}");
        Cut { src: p[1].parse().unwrap(), dst: p[2].parse().unwrap(), k: p[3].parse().unwrap() }
    });
    run_isolated(move || async move {
        match n {
            1 => run_n::<1>(variant, dests, hints, errs, cut).await,
            2 => run_n::<2>(variant, dests, hints, errs, cut).await,
            3 => run_n::<3>(variant, dests, hints, errs, cut).await,
            4 => run_n::<4>(variant, dests, hints, errs, cut).await,
            5 => run_n::<5>(variant, dests, hints, errs, cut).await,
            _ => panic!("harness: unsupported shard count {n}"),
        }
    })
}

/// TestWorld distributes the input on the thread that first polls the future: run the whole
/// request on a runtime driven from ONE thread. That thread is a fresh one, so that a resharding
/// that spins without ever yielding (it cannot be timed out from inside) is reported as `timeout`
/// instead of blocking the suite; the spinning thread is abandoned.
pub fn run_isolated<F, Fut>(f: F) -> String
where
    F: FnOnce() -> Fut + Send + 'static,
    Fut: std::future::Future<Output = String>,
{
    let (tx, rx) = std::sync::mpsc::channel();
    let worker = std::thread::spawn(move || {
        let rt = tokio::runtime::Builder::new_multi_thread().worker_threads(3).enable_all().build().unwrap();
        let r = rt.block_on(async move { tokio::time::timeout(std::time::Duration::from_secs(40), f()).await });
        rt.shutdown_background();
        let _ = tx.send(r.unwrap_or_else(|_| "timeout".into()));
    });
    match rx.recv_timeout(std::time::Duration::from_secs(60)) {
        Ok(r) => r,
        Err(std::sync::mpsc::RecvTimeoutError::Timeout) => "timeout".into(),
        // the worker panicked: hand the panic to `run_suite`
        Err(std::sync::mpsc::RecvTimeoutError::Disconnected) => match worker.join() {
            Err(payload) => std::panic::resume_unwind(payload),
            Ok(()) => "timeout".into(),
        },
    }
}

pub fn show_lists(d: &[Vec<u32>]) -> String {
    d.iter().map(|l| nat_list(l)).collect::<Vec<_>>().join("/")
}

pub fn gen_dests(rng: &mut Rng, n: usize, sizes: &[usize], picker: &str, target: u32) -> Vec<Vec<u32>> {
    (0..n)
        .map(|s| {
            (0..sizes[s])
                .map(|k| match picker {
                    "one" => target,
                    "rr" => (k % n) as u32,
                    "stay" => s as u32,
                    "leave" => ((s + 1) % n) as u32,
                    "rand" => rng.below(n as u64) as u32,
                    "val" => ((s * 1000 + k) % n) as u32,
                    _ => unreachable!(),
                })
                .collect()
        })
        .collect()
}

pub fn generate(rng: &mut Rng, thorough: bool) -> Vec<String> {
    let mut v = Vec::new();
    let variants = ["iter", "stream", "try"];
    // boundary: empty everywhere, single record, one shard empty, sizes around the 1.25 capacity estimate
    for n in 1..=5usize {
        for (vi, sizes) in [vec![0; n], vec![1; n], (0..n).map(|s| if s == 0 { 0 } else { 3 }).collect::<Vec<_>>(),
                            (0..n).map(|s| if s + 1 == n { 9 } else { 0 }).collect(), vec![4; n], vec![5; n], (0..n).map(|s| 8 * s).collect()]
            .into_iter()
            .enumerate()
        {
            for picker in ["one", "rr", "stay", "leave", "rand", "val"] {
                let target = (vi % n) as u32;
                let d = gen_dests(rng, n, &sizes, picker, target);
                let variant = variants[(vi + picker.len()) % 3];
                v.push(format!("c19.reshard {variant} {n} {} - -", show_lists(&d)));
            }
        }
    }
    // random sizes 0..40
    let count = if thorough { 3000 } else { 300 };
    for i in 0..count {
        let n = 1 + rng.usize_below(5);
        let sizes: Vec<usize> = (0..n).map(|_| if rng.below(6) == 0 { 0 } else { rng.usize_below(41) }).collect();
        let picker = *rng.pick(&["one", "rr", "stay", "leave", "rand", "rand", "val"]);
        let target = rng.below(n as u64) as u32;
        let d = gen_dests(rng, n, &sizes, picker, target);
        let variant = variants[i % 3];
        let hints = if variant == "try" && rng.bool() {
            (0..n).map(|_| rng.below(7).to_string()).collect::<Vec<_>>().join(",")
        } else {
            "-".into()
        };
        v.push(format!("c19.reshard {variant} {n} {} {hints} -", show_lists(&d)));
    }
    // failing inputs: every shard's stream yields an error somewhere (positions vary), or claims a
    // size hint smaller than its length
    let ecount = if thorough { 300 } else { 45 };
    for i in 0..ecount {
        let n = 1 + rng.usize_below(5);
        let sizes: Vec<usize> = (0..n).map(|_| 1 + rng.usize_below(12)).collect();
        let d = gen_dests(rng, n, &sizes, "rand", 0);
        if i % 3 == 2 {
            let hints = (0..n).map(|s| format!("-{}", 1 + rng.usize_below(sizes[s]))).collect::<Vec<_>>().join(",");
            v.push(format!("c19.reshard try {n} {} {hints} -", show_lists(&d)));
        } else {
            let errs = (0..n).map(|s| rng.usize_below(sizes[s] + 1).to_string()).collect::<Vec<_>>().join(",");
            v.push(format!("c19.reshard try {n} {} - {errs}", show_lists(&d)));
        }
    }
    // ---- failure on exactly ONE shard (the others' streams are fine): an `Err` item before the first
    // record, in the middle, before the last record, after the last record (all records already sent)
    let singles: &[usize] = if thorough { &[1, 2, 2, 3, 3, 4, 5, 5] } else { &[1, 2, 3, 5] };
    for (ni, &n) in singles.iter().enumerate() {
        for (pi, posk) in ["first", "middle", "last", "after"].iter().enumerate() {
            let sizes: Vec<usize> = (0..n).map(|_| 2 + rng.usize_below(9)).collect();
            let picker = ["rand", "rr", "stay", "leave", "val", "one"][(ni + pi) % 6];
            let target = rng.below(n as u64) as u32;
            let d = gen_dests(rng, n, &sizes, picker, target);
            let f = match pi { 0 => 0, 1 => n - 1, _ => rng.usize_below(n) };
            let pos = match *posk { "first" => 0, "middle" => sizes[f] / 2, "last" => sizes[f] - 1, _ => sizes[f] };
            let errs = (0..n).map(|s| if s == f { pos.to_string() } else { "x".to_string() }).collect::<Vec<_>>().join(",");
            v.push(format!("c19.reshard try {n} {} - {errs}", show_lists(&d)));
        }
    }
    // ---- size hint: larger than the stream by exactly 1 on ONE shard only (fine); smaller by 1 (a stream
    // LONGER than its hint) on one shard only and on all shards, with selections that never put more than
    // `hint` records on a single peer channel (all-stay, round robin) as well as all-to-one
    for n in 1..=5usize {
        for picker in ["rand", "stay"] {
            let sizes: Vec<usize> = (0..n).map(|_| rng.usize_below(7)).collect();
            let d = gen_dests(rng, n, &sizes, picker, 0);
            let f = rng.usize_below(n);
            let hints = (0..n).map(|s| if s == f { "1" } else { "0" }).collect::<Vec<_>>().join(",");
            v.push(format!("c19.reshard try {n} {} {hints} -", show_lists(&d)));
        }
    }
    for (i, picker) in ["stay", "rr", "one", "leave", "rand", "val"].iter().enumerate() {
        if !thorough && i >= 4 {
            break;
        }
        let n = 2 + i % 3;
        let sizes: Vec<usize> = (0..n).map(|_| 1 + rng.usize_below(6)).collect();
        let d = gen_dests(rng, n, &sizes, picker, (i % n) as u32);
        let f = i % n;
        let one = (0..n).map(|s| if s == f { "-1" } else { "0" }).collect::<Vec<_>>().join(",");
        v.push(format!("c19.reshard try {n} {} {one} -", show_lists(&d)));
        let all = vec!["-1"; n].join(",");
        v.push(format!("c19.reshard try {n} {} {all} -", show_lists(&d)));
    }
    // witnesses of the repaired defect (a channel closed by its record count): the first `hint` items of a
    // failing stream all go to ONE peer, which must not take them for the complete set - a stream longer than
    // its hint (the dropped record is routed to the same peer / to another one), an `Err` item right after
    // `hint` records, three shards with a bystander
    v.push("c19.reshard try 2 1,1,1,1/0,0,0 0,-1 -".to_string());
    v.push("c19.reshard try 2 1,1/0,0,1 0,-1 -".to_string());
    v.push("c19.reshard try 2 1,1,1/0,0 - 3,x".to_string());
    v.push("c19.reshard try 3 1,1/2,2,2/0 -1,0,0 -".to_string());
    v.push("c19.reshard try 3 2,2,2,0/0/1,1 1,0,-1 -".to_string());
    // ---- transport faults through the in-memory shard network: the first chunk from <src> to <dst> loses
    // 1..15 bytes (never a whole record)
    let cuts = if thorough { 24 } else { 6 };
    for i in 0..cuts {
        let n = 2 + i % 4;
        let sizes: Vec<usize> = (0..n).map(|_| 2 + rng.usize_below(8)).collect();
        let d = gen_dests(rng, n, &sizes, ["rr", "rand", "leave"][i % 3], 0);
        // a pair (src, dst) with at least one record routed src -> dst
        let src = rng.usize_below(n);
        let Some(dst) = d[src].iter().map(|x| *x as usize).find(|x| *x != src) else { continue };
        let k = [1usize, 8, 15, 3][i % 4];
        let variant = variants[i % 3];
        v.push(format!("c19.reshard {variant} {n} {} - - cut:{src}:{dst}:{k}", show_lists(&d)));
    }
    v
}

#[test]
fn verif_c19_reshard() {
    run_suite("c19_reshard", generate, exec);
}
