// Correspondence suites for property C15. Each suite is a #[test] fn named verif_c15_<suite>.
