// Root of the SHUTTLE build of the verification harness (supporting evidence for C14).
//
// Build with IPA_VERIF_DIR pointing at THIS directory and `--features "ipa-verif shuttle"`:
// under the `shuttle` feature `crate::sync::{Mutex, atomic::AtomicUsize}` are shuttle's
// schedulable primitives, which panic outside a shuttle run, and parts of the crate the other
// properties' hooks need (`net::test`, …) are configured out — so every hook file except
// `hooks/buffers.rs` is an empty stub here and only the line protocol is shared.
pub mod proto {
    include!(concat!(env!("IPA_VERIF_DIR"), "/../proto.rs"));
}
