// stub: this hook is not part of the shuttle build of the verification harness (see harness/shuttle/root.rs)
