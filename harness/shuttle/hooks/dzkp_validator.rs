// stub: this hook is not part of the shuttle build of the verification harness (see harness/shuttle/root.rs)

// no-op counterpart of the C02 hook called by `Batch::push` (suite c02_recorded is not part of this build)
pub fn c02_note_push(_gate: &crate::protocol::Gate) {}
