// stub: this hook is not part of the shuttle build of the verification harness (see harness/shuttle/root.rs)

// no-op counterpart of the C02 hook called by `Batch::push` (suite c02_recorded is not part of this build)
pub fn c02_note_push(_gate: &crate::protocol::Gate) {}

// C16 (b21): stub of the validation counter hook called by `Batch::validate`.
pub fn c16_note_validate(_gate: &crate::protocol::Gate, _batch_index: usize) {}
