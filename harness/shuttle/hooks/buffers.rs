// C14, supporting evidence: shuttle exploration of the PUBLIC API of the real `OrderingSender`
// (`send`, `close`, `take_next`) with shuttle's schedulable Mutex / AtomicUsize, i.e. with real
// pre-emption between the shared-memory accesses inside a poll.
//
//   Request:  c14.shuttle <sched> <writers> <cap> <rs> <iters> <seed>
//     sched: random | pct<depth> | dfs ; `writers` tasks send one 1-byte message each (index = task),
//     one task closes at index `writers`, one task drains the stream; capacity / read size in bytes.
//   Response: ok | deadlock | panic:<first line>      (deadlock = a lost wake-up)
#[cfg(feature = "shuttle")]
mod c14sh {
    use std::{convert::Infallible, future::poll_fn, num::NonZeroUsize};

    use generic_array::GenericArray;
    use shuttle_crate::{
        Config, Runner,
        scheduler::{DfsScheduler, PctScheduler, RandomScheduler},
    };
    use typenum::U1;

    use super::super::OrderingSender;
    use crate::{ff::Serializable, ipa_verif::proto::*, sync::Arc};

    #[derive(Debug, Clone, PartialEq, Eq)]
    struct B1(u8);

    impl Serializable for B1 {
        type Size = U1;
        type DeserializationError = Infallible;

        fn serialize(&self, buf: &mut GenericArray<u8, Self::Size>) {
            buf[0] = self.0;
        }

        fn deserialize(buf: &GenericArray<u8, Self::Size>) -> Result<Self, Self::DeserializationError> {
            Ok(Self(buf[0]))
        }
    }

    fn scenario(n: usize, cap: usize, rs: usize) {
        shuttle_crate::future::block_on(async move {
            let s = Arc::new(OrderingSender::new(
                NonZeroUsize::new(cap).unwrap(),
                NonZeroUsize::new(1).unwrap(),
                NonZeroUsize::new(rs).unwrap(),
            ));
            let mut handles = vec![];
            for i in (0..n).rev() {
                let s = Arc::clone(&s);
                handles.push(shuttle_crate::future::spawn(async move {
                    s.send::<B1, _>(i, B1(i as u8)).await;
                }));
            }
            {
                let s = Arc::clone(&s);
                handles.push(shuttle_crate::future::spawn(async move {
                    s.close(n).await;
                }));
            }
            let reader = {
                let s = Arc::clone(&s);
                shuttle_crate::future::spawn(async move {
                    let mut got: Vec<u8> = vec![];
                    while let Some(v) = poll_fn(|cx| s.take_next(cx)).await {
                        got.extend(v);
                    }
                    got
                })
            };
            for h in handles {
                h.await.unwrap();
            }
            let got = reader.await.unwrap();
            let want: Vec<u8> = (0..n).map(|i| i as u8).collect();
            assert_eq!(got, want, "stream is not msg0|msg1|…");
        });
    }

    pub fn exec(req: &str) -> String {
        let t: Vec<&str> = req.split(' ').collect();
        assert_eq!(t[0], "c14.shuttle");
        let p = |s: &str| s.parse::<usize>().unwrap();
        let (n, cap, rs, iters, seed) = (p(t[2]), p(t[3]), p(t[4]), p(t[5]), p(t[6]) as u64);
        let sched = t[1].to_string();
        let r = guarded(move || {
            let f = move || scenario(n, cap, rs);
            if sched == "random" {
                Runner::new(RandomScheduler::new_from_seed(seed, iters), Config::new()).run(f);
            } else if sched == "dfs" {
                Runner::new(DfsScheduler::new(Some(iters), false), Config::new()).run(f);
            } else {
                let depth: usize = sched[3..].parse().unwrap();
                Runner::new(PctScheduler::new_from_seed(seed, depth, iters), Config::new()).run(f);
            }
        });
        match r {
            Ok(()) => "ok".into(),
            Err(p) if p.contains("deadlock") => "deadlock".into(),
            Err(p) => format!("panic:{}", p.lines().next().unwrap_or("")),
        }
    }

    pub fn generate(rng: &mut Rng, thorough: bool) -> Vec<String> {
        let mut out = vec![];
        let iters = if thorough { 20_000 } else { 2_000 };
        for (n, cap, rs) in [(3usize, 1usize, 1usize), (3, 2, 2), (3, 4, 2), (4, 2, 1), (2, 1, 1)] {
            out.push(format!("c14.shuttle random {n} {cap} {rs} {iters} {}", rng.below(1 << 30)));
            out.push(format!("c14.shuttle pct3 {n} {cap} {rs} {iters} {}", rng.below(1 << 30)));
            out.push(format!("c14.shuttle pct5 {n} {cap} {rs} {iters} {}", rng.below(1 << 30)));
        }
        out.push(format!("c14.shuttle dfs 2 1 1 {} 0", if thorough { 200_000 } else { 20_000 }));
        out.push(format!("c14.shuttle dfs 3 4 2 {} 0", if thorough { 200_000 } else { 20_000 }));
        out
    }

    #[test]
    fn verif_c14sh_explore() {
        run_suite("c14sh_explore", generate, exec);
    }
}
