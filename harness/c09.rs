// Correspondence suites for property C09 (wire encodings round-trip and reject every non-canonical
// byte string; bit-matrix transposition / field packing are lossless inverses).
// Each suite is a #[test] fn named verif_c09_<suite>.
//
// Request grammar of the serde suites (c09_small, c09_large):
//   c09.blk <Ty> <suffix-hex|->   decode [b] ++ suffix for every b in 0..=255 (256 verdicts, run-length compressed)
//   c09.de  <Ty> <hex>            deserialize; `ok <leaves> <re-encoded hex>` | `err`
//   c09.en  <Ty> <leaves>         build the value from its leaves (hex, ':'-separated) and serialize
//   c09.rp  de <hex>              RP25519::deserialize; `ok <re-encoded hex>` | `err`
// <Ty> is a leaf type name, `share:<Leaf>` (AdditiveShare) or `arrN:<Leaf>` (StdArray<_, N>).
use curve25519_dalek::scalar::Scalar;
use generic_array::GenericArray;
use typenum::Unsigned;

use super::proto::*;
use crate::{
    ff::{
        ArrayAccess, Fp31, Fp32BitPrime, Fp61BitPrime, Gf2, Gf3Bit, Gf8Bit, Gf9Bit, Gf20Bit,
        Gf32Bit, Gf40Bit, PrimeField, Serializable, U128Conversions,
        boolean::Boolean,
        boolean_array::{
            BA3, BA4, BA5, BA6, BA7, BA8, BA16, BA20, BA32, BA64, BA96, BA112, BA144, BA256,
        },
        curve_points::RP25519,
        ec_prime_field::Fp25519,
    },
    error::{LengthError, UnwrapInfallible},
    helpers::hashing::Hash,
    query::ProtocolResult,
    report::{
        hybrid::{
            AggregateableHybridReport, HybridConversionReport, HybridImpressionReport,
            IndistinguishableHybridReport, PrfHybridReport, UniqueBytes, UniqueTag,
        },
        hybrid_info::{HybridConversionInfo, HybridImpressionInfo},
    },
    secret_sharing::{
        BitDecomposed, SharedValue, StdArray, TransposeFrom, Vectorizable,
        replicated::{ReplicatedSecretSharing, semi_honest::AdditiveShare},
    },
};

// ------------------------------------------------------------------------------------------------
// values <-> leaves

/// A wire type of the serde suites: observable as a list of leaves (hex integers), constructible
/// from them *without* going through `deserialize`.
trait Wire: Serializable + Sized {
    fn leaves(&self, out: &mut Vec<String>);
    fn build(it: &mut dyn Iterator<Item = &str>) -> Self;
}

macro_rules! wire_u128 {
    ($($t:ty),*) => {$(
        impl Wire for $t {
            fn leaves(&self, out: &mut Vec<String>) {
                out.push(format!("{:x}", self.as_u128()));
            }
            fn build(it: &mut dyn Iterator<Item = &str>) -> Self {
                <$t>::truncate_from(u128::from_str_radix(it.next().unwrap(), 16).unwrap())
            }
        }
    )*};
}
wire_u128!(
    Fp31, Fp32BitPrime, Fp61BitPrime, Gf2, Gf3Bit, Gf8Bit, Gf9Bit, Gf20Bit, Gf32Bit, Gf40Bit, BA3,
    BA4, BA5, BA6, BA7, BA8, BA16, BA20, BA32, BA64, BA96, BA112
);

impl Wire for Boolean {
    fn leaves(&self, out: &mut Vec<String>) {
        out.push(format!("{:x}", self.as_u128()));
    }
    fn build(it: &mut dyn Iterator<Item = &str>) -> Self {
        Boolean::from(u128::from_str_radix(it.next().unwrap(), 16).unwrap() != 0)
    }
}

/// big-endian hex digits -> little-endian bits
fn hex_to_bits(s: &str, n: usize) -> Vec<bool> {
    let mut bits = Vec::with_capacity(n);
    for c in s.chars().rev() {
        let d = c.to_digit(16).unwrap();
        for k in 0..4 {
            bits.push((d >> k) & 1 == 1);
        }
    }
    assert!(bits.iter().skip(n).all(|b| !b), "harness: leaf does not fit {n} bits");
    bits.resize(n, false);
    bits
}

/// little-endian bits -> big-endian hex digits without leading zeros
fn bits_to_hex(bits: &[bool]) -> String {
    let mut digits = Vec::new();
    for chunk in bits.chunks(4) {
        let mut d = 0u32;
        for (k, b) in chunk.iter().enumerate() {
            d |= u32::from(*b) << k;
        }
        digits.push(std::char::from_digit(d, 16).unwrap());
    }
    while digits.len() > 1 && *digits.last().unwrap() == '0' {
        digits.pop();
    }
    digits.iter().rev().collect()
}

macro_rules! wire_bigba {
    ($($t:ty),*) => {$(
        impl Wire for $t {
            fn leaves(&self, out: &mut Vec<String>) {
                let n = <$t as SharedValue>::BITS as usize;
                let bits: Vec<bool> = (0..n).map(|i| bool::from(self.get(i).unwrap())).collect();
                out.push(bits_to_hex(&bits));
            }
            fn build(it: &mut dyn Iterator<Item = &str>) -> Self {
                let n = <$t as SharedValue>::BITS as usize;
                hex_to_bits(it.next().unwrap(), n).into_iter().map(Boolean::from).collect()
            }
        }
    )*};
}
wire_bigba!(BA144, BA256);

impl Wire for Fp25519 {
    fn leaves(&self, out: &mut Vec<String>) {
        let bytes = Scalar::from(*self).to_bytes();
        let bits: Vec<bool> = (0..256).map(|i| (bytes[i / 8] >> (i % 8)) & 1 == 1).collect();
        out.push(bits_to_hex(&bits));
    }
    fn build(it: &mut dyn Iterator<Item = &str>) -> Self {
        // by arithmetic: sum of 64-bit limbs times powers of 2^64
        let bits = hex_to_bits(it.next().unwrap(), 256);
        let base = Fp25519::from(Scalar::from(u64::MAX)) + Fp25519::ONE;
        let mut acc = Fp25519::ZERO;
        for limb in (0..4).rev() {
            let mut v = 0u64;
            for k in 0..64 {
                v |= u64::from(bits[64 * limb + k]) << k;
            }
            acc = acc * base + Fp25519::from(Scalar::from(v));
        }
        acc
    }
}

impl<V: Wire + SharedValue + Vectorizable<1>> Wire for AdditiveShare<V>
where
    AdditiveShare<V>: Serializable,
{
    fn leaves(&self, out: &mut Vec<String>) {
        self.left().leaves(out);
        self.right().leaves(out);
    }
    fn build(it: &mut dyn Iterator<Item = &str>) -> Self {
        let l = V::build(it);
        let r = V::build(it);
        AdditiveShare::new(l, r)
    }
}

impl<V: Wire + SharedValue, const N: usize> Wire for StdArray<V, N>
where
    StdArray<V, N>: Serializable,
{
    fn leaves(&self, out: &mut Vec<String>) {
        for v in self.clone() {
            v.leaves(out);
        }
    }
    fn build(it: &mut dyn Iterator<Item = &str>) -> Self {
        let v: Vec<V> = (0..N).map(|_| V::build(it)).collect();
        StdArray::try_from(v).ok().unwrap()
    }
}

impl Wire for Hash {
    fn leaves(&self, out: &mut Vec<String>) {
        out.push(le_to_hexint(&to_raw(self)));
    }
    fn build(it: &mut dyn Iterator<Item = &str>) -> Self {
        from_raw(&bits_to_bytes(&hex_to_bits(it.next().unwrap(), 256)))
    }
}

impl Wire for UniqueTag {
    fn leaves(&self, out: &mut Vec<String>) {
        out.push(le_to_hexint(&self.unique_bytes()));
    }
    fn build(it: &mut dyn Iterator<Item = &str>) -> Self {
        from_raw(&bits_to_bytes(&hex_to_bits(it.next().unwrap(), 128)))
    }
}

fn bits_to_bytes(bits: &[bool]) -> Vec<u8> {
    bits.chunks(8).map(|c| c.iter().enumerate().fold(0u8, |a, (k, b)| a | (u8::from(*b) << k))).collect()
}

impl<const N: usize> Wire for [Hash; N]
where
    [Hash; N]: Serializable,
{
    fn leaves(&self, out: &mut Vec<String>) {
        for h in self {
            h.leaves(out);
        }
    }
    fn build(it: &mut dyn Iterator<Item = &str>) -> Self {
        std::array::from_fn(|_| Hash::build(it))
    }
}

impl<const N: usize> Wire for [Fp61BitPrime; N]
where
    [Fp61BitPrime; N]: Serializable,
{
    fn leaves(&self, out: &mut Vec<String>) {
        for h in self {
            h.leaves(out);
        }
    }
    fn build(it: &mut dyn Iterator<Item = &str>) -> Self {
        std::array::from_fn(|_| Fp61BitPrime::build(it))
    }
}

impl<const N: usize> Wire for Box<[Fp61BitPrime; N]>
where
    Box<[Fp61BitPrime; N]>: Serializable,
{
    fn leaves(&self, out: &mut Vec<String>) {
        for h in self.iter() {
            h.leaves(out);
        }
    }
    fn build(it: &mut dyn Iterator<Item = &str>) -> Self {
        Box::new(std::array::from_fn(|_| Fp61BitPrime::build(it)))
    }
}

impl Wire for PrfHybridReport<BA8, BA3> {
    fn leaves(&self, out: &mut Vec<String>) {
        out.push(format!("{:x}", self.match_key));
        self.value.leaves(out);
        self.breakdown_key.leaves(out);
    }
    fn build(it: &mut dyn Iterator<Item = &str>) -> Self {
        let match_key = u64::from_str_radix(it.next().unwrap(), 16).unwrap();
        let value = AdditiveShare::<BA3>::build(it);
        let breakdown_key = AdditiveShare::<BA8>::build(it);
        Self { match_key, value, breakdown_key }
    }
}

/// `ARRAY_LEN` of proof_generation.rs (private there): first proof + 13 compressed proofs of 7 elements
const PROOF_ARRAY_LEN: usize = 98;

// ------------------------------------------------------------------------------------------------
// executors

fn decode_entry<T: Wire>(bytes: &[u8]) -> Result<(String, Vec<u8>), ()> {
    let mut buf = GenericArray::<u8, T::Size>::default();
    assert_eq!(bytes.len(), buf.len(), "harness: wrong buffer length");
    buf.copy_from_slice(bytes);
    match T::deserialize(&buf) {
        Ok(v) => {
            let mut ls = vec![];
            v.leaves(&mut ls);
            let mut re = GenericArray::<u8, T::Size>::default();
            v.serialize(&mut re);
            Ok((ls.join(":"), re.to_vec()))
        }
        Err(_) => Err(()),
    }
}

fn rle(entries: &[String]) -> String {
    let mut out: Vec<String> = vec![];
    let mut i = 0;
    while i < entries.len() {
        let mut j = i;
        while j < entries.len() && entries[j] == entries[i] {
            j += 1;
        }
        if j - i == 1 {
            out.push(entries[i].clone());
        } else {
            out.push(format!("{}*{}", entries[i], j - i));
        }
        i = j;
    }
    out.join(",")
}

fn run<T: Wire>(op: &str, args: &[&str]) -> String {
    match op {
        "c09.blk" => {
            let suffix = unhex(args[0]);
            let mut entries = Vec::with_capacity(256);
            for b in 0..=255u8 {
                let mut bytes = vec![b];
                bytes.extend_from_slice(&suffix);
                entries.push(match decode_entry::<T>(&bytes) {
                    Ok((ls, re)) => {
                        if re == bytes {
                            ls
                        } else {
                            format!("{ls}!")
                        }
                    }
                    Err(()) => "e".into(),
                });
            }
            rle(&entries)
        }
        "c09.de" => match decode_entry::<T>(&unhex(args[0])) {
            Ok((ls, re)) => format!("ok {ls} {}", hex(&re)),
            Err(()) => "err".into(),
        },
        "c09.en" => {
            let mut it = args[0].split(':');
            let v = T::build(&mut it);
            assert!(it.next().is_none(), "harness: too many leaves");
            let mut buf = GenericArray::<u8, T::Size>::default();
            v.serialize(&mut buf);
            hex(&buf)
        }
        _ => panic!("harness: unknown op {op}"),
    }
}

/// (name, bytes, bound bits or 0 for "see prime") of every leaf type
macro_rules! for_leaves {
    ($mac:ident ! ( $($pre:tt)* )) => {
        $mac!($($pre)* Fp31, Fp32BitPrime, Fp61BitPrime, Boolean, Gf2, Gf3Bit, Gf8Bit, Gf9Bit, Gf20Bit,
              Gf32Bit, Gf40Bit, BA3, BA4, BA5, BA6, BA7, BA8, BA16, BA20, BA32, BA64, BA96, BA112, BA144,
              BA256, Fp25519)
    };
}

macro_rules! dispatch_leaf {
    ($leaf:expr, $op:expr, $args:expr, $wrap:ident; $($t:ident),*) => {
        match $leaf {
            $(stringify!($t) => run::<$wrap!($t)>($op, $args),)*
            other => panic!("harness: unknown leaf type {other}"),
        }
    };
}
macro_rules! w_id { ($t:ty) => { $t }; }
macro_rules! w_share { ($t:ty) => { AdditiveShare<$t> }; }
macro_rules! w_arr1 { ($t:ty) => { StdArray<$t, 1> }; }
macro_rules! w_arr16 { ($t:ty) => { StdArray<$t, 16> }; }
macro_rules! w_arr32 { ($t:ty) => { StdArray<$t, 32> }; }
macro_rules! w_arr64 { ($t:ty) => { StdArray<$t, 64> }; }
macro_rules! w_arr256 { ($t:ty) => { StdArray<$t, 256> }; }

fn exec_serde(op: &str, ty: &str, args: &[&str]) -> String {
    let (wrap, leaf) = match ty.split_once(':') {
        Some((w, l)) => (w, l),
        None => ("", ty),
    };
    match (wrap, leaf) {
        ("", "Hash") => return run::<Hash>(op, args),
        ("", "UniqueTag") => return run::<UniqueTag>(op, args),
        ("", "HashArr") => return run::<[Hash; 14]>(op, args),
        ("", "ProofDiff") => return run::<[Fp61BitPrime; 15]>(op, args),
        ("", "ProofArr") => return run::<Box<[Fp61BitPrime; PROOF_ARRAY_LEN]>>(op, args),
        ("", "Prf") => return run::<PrfHybridReport<BA8, BA3>>(op, args),
        _ => {}
    }
    match wrap {
        "" => for_leaves!(dispatch_leaf!(leaf, op, args, w_id;)),
        "share" => for_leaves!(dispatch_leaf!(leaf, op, args, w_share;)),
        "arr1" => for_leaves!(dispatch_leaf!(leaf, op, args, w_arr1;)),
        "arr16" => for_leaves!(dispatch_leaf!(leaf, op, args, w_arr16;)),
        "arr32" => for_leaves!(dispatch_leaf!(leaf, op, args, w_arr32;)),
        "arr64" => for_leaves!(dispatch_leaf!(leaf, op, args, w_arr64;)),
        "arr256" => for_leaves!(dispatch_leaf!(leaf, op, args, w_arr256;)),
        other => panic!("harness: unknown wrapper {other}"),
    }
}

fn exec_rp(op: &str, args: &[&str]) -> String {
    match op {
        "de" => {
            let b = unhex(args[0]);
            let mut buf = GenericArray::<u8, <RP25519 as Serializable>::Size>::default();
            buf.copy_from_slice(&b);
            match RP25519::deserialize(&buf) {
                Ok(p) => {
                    let mut re = GenericArray::<u8, <RP25519 as Serializable>::Size>::default();
                    p.serialize(&mut re);
                    format!("ok {}", hex(&re))
                }
                Err(_) => "err".into(),
            }
        }
        _ => panic!("harness: unknown op {op}"),
    }
}

// ------------------------------------------------------------------------------------------------
// transposes: c09.tr <kind> <M> <N> <form> <left-hex> <right-hex|->

fn from_raw<B: Serializable>(b: &[u8]) -> B {
    B::deserialize(GenericArray::from_slice(b)).unwrap()
}

fn to_raw<B: Serializable>(b: &B) -> Vec<u8> {
    let mut buf = GenericArray::<u8, B::Size>::default();
    b.serialize(&mut buf);
    buf.to_vec()
}

fn split_rows(h: &str, row_bytes: usize) -> Vec<Vec<u8>> {
    unhex(h).chunks(row_bytes).map(<[u8]>::to_vec).collect()
}

fn show_pairs(res: Result<Vec<(Vec<u8>, Vec<u8>)>, LengthError>) -> String {
    match res {
        Ok(v) => {
            let l: Vec<u8> = v.iter().flat_map(|p| p.0.clone()).collect();
            let r: Vec<u8> = v.iter().flat_map(|p| p.1.clone()).collect();
            format!("{} {}", hex(&l), hex(&r))
        }
        Err(e) => format!("err {} {}", e.expected, e.actual),
    }
}

fn to_arr<T, const N: usize>(v: Vec<T>) -> [T; N] {
    v.try_into().ok().expect("harness: wrong number of source rows for the array form")
}

macro_rules! tr_ba_to_ba {
    ($dst:ty, $src:ty, $m:expr, $n:expr, $form:expr, $l:expr) => {{
        let rows: Vec<$src> = split_rows($l, $n / 8).iter().map(|r| from_raw::<$src>(r)).collect();
        let src: [$src; $m] = to_arr(rows);
        let out: Vec<$dst> = match $form {
            "arr" => {
                let mut dst = [<$dst>::ZERO; $n];
                dst.transpose_from(&src).unwrap_infallible();
                dst.to_vec()
            }
            "shim" => {
                let mut dst: Vec<$dst> = vec![];
                dst.transpose_from(&src).unwrap_infallible();
                dst
            }
            f => panic!("harness: unknown form {f}"),
        };
        hex(&out.iter().flat_map(|b| to_raw(b)).collect::<Vec<u8>>())
    }};
}

fn bool_shares<A, const N: usize>(l: &str, r: &str) -> Vec<AdditiveShare<Boolean, N>>
where
    Boolean: Vectorizable<N, Array = A>,
    A: Serializable,
{
    split_rows(l, N / 8)
        .iter()
        .zip(split_rows(r, N / 8).iter())
        .map(|(a, b)| AdditiveShare::<Boolean, N>::new_arr(from_raw::<A>(a), from_raw::<A>(b)))
        .collect()
}

fn ba_shares<B>(l: &str, r: &str, row_bytes: usize) -> Vec<AdditiveShare<B>>
where
    B: SharedValue + Vectorizable<1> + Serializable,
{
    split_rows(l, row_bytes)
        .iter()
        .zip(split_rows(r, row_bytes).iter())
        .map(|(a, b)| AdditiveShare::<B>::new(from_raw::<B>(a), from_raw::<B>(b)))
        .collect()
}

fn raw_bool<A, const N: usize>(v: &[AdditiveShare<Boolean, N>]) -> Vec<(Vec<u8>, Vec<u8>)>
where
    Boolean: Vectorizable<N, Array = A>,
    A: Serializable,
{
    v.iter().map(|s| (to_raw(s.left_arr()), to_raw(s.right_arr()))).collect()
}

fn raw_ba<B>(v: &[AdditiveShare<B>]) -> Vec<(Vec<u8>, Vec<u8>)>
where
    B: SharedValue + Vectorizable<1> + Serializable,
{
    v.iter().map(|s| (to_raw(&s.left()), to_raw(&s.right()))).collect()
}

macro_rules! tr_bool_to_ba {
    ($dst:ty, $srcarr:ty, $m:expr, $n:expr, $form:expr, $l:expr, $r:expr) => {{
        let src: Vec<AdditiveShare<Boolean, $n>> = bool_shares::<$srcarr, $n>($l, $r);
        let res: Result<Vec<AdditiveShare<$dst>>, LengthError> = match $form {
            "arr" => {
                let src: [AdditiveShare<Boolean, $n>; $m] = to_arr(src);
                let mut dst: [AdditiveShare<$dst>; $n] = std::array::from_fn(|_| AdditiveShare::<$dst>::ZERO);
                dst.transpose_from(&src).unwrap_infallible();
                Ok(dst.to_vec())
            }
            "shim" => {
                let bd = BitDecomposed::new(src);
                let mut dst: Vec<AdditiveShare<$dst>> = vec![];
                dst.transpose_from(&bd).map(|()| dst)
            }
            f => panic!("harness: unknown form {f}"),
        };
        show_pairs(res.map(|v| raw_ba(&v)))
    }};
}

macro_rules! tr_ba_to_bool {
    ($src:ty, $dstarr:ty, $m:expr, $n:expr, $form:expr, $l:expr, $r:expr) => {{
        let src: Vec<AdditiveShare<$src>> = ba_shares::<$src>($l, $r, $n / 8);
        let src: [AdditiveShare<$src>; $m] = to_arr(src);
        let out: Vec<AdditiveShare<Boolean, $m>> = match $form {
            "arr" => {
                let mut dst: [AdditiveShare<Boolean, $m>; $n] = std::array::from_fn(|_| AdditiveShare::<Boolean, $m>::ZERO);
                dst.transpose_from(&src).unwrap_infallible();
                dst.to_vec()
            }
            "shim" => {
                let mut dst: BitDecomposed<AdditiveShare<Boolean, $m>> = BitDecomposed::default();
                dst.transpose_from(&src).unwrap_infallible();
                dst.iter().cloned().collect()
            }
            f => panic!("harness: unknown form {f}"),
        };
        show_pairs(Ok(raw_bool::<$dstarr, $m>(&out)))
    }};
}

macro_rules! tr_ba_fn_to_bool {
    ($src:ty, $dstarr:ty, $m:expr, $n:expr, $form:expr, $l:expr, $r:expr) => {{
        let src: Vec<AdditiveShare<$src>> = ba_shares::<$src>($l, $r, $n / 8);
        assert_eq!(src.len(), $m, "harness: wrong number of source rows");
        let f = |i: usize| src[i].clone();
        let fr: &dyn Fn(usize) -> AdditiveShare<$src> = &f;
        let out: Vec<AdditiveShare<Boolean, $m>> = match $form {
            "arr" => {
                let mut dst: [AdditiveShare<Boolean, $m>; $n] = std::array::from_fn(|_| AdditiveShare::<Boolean, $m>::ZERO);
                dst.transpose_from(fr).unwrap_infallible();
                dst.to_vec()
            }
            "shim" => {
                let mut dst: BitDecomposed<AdditiveShare<Boolean, $m>> = BitDecomposed::default();
                dst.transpose_from(fr).unwrap_infallible();
                dst.iter().cloned().collect()
            }
            f => panic!("harness: unknown form {f}"),
        };
        show_pairs(Ok(raw_bool::<$dstarr, $m>(&out)))
    }};
}

macro_rules! tr_ba_to_bool_small {
    ($src:ty, $dstarr:ty, $m:expr, $n:expr, $form:expr, $l:expr, $r:expr) => {{
        let src: Vec<AdditiveShare<$src>> = ba_shares::<$src>($l, $r, ($n + 7) / 8);
        let res: Result<Vec<AdditiveShare<Boolean, $m>>, LengthError> = match $form {
            "arr" => {
                let src: [AdditiveShare<$src>; $m] = to_arr(src);
                let mut dst: [AdditiveShare<Boolean, $m>; ($n + 7) / 8 * 8] =
                    std::array::from_fn(|_| AdditiveShare::<Boolean, $m>::ZERO);
                dst.transpose_from(&src).unwrap_infallible();
                Ok(dst.to_vec())
            }
            "shim" => {
                let src: [AdditiveShare<$src>; $m] = to_arr(src);
                let mut dst: BitDecomposed<AdditiveShare<Boolean, $m>> = BitDecomposed::default();
                dst.transpose_from(&src).unwrap_infallible();
                Ok(dst.iter().cloned().collect())
            }
            "shimvec" => {
                let mut dst: BitDecomposed<AdditiveShare<Boolean, $m>> = BitDecomposed::default();
                dst.transpose_from(&src).map(|()| dst.iter().cloned().collect())
            }
            f => panic!("harness: unknown form {f}"),
        };
        show_pairs(res.map(|v| raw_bool::<$dstarr, $m>(&v)))
    }};
}

macro_rules! tr_aggregation {
    ($dstarr:ty, $srcarr:ty, $m:expr, $n:expr, $bits:expr, $l:expr, $r:expr) => {{
        let b: usize = $bits.parse().unwrap();
        let all: Vec<AdditiveShare<Boolean, $n>> = bool_shares::<$srcarr, $n>($l, $r);
        assert_eq!(all.len(), b * $m, "harness: wrong amount of data");
        // request layout: bit-major (b matrices of M rows); the source is indexed [row][bit]
        let src: Vec<BitDecomposed<AdditiveShare<Boolean, $n>>> =
            (0..$m).map(|row| BitDecomposed::new((0..b).map(|bit| all[bit * $m + row].clone()))).collect();
        let mut dst: Vec<BitDecomposed<AdditiveShare<Boolean, $m>>> = vec![];
        dst.transpose_from(src.as_slice()).unwrap_infallible();
        assert_eq!(dst.len(), $n);
        let mut out: Vec<AdditiveShare<Boolean, $m>> = vec![];
        for bit in 0..b {
            for row in 0..$n {
                out.push(dst[row][bit].clone());
            }
        }
        show_pairs(Ok(raw_bool::<$dstarr, $m>(&out)))
    }};
}

/// The impls the harness can drive — must mirror the `impl_transpose_*!` invocations of transpose.rs
/// (the model's list is regenerated from the source; `c09.tr-list` compares the two).
const TR_IMPLS: &[(&str, usize, usize)] = &[
    ("ba_to_ba", 64, 64), ("ba_to_ba", 256, 256),
    ("bool_to_ba", 256, 256), ("bool_to_ba_small", 8, 256), ("bool_to_ba", 16, 256), ("bool_to_ba", 16, 32),
    ("bool_to_ba", 32, 256), ("bool_to_ba_small", 8, 32), ("bool_to_ba_small", 32, 32), ("bool_to_ba_small", 8, 8),
    ("bool_to_ba", 16, 16), ("bool_to_ba_small", 8, 16),
    ("ba_to_bool", 256, 64), ("ba_fn_to_bool", 256, 64),
    ("ba_to_bool_small", 256, 32), ("ba_to_bool_small", 256, 16), ("ba_to_bool_small", 256, 8),
    ("ba_to_bool_small", 256, 5), ("ba_to_bool_small", 256, 3), ("ba_to_bool_small", 32, 8), ("ba_to_bool_small", 32, 3),
    ("ba_to_bool", 32, 32), ("ba_to_bool", 32, 16), ("ba_to_bool_small", 16, 8),
    ("aggregation_transpose", 256, 256), ("aggregation_transpose", 32, 256),
];

fn exec_tr(a: &[&str]) -> String {
    let (kind, m, n, form, l, r) = (a[0], a[1], a[2], a[3], a[4], a[5]);
    match (kind, m, n) {
        ("ba_to_ba", "64", "64") => tr_ba_to_ba!(BA64, BA64, 64, 64, form, l),
        ("ba_to_ba", "256", "256") => tr_ba_to_ba!(BA256, BA256, 256, 256, form, l),
        ("bool_to_ba", "256", "256") => tr_bool_to_ba!(BA256, BA256, 256, 256, form, l, r),
        ("bool_to_ba", "16", "256") => tr_bool_to_ba!(BA16, BA256, 16, 256, form, l, r),
        ("bool_to_ba", "16", "32") => tr_bool_to_ba!(BA16, BA32, 16, 32, form, l, r),
        ("bool_to_ba", "32", "256") => tr_bool_to_ba!(BA32, BA256, 32, 256, form, l, r),
        ("bool_to_ba", "16", "16") => tr_bool_to_ba!(BA16, BA16, 16, 16, form, l, r),
        ("bool_to_ba_small", "8", "256") => tr_bool_to_ba!(BA8, BA256, 8, 256, form, l, r),
        ("bool_to_ba_small", "8", "32") => tr_bool_to_ba!(BA8, BA32, 8, 32, form, l, r),
        ("bool_to_ba_small", "32", "32") => tr_bool_to_ba!(BA32, BA32, 32, 32, form, l, r),
        ("bool_to_ba_small", "8", "8") => tr_bool_to_ba!(BA8, BA8, 8, 8, form, l, r),
        ("bool_to_ba_small", "8", "16") => tr_bool_to_ba!(BA8, BA16, 8, 16, form, l, r),
        ("ba_to_bool", "256", "64") => tr_ba_to_bool!(BA64, BA256, 256, 64, form, l, r),
        ("ba_to_bool", "32", "32") => tr_ba_to_bool!(BA32, BA32, 32, 32, form, l, r),
        ("ba_to_bool", "32", "16") => tr_ba_to_bool!(BA16, BA32, 32, 16, form, l, r),
        ("ba_fn_to_bool", "256", "64") => tr_ba_fn_to_bool!(BA64, BA256, 256, 64, form, l, r),
        ("ba_to_bool_small", "256", "32") => tr_ba_to_bool_small!(BA32, BA256, 256, 32, form, l, r),
        ("ba_to_bool_small", "256", "16") => tr_ba_to_bool_small!(BA16, BA256, 256, 16, form, l, r),
        ("ba_to_bool_small", "256", "8") => tr_ba_to_bool_small!(BA8, BA256, 256, 8, form, l, r),
        ("ba_to_bool_small", "256", "5") => tr_ba_to_bool_small!(BA5, BA256, 256, 5, form, l, r),
        ("ba_to_bool_small", "256", "3") => tr_ba_to_bool_small!(BA3, BA256, 256, 3, form, l, r),
        ("ba_to_bool_small", "32", "8") => tr_ba_to_bool_small!(BA8, BA32, 32, 8, form, l, r),
        ("ba_to_bool_small", "32", "3") => tr_ba_to_bool_small!(BA3, BA32, 32, 3, form, l, r),
        ("ba_to_bool_small", "16", "8") => tr_ba_to_bool_small!(BA8, BA16, 16, 8, form, l, r),
        ("aggregation_transpose", "256", "256") => tr_aggregation!(BA256, BA256, 256, 256, form, l, r),
        ("aggregation_transpose", "32", "256") => tr_aggregation!(BA32, BA256, 32, 256, form, l, r),
        _ => panic!("harness: no such transpose impl {kind} {m}x{n}"),
    }
}

// ------------------------------------------------------------------------------------------------
// composite wire types: c09.vec / c09.pack / c09.info / c09.rep

fn vec_to_bytes<T: Wire + std::fmt::Debug + Send>(arg: &str) -> String {
    let rows: Vec<T> = if arg == "-" {
        vec![]
    } else {
        arg.split(';').map(|r| T::build(&mut r.split(':'))).collect()
    };
    hex(&ProtocolResult::to_bytes(&rows))
}

fn exec_vec(ty: &str, arg: &str) -> String {
    match ty {
        "share:BA8" => vec_to_bytes::<AdditiveShare<BA8>>(arg),
        "share:BA32" => vec_to_bytes::<AdditiveShare<BA32>>(arg),
        "share:BA3" => vec_to_bytes::<AdditiveShare<BA3>>(arg),
        "share:Fp32BitPrime" => vec_to_bytes::<AdditiveShare<Fp32BitPrime>>(arg),
        "share:Fp31" => vec_to_bytes::<AdditiveShare<Fp31>>(arg),
        "Prf" => vec_to_bytes::<PrfHybridReport<BA8, BA3>>(arg),
        other => panic!("harness: no Vec<{other}> result type"),
    }
}

/// `Shuffleable` is not imported at file level: its `new` would clash with `ReplicatedSecretSharing::new`.
mod shuf {
    use crate::protocol::ipa_prf::shuffle::Shuffleable;
    pub fn left<T: Shuffleable>(t: &T) -> T::Share {
        t.left()
    }
    pub fn right<T: Shuffleable>(t: &T) -> T::Share {
        t.right()
    }
    pub fn new<T: Shuffleable>(l: T::Share, r: T::Share) -> T {
        T::new(l, r)
    }
}

fn h128(s: &str) -> u128 {
    u128::from_str_radix(s, 16).unwrap()
}

fn pack_hyb<BK, V>(op: &str, a: &[&str]) -> String
where
    BK: crate::ff::boolean_array::BooleanArray + U128Conversions + Vectorizable<1>,
    V: crate::ff::boolean_array::BooleanArray + U128Conversions + Vectorizable<1>,
{
    type R<BK, V> = IndistinguishableHybridReport<BK, V>;
    match op {
        "lr" => {
            let f: Vec<u128> = a.iter().map(|x| h128(x)).collect();
            let r = R::<BK, V> {
                match_key: AdditiveShare::new(BA64::truncate_from(f[0]), BA64::truncate_from(f[1])),
                value: AdditiveShare::new(V::truncate_from(f[2]), V::truncate_from(f[3])),
                breakdown_key: AdditiveShare::new(BK::truncate_from(f[4]), BK::truncate_from(f[5])),
            };
            format!("{:x} {:x}", shuf::left(&r).as_u128(), shuf::right(&r).as_u128())
        }
        "new" => {
            let r: R<BK, V> = shuf::new(BA112::truncate_from(h128(a[0])), BA112::truncate_from(h128(a[1])));
            format!(
                "{:x}:{:x}:{:x}:{:x}:{:x}:{:x}",
                r.match_key.left().as_u128(), r.match_key.right().as_u128(),
                r.value.left().as_u128(), r.value.right().as_u128(),
                r.breakdown_key.left().as_u128(), r.breakdown_key.right().as_u128()
            )
        }
        _ => panic!("harness: unknown pack op {op}"),
    }
}

fn pack_agg<BK, V>(op: &str, a: &[&str]) -> String
where
    BK: crate::ff::boolean_array::BooleanArray + U128Conversions + Vectorizable<1>,
    V: crate::ff::boolean_array::BooleanArray + U128Conversions + Vectorizable<1>,
{
    type R<BK, V> = AggregateableHybridReport<BK, V>;
    match op {
        "lr" => {
            let f: Vec<u128> = a.iter().map(|x| h128(x)).collect();
            let r = R::<BK, V> {
                match_key: (),
                value: AdditiveShare::new(V::truncate_from(f[0]), V::truncate_from(f[1])),
                breakdown_key: AdditiveShare::new(BK::truncate_from(f[2]), BK::truncate_from(f[3])),
            };
            format!("{:x} {:x}", shuf::left(&r).as_u128(), shuf::right(&r).as_u128())
        }
        "new" => {
            let r: R<BK, V> = shuf::new(BA32::truncate_from(h128(a[0])), BA32::truncate_from(h128(a[1])));
            format!(
                "{:x}:{:x}:{:x}:{:x}",
                r.value.left().as_u128(), r.value.right().as_u128(),
                r.breakdown_key.left().as_u128(), r.breakdown_key.right().as_u128()
            )
        }
        _ => panic!("harness: unknown pack op {op}"),
    }
}

const PACK_HYB: &[(&str, &str)] = &[("BA8", "BA3"), ("BA5", "BA3"), ("BA32", "BA16"), ("BA20", "BA20"), ("BA8", "BA32"), ("BA32", "BA32")];
const PACK_AGG: &[(&str, &str)] = &[("BA8", "BA3"), ("BA16", "BA16"), ("BA8", "BA20"), ("BA5", "BA3"), ("BA32", "BA8")];

fn exec_pack(a: &[&str]) -> String {
    let (kind, bk, v, op, rest) = (a[0], a[1], a[2], a[3], &a[4..]);
    match (kind, bk, v) {
        ("hyb", "BA8", "BA3") => pack_hyb::<BA8, BA3>(op, rest),
        ("hyb", "BA5", "BA3") => pack_hyb::<BA5, BA3>(op, rest),
        ("hyb", "BA32", "BA16") => pack_hyb::<BA32, BA16>(op, rest),
        ("hyb", "BA20", "BA20") => pack_hyb::<BA20, BA20>(op, rest),
        ("hyb", "BA8", "BA32") => pack_hyb::<BA8, BA32>(op, rest),
        ("hyb", "BA32", "BA32") => pack_hyb::<BA32, BA32>(op, rest),
        ("agg", "BA8", "BA3") => pack_agg::<BA8, BA3>(op, rest),
        ("agg", "BA16", "BA16") => pack_agg::<BA16, BA16>(op, rest),
        ("agg", "BA8", "BA20") => pack_agg::<BA8, BA20>(op, rest),
        ("agg", "BA5", "BA3") => pack_agg::<BA5, BA3>(op, rest),
        ("agg", "BA32", "BA8") => pack_agg::<BA32, BA8>(op, rest),
        _ => panic!("harness: no such packing instance {kind} {bk} {v}"),
    }
}

fn conv_info(a: &[&str]) -> HybridConversionInfo {
    HybridConversionInfo {
        key_id: u8::from_str_radix(a[0], 16).unwrap(),
        conversion_site_domain: String::from_utf8(unhex(a[1])).expect("harness: domain must be UTF-8"),
        timestamp: u64::from_str_radix(a[2], 16).unwrap(),
        epsilon: f64::from_bits(u64::from_str_radix(a[3], 16).unwrap()),
        sensitivity: f64::from_bits(u64::from_str_radix(a[4], 16).unwrap()),
    }
}

fn show_conv(c: &HybridConversionInfo) -> String {
    format!(
        "{:x} {} {:x} {:x} {:x}",
        c.key_id, hex(c.conversion_site_domain.as_bytes()), c.timestamp, c.epsilon.to_bits(), c.sensitivity.to_bits()
    )
}

/// error or panic on malformed input are both "rejected" for C09 (which one it is belongs to C10/C17)
fn rej_on_panic(f: impl FnOnce() -> Option<String>) -> String {
    match guarded(f) {
        Ok(Some(s)) => format!("ok {s}"),
        Ok(None) | Err(_) => "rej".into(),
    }
}

fn exec_info(a: &[&str]) -> String {
    match (a[0], a[1]) {
        ("imp", "en") => {
            let i = HybridImpressionInfo::new(u8::from_str_radix(a[2], 16).unwrap());
            let b = i.to_bytes();
            assert_eq!(b.len(), i.byte_len());
            hex(&b)
        }
        ("imp", "de") => {
            let b = unhex(a[2]);
            rej_on_panic(|| HybridImpressionInfo::from_bytes(&b).ok().map(|i| format!("{:x} {}", i.key_id, hex(&i.to_bytes()))))
        }
        ("conv", "en") => {
            let c = conv_info(&a[2..]);
            let b = c.to_bytes();
            assert_eq!(b.len(), c.byte_len());
            hex(&b)
        }
        ("conv", "de") => {
            let b = unhex(a[2]);
            rej_on_panic(|| HybridConversionInfo::from_bytes(&b).ok().map(|c| format!("{} {}", show_conv(&c), hex(&c.to_bytes()))))
        }
        _ => panic!("harness: unknown info request"),
    }
}

fn exec_rep(a: &[&str]) -> String {
    let mk = |l: &str, r: &str| AdditiveShare::<BA64>::new(BA64::truncate_from(h128(l)), BA64::truncate_from(h128(r)));
    match (a[0], a[1]) {
        ("imp", "en") => {
            let r = HybridImpressionReport::<BA8> {
                match_key: mk(a[2], a[3]),
                breakdown_key: AdditiveShare::new(BA8::truncate_from(h128(a[4])), BA8::truncate_from(h128(a[5]))),
                info: HybridImpressionInfo::new(u8::from_str_radix(a[6], 16).unwrap()),
            };
            let mut buf = Vec::new();
            r.serialize(&mut buf);
            hex(&buf)
        }
        ("imp", "de") => {
            let b = bytes::Bytes::from(unhex(a[2]));
            rej_on_panic(|| {
                HybridImpressionReport::<BA8>::deserialize(&b).ok().map(|r| {
                    let mut ls = vec![];
                    r.match_key.leaves(&mut ls);
                    r.breakdown_key.leaves(&mut ls);
                    let mut buf = Vec::new();
                    r.serialize(&mut buf);
                    format!("{} {:x} {}", ls.join(":"), r.info.key_id, hex(&buf))
                })
            })
        }
        ("conv", "en") => {
            let r = HybridConversionReport::<BA3> {
                match_key: mk(a[2], a[3]),
                value: AdditiveShare::new(BA3::truncate_from(h128(a[4])), BA3::truncate_from(h128(a[5]))),
                info: conv_info(&a[6..]),
            };
            let mut buf = Vec::new();
            r.serialize(&mut buf);
            hex(&buf)
        }
        ("conv", "de") => {
            let b = bytes::Bytes::from(unhex(a[2]));
            rej_on_panic(|| {
                HybridConversionReport::<BA3>::deserialize(&b).ok().map(|r| {
                    let mut ls = vec![];
                    r.match_key.leaves(&mut ls);
                    r.value.leaves(&mut ls);
                    let mut buf = Vec::new();
                    r.serialize(&mut buf);
                    format!("{} {} {}", ls.join(":"), show_conv(&r.info), hex(&buf))
                })
            })
        }
        _ => panic!("harness: unknown report request"),
    }
}

pub fn exec(req: &str) -> String {
    let t: Vec<&str> = req.split(' ').collect();
    match t[0] {
        "c09.vec" => exec_vec(t[1], t[2]),
        "c09.pack" => exec_pack(&t[1..]),
        "c09.info" => exec_info(&t[1..]),
        "c09.rep" => exec_rep(&t[1..]),
        "c09.tr" => exec_tr(&t[1..]),
        "c09.tr-list" => TR_IMPLS.iter().map(|(k, m, n)| format!("{k}:{m}x{n}")).collect::<Vec<_>>().join(","),
        "c09.blk" | "c09.de" | "c09.en" => exec_serde(t[0], t[1], &t[2..]),
        "c09.rp" => exec_rp(t[1], &t[2..]),
        _ => panic!("harness: unknown request {req}"),
    }
}

// ------------------------------------------------------------------------------------------------
// generators

#[derive(Clone, Copy)]
struct LeafInfo {
    name: &'static str,
    bytes: usize,
    /// exclusive bound of the canonical little-endian integer, as little-endian bytes (33 bytes)
    bound: [u8; 33],
}

fn bound_pow2(bits: usize) -> [u8; 33] {
    let mut b = [0u8; 33];
    b[bits / 8] = 1 << (bits % 8);
    b
}

fn bound_u128(p: u128) -> [u8; 33] {
    let mut b = [0u8; 33];
    b[..16].copy_from_slice(&p.to_le_bytes());
    b
}

/// group order of ed25519 / Ristretto, little-endian
const ELL: [u8; 32] = [
    0xed, 0xd3, 0xf5, 0x5c, 0x1a, 0x63, 0x12, 0x58, 0xd6, 0x9c, 0xf7, 0xa2, 0xde, 0xf9, 0xde, 0x14,
    0, 0, 0, 0, 0, 0, 0, 0, 0, 0, 0, 0, 0, 0, 0, 0x10,
];

fn leaf_infos() -> Vec<LeafInfo> {
    fn size<T: Serializable>() -> usize {
        T::Size::USIZE
    }
    let mut v = vec![
        LeafInfo { name: "Fp31", bytes: size::<Fp31>(), bound: bound_u128(u128::from(Fp31::PRIME)) },
        LeafInfo { name: "Fp32BitPrime", bytes: size::<Fp32BitPrime>(), bound: bound_u128(u128::from(Fp32BitPrime::PRIME)) },
        LeafInfo { name: "Fp61BitPrime", bytes: size::<Fp61BitPrime>(), bound: bound_u128(u128::from(Fp61BitPrime::PRIME)) },
        LeafInfo { name: "Boolean", bytes: size::<Boolean>(), bound: bound_u128(2) },
    ];
    macro_rules! bits_leaf {
        ($($t:ident),*) => {$(
            v.push(LeafInfo { name: stringify!($t), bytes: size::<$t>(), bound: bound_pow2(<$t as SharedValue>::BITS as usize) });
        )*};
    }
    bits_leaf!(Gf2, Gf3Bit, Gf8Bit, Gf9Bit, Gf20Bit, Gf32Bit, Gf40Bit, BA3, BA4, BA5, BA6, BA7, BA8, BA16, BA20, BA32, BA64, BA96, BA112, BA144, BA256);
    let mut ell = [0u8; 33];
    ell[..32].copy_from_slice(&ELL);
    v.push(LeafInfo { name: "Fp25519", bytes: 32, bound: ell });
    v
}

/// little-endian comparison a < b
fn le_lt(a: &[u8], b: &[u8]) -> bool {
    let n = a.len().max(b.len());
    for i in (0..n).rev() {
        let x = a.get(i).copied().unwrap_or(0);
        let y = b.get(i).copied().unwrap_or(0);
        if x != y {
            return x < y;
        }
    }
    false
}

/// little-endian a - k (k small), a + k
fn le_add(a: &[u8], k: i32, n: usize) -> Vec<u8> {
    let mut out = vec![0u8; n];
    let mut carry = i64::from(k);
    for i in 0..n {
        let x = i64::from(a.get(i).copied().unwrap_or(0)) + carry;
        out[i] = x.rem_euclid(256) as u8;
        carry = x.div_euclid(256);
    }
    out
}

fn le_to_hexint(bytes: &[u8]) -> String {
    let bits: Vec<bool> = (0..bytes.len() * 8).map(|i| (bytes[i / 8] >> (i % 8)) & 1 == 1).collect();
    bits_to_hex(&bits)
}

/// encodings around the canonical range of one leaf: 0, 1, bound-1 (canonical); bound, bound+1, all-ones,
/// single padding bits (non-canonical where representable); random canonical and random raw patterns.
fn leaf_patterns(rng: &mut Rng, li: &LeafInfo, nrand: usize) -> (Vec<Vec<u8>>, Vec<Vec<u8>>) {
    let n = li.bytes;
    let mut canon: Vec<Vec<u8>> = vec![vec![0; n], le_add(&[], 1, n), le_add(&li.bound, -1, n), le_add(&li.bound, -2, n)];
    let mut raw: Vec<Vec<u8>> = vec![];
    // bound, bound+1 when they fit in n bytes
    if li.bound[n..].iter().all(|b| *b == 0) {
        raw.push(le_add(&li.bound, 0, n));
        raw.push(le_add(&li.bound, 1, n));
    }
    raw.push(vec![0xff; n]);
    for bit in 0..n * 8 {
        let mut b = vec![0u8; n];
        b[bit / 8] |= 1 << (bit % 8);
        raw.push(b.clone());
        // the same bit on top of bound-1
        let mut c = le_add(&li.bound, -1, n);
        c[bit / 8] ^= 1 << (bit % 8);
        raw.push(c);
    }
    for _ in 0..nrand {
        let r = rng.bytes(n);
        raw.push(r.clone());
        // a random canonical value: clear high bits until below the bound
        let mut c = r;
        let mut top = n * 8;
        while !le_lt(&c, &li.bound) {
            top -= 1;
            c[top / 8] &= !(1 << (top % 8));
        }
        canon.push(c);
    }
    canon.retain(|c| le_lt(c, &li.bound));
    (canon, raw)
}

fn gen_small(_rng: &mut Rng, thorough: bool) -> Vec<String> {
    let mut out = vec![];
    let infos = leaf_infos();
    // every type of <= 2 bytes: ALL byte strings
    for li in &infos {
        match li.bytes {
            1 => {
                out.push(format!("c09.blk {} -", li.name));
                out.push(format!("c09.blk arr1:{} -", li.name));
                for hi in 0..=255u8 {
                    out.push(format!("c09.blk share:{} {}", li.name, hex(&[hi])));
                }
            }
            2 => {
                for hi in 0..=255u8 {
                    out.push(format!("c09.blk {} {}", li.name, hex(&[hi])));
                }
            }
            3 => {
                // the 20-bit types: all 2^24 in the thorough tier; in the quick tier every value of the top
                // byte with the middle byte in {00, 01, 7f, 80, ff}, and every middle byte with top byte 00/0f/10
                if thorough {
                    for top in 0..=255u8 {
                        for mid in 0..=255u8 {
                            out.push(format!("c09.blk {} {}", li.name, hex(&[mid, top])));
                        }
                    }
                } else {
                    for top in 0..=255u8 {
                        for mid in [0x00u8, 0x01, 0x7f, 0x80, 0xff] {
                            out.push(format!("c09.blk {} {}", li.name, hex(&[mid, top])));
                        }
                    }
                    for mid in 0..=255u8 {
                        for top in [0x00u8, 0x0f, 0x10] {
                            out.push(format!("c09.blk {} {}", li.name, hex(&[mid, top])));
                        }
                    }
                }
            }
            _ => {}
        }
    }
    out
}

/// `c09.de` request; inputs of Fp25519 holding an element >= the group order carry the marker
/// ` ge-order` (the class of known finding F9; computed here by plain comparison, ignored by `exec`).
fn de_req(li: &LeafInfo, ty: &str, elems: &[&[u8]]) -> String {
    let marker = if li.name == "Fp25519" && elems.iter().any(|e| !le_lt(e, &li.bound)) { " ge-order" } else { "" };
    format!("c09.de {ty} {}{marker}", hex(&elems.concat()))
}

fn gen_large(rng: &mut Rng, thorough: bool) -> Vec<String> {
    let mut out = vec![];
    let infos = leaf_infos();
    let nrand = if thorough { 200 } else { 12 };
    for li in &infos {
        let (canon, raw) = leaf_patterns(rng, li, nrand);
        let share_ty = format!("share:{}", li.name);
        // leaf itself
        for c in &canon {
            out.push(format!("c09.en {} {}", li.name, le_to_hexint(c)));
            out.push(de_req(li, li.name, &[c]));
            // every single-bit flip of a valid encoding
            for bit in 0..li.bytes * 8 {
                let mut f = c.clone();
                f[bit / 8] ^= 1 << (bit % 8);
                out.push(de_req(li, li.name, &[&f]));
            }
        }
        for r in &raw {
            out.push(de_req(li, li.name, &[r]));
        }
        // shares: every combination class (canonical/non-canonical) x (left/right)
        let pick = |rng: &mut Rng, v: &Vec<Vec<u8>>| v[rng.usize_below(v.len())].clone();
        let nshare = if thorough { 400 } else { 40 };
        for k in 0..nshare {
            let l = if k % 4 < 2 { pick(rng, &canon) } else { pick(rng, &raw) };
            let r = if k % 2 == 0 { pick(rng, &canon) } else { pick(rng, &raw) };
            out.push(de_req(li, &share_ty, &[&l, &r]));
            if k % 4 == 0 {
                out.push(format!("c09.en share:{} {}:{}", li.name, le_to_hexint(&l), le_to_hexint(&r)));
            }
        }
        // boundary shares: (p-1, p-1), (p-1, p), (p, p-1)
        let top = le_add(&li.bound, -1, li.bytes);
        out.push(de_req(li, &share_ty, &[&top, &top]));
        if li.bound[li.bytes..].iter().all(|b| *b == 0) {
            let p = le_add(&li.bound, 0, li.bytes);
            out.push(de_req(li, &share_ty, &[&top, &p]));
            out.push(de_req(li, &share_ty, &[&p, &top]));
        }
        // arrays: all canonical; exactly one corrupt element at every position (N = 16) or at first / last /
        // random positions (larger N)
        for n in [1usize, 16, 32, 64, 256] {
            if n * li.bytes > 2048 && !thorough {
                continue;
            }
            let reps = if thorough { 6 } else { 2 };
            for _ in 0..reps {
                let elems: Vec<Vec<u8>> = (0..n).map(|_| pick(rng, &canon)).collect();
                let arr_ty = format!("arr{n}:{}", li.name);
                let refs = |v: &Vec<Vec<u8>>| -> String { de_req(li, &arr_ty, &v.iter().map(Vec::as_slice).collect::<Vec<_>>()) };
                out.push(refs(&elems));
                out.push(format!(
                    "c09.en arr{n}:{} {}",
                    li.name,
                    elems.iter().map(|e| le_to_hexint(e)).collect::<Vec<_>>().join(":")
                ));
                let mut positions: Vec<usize> = if n <= 16 { (0..n).collect() } else { vec![0, 1, n / 2, n - 2, n - 1, rng.usize_below(n)] };
                positions.dedup();
                for pos in positions {
                    let mut e2 = elems.clone();
                    e2[pos] = pick(rng, &raw);
                    out.push(refs(&e2));
                }
            }
        }
    }
    gen_rp(rng, thorough, &mut out);
    out
}

/// RP25519: valid encodings (multiples of the base point), every single-bit flip of some of them,
/// field-level non-canonical integers (>= 2^255-19, high bit set), "negative" (odd) integers, random
/// strings and the two-byte-prefix family [b0, b1, 0, …, 0].
fn gen_rp(rng: &mut Rng, thorough: bool, out: &mut Vec<String>) {
    let ser = |p: RP25519| -> Vec<u8> {
        let mut buf = GenericArray::<u8, <RP25519 as Serializable>::Size>::default();
        p.serialize(&mut buf);
        buf.to_vec()
    };
    let push = |out: &mut Vec<String>, b: &[u8]| out.push(format!("c09.rp de {}", hex(b)));
    push(out, &[0u8; 32]);
    let mut valid: Vec<Vec<u8>> = vec![];
    for k in 1..=16u64 {
        valid.push(ser(RP25519::from(Fp25519::from(Scalar::from(k)))));
    }
    valid.push(ser(RP25519::from(-Fp25519::ONE)));
    for _ in 0..(if thorough { 200 } else { 20 }) {
        let mut it_s = [0u8; 32];
        it_s.copy_from_slice(&rng.bytes(32));
        valid.push(ser(RP25519::from(Fp25519::from(Scalar::from_bytes_mod_order(it_s)))));
    }
    for (i, v) in valid.iter().enumerate() {
        push(out, v);
        if i < (if thorough { 40 } else { 4 }) {
            for bit in 0..256 {
                let mut f = v.clone();
                f[bit / 8] ^= 1 << (bit % 8);
                push(out, &f);
            }
        }
    }
    // integers around the field prime 2^255 - 19 and with the unused top bit set
    let mut pm = [0xffu8; 32];
    pm[31] = 0x7f;
    for delta in -40i32..=2 {
        let mut b = le_add(&pm, 0, 32);
        b[0] = (0xed_i32 + delta).rem_euclid(256) as u8; // 2^255-19 = ed ff … 7f
        if 0xed + delta < 0 {
            continue;
        }
        push(out, &b);
    }
    push(out, &[0xff; 32]);
    for v in valid.iter().take(8) {
        let mut f = v.clone();
        f[31] |= 0x80;
        push(out, &f);
        f = v.clone();
        f[0] |= 1; // "negative" s
        push(out, &f);
    }
    for _ in 0..(if thorough { 2000 } else { 200 }) {
        push(out, &rng.bytes(32));
        let mut r = rng.bytes(32);
        r[31] &= 0x7f;
        r[0] &= 0xfe;
        push(out, &r);
    }
    let (n0, n1) = if thorough { (256u32, 256u32) } else { (256, 4) };
    for b1 in 0..n1 {
        for b0 in 0..n0 {
            let mut b = [0u8; 32];
            b[0] = b0 as u8;
            b[1] = if n1 == 256 { b1 as u8 } else { [0u8, 1, 0x80, 0xff][b1 as usize] };
            push(out, &b);
        }
    }
}

/// source matrices: all-zero, all-ones, every one-hot position (small shapes) or a spread of one-hot
/// positions incl. the corners (large shapes), random.
fn gen_transpose(rng: &mut Rng, thorough: bool) -> Vec<String> {
    let mut out = vec!["c09.tr-list".to_string()];
    for &(kind, m, n) in TR_IMPLS {
        let row_bytes = (n + 7) / 8;
        let mask_row = |row: &mut Vec<u8>| {
            if n % 8 != 0 {
                let last = row.len() - 1;
                row[last] &= (1u8 << (n % 8)) - 1;
            }
        };
        let mut mats: Vec<Vec<u8>> = vec![];
        mats.push(vec![0u8; m * row_bytes]);
        let mut ones = vec![];
        for _ in 0..m {
            let mut row = vec![0xffu8; row_bytes];
            mask_row(&mut row);
            ones.extend(row);
        }
        mats.push(ones);
        let mut hot: Vec<(usize, usize)> = vec![];
        if m * n <= 512 {
            for i in 0..m {
                for j in 0..n {
                    hot.push((i, j));
                }
            }
        } else {
            let edge = |d: usize| -> Vec<usize> {
                if thorough { vec![0, 1, 7, 8, 15, 16, d / 2, d - 2, d - 1] } else { vec![0, 7, 8, 16, d - 1] }
            };
            for &i in &edge(m) {
                for &j in &edge(n) {
                    if i < m && j < n {
                        hot.push((i, j));
                    }
                }
            }
            for _ in 0..(if thorough { 200 } else { 8 }) {
                hot.push((rng.usize_below(m), rng.usize_below(n)));
            }
            hot.sort_unstable();
            hot.dedup();
        }
        for (i, j) in hot {
            let mut mat = vec![0u8; m * row_bytes];
            mat[i * row_bytes + j / 8] |= 1 << (j % 8);
            mats.push(mat);
        }
        for _ in 0..(if thorough { 40 } else { 4 }) {
            let mut mat = vec![];
            for _ in 0..m {
                let mut row = rng.bytes(row_bytes);
                mask_row(&mut row);
                mat.extend(row);
            }
            mats.push(mat);
        }
        let forms: &[&str] = match kind {
            "ba_to_bool_small" => &["arr", "shim", "shimvec"],
            "aggregation_transpose" => &["1", "2"],
            _ => &["arr", "shim"],
        };
        for (idx, mat) in mats.iter().enumerate() {
            // the other share: a different matrix (the next one), so left/right mix-ups are visible
            let other = &mats[(idx + 1) % mats.len()];
            for form in forms {
                if kind == "aggregation_transpose" {
                    let b: usize = form.parse().unwrap();
                    if idx % 3 != 0 && m * n > 512 && !thorough {
                        continue;
                    }
                    let l: Vec<u8> = (0..b).flat_map(|k| mats[(idx + k) % mats.len()].clone()).collect();
                    let r: Vec<u8> = (0..b).flat_map(|k| mats[(idx + k + 1) % mats.len()].clone()).collect();
                    out.push(format!("c09.tr {kind} {m} {n} {form} {} {}", hex(&l), hex(&r)));
                } else if kind == "ba_to_ba" {
                    out.push(format!("c09.tr {kind} {m} {n} {form} {} -", hex(mat)));
                } else {
                    out.push(format!("c09.tr {kind} {m} {n} {form} {} {}", hex(mat), hex(other)));
                }
            }
        }
        // LengthErrors of the fallible shims: sources that are too short / too long / empty
        let fallible = match kind {
            "bool_to_ba" | "bool_to_ba_small" => Some("shim"),
            "ba_to_bool_small" => Some("shimvec"),
            _ => None,
        };
        if let Some(form) = fallible {
            let mut lens = vec![0usize, 1, m - 1];
            if m < 256 || form == "shimvec" {
                lens.push(m + 1);
                lens.push(2 * m);
            }
            for len in lens {
                let mat = &mats[mats.len() - 1];
                let data: Vec<u8> = mat.iter().cycle().take(len * row_bytes).copied().collect();
                out.push(format!("c09.tr {kind} {m} {n} {form} {} {}", hex(&data), hex(&data)));
            }
        }
    }
    out
}

fn gen_wire(rng: &mut Rng, thorough: bool) -> Vec<String> {
    let mut out = vec![];
    let p61 = u128::from(Fp61BitPrime::PRIME);
    let n = if thorough { 200 } else { 20 };
    // --- raw byte types and arrays of them
    for ty in ["Hash", "UniqueTag", "HashArr"] {
        let len = match ty { "Hash" => 32, "UniqueTag" => 16, _ => 14 * 32 };
        for pat in [vec![0u8; len], vec![0xff; len]] {
            out.push(format!("c09.de {ty} {}", hex(&pat)));
        }
        for _ in 0..n {
            let b = rng.bytes(len);
            out.push(format!("c09.de {ty} {}", hex(&b)));
            let leaves: Vec<String> = b.chunks(if ty == "UniqueTag" { 16 } else { 32 }).map(le_to_hexint).collect();
            out.push(format!("c09.en {ty} {}", leaves.join(":")));
        }
    }
    // --- proof arrays: canonical, and exactly one non-canonical element at every position
    for (ty, len) in [("ProofDiff", 15usize), ("ProofArr", PROOF_ARRAY_LEN)] {
        for rep in 0..(if thorough { 6 } else { 2 }) {
            let elems: Vec<u128> = (0..len)
                .map(|i| match (rep, i % 4) { (0, 0) => p61 - 1, (0, 1) => 0, (0, 2) => 1, _ => rng.next_u128() % p61 })
                .collect();
            let enc = |es: &[u128]| -> Vec<u8> { es.iter().flat_map(|e| (*e as u64).to_le_bytes()).collect() };
            out.push(format!("c09.de {ty} {}", hex(&enc(&elems))));
            out.push(format!("c09.en {ty} {}", elems.iter().map(|e| format!("{e:x}")).collect::<Vec<_>>().join(":")));
            for pos in 0..len {
                for bad in [p61, p61 + 1, u128::from(u64::MAX), 1u128 << 61, 1u128 << 63] {
                    if rep > 0 && bad != p61 && pos % 7 != 0 {
                        continue;
                    }
                    let mut e2 = elems.clone();
                    e2[pos] = bad;
                    out.push(format!("c09.de {ty} {}", hex(&enc(&e2))));
                }
            }
        }
    }
    // --- PrfHybridReport<BA8, BA3>: all value-share byte pairs for some match keys / breakdown keys
    let mks: Vec<u64> = vec![0, 1, u64::MAX, rng.next_u64(), rng.next_u64()];
    for (k, mk) in mks.iter().enumerate() {
        let bk = if k == 0 { [0u8, 0] } else { [rng.next_u64() as u8, rng.next_u64() as u8] };
        let step = if thorough || k == 0 { 1 } else { 37 };
        for v in (0..65536u32).step_by(step) {
            if k == 0 && !thorough && v % 256 >= 8 && (v >> 8) >= 8 && v % 5 != 0 {
                continue; // keep every pair with a canonical half and a fifth of the doubly non-canonical ones
            }
            let mut b = mk.to_le_bytes().to_vec();
            b.extend_from_slice(&(v as u16).to_le_bytes());
            b.extend_from_slice(&bk);
            out.push(format!("c09.de Prf {}", hex(&b)));
        }
        for v in 0..64u32 {
            out.push(format!("c09.en Prf {mk:x}:{:x}:{:x}:{:x}:{:x}", v % 8, v / 8, bk[0], bk[1]));
        }
    }
    // --- Vec<T>::to_bytes
    for (ty, bound, leaves) in [("share:BA8", 256u128, 2usize), ("share:BA32", 1 << 32, 2), ("share:BA3", 8, 2),
                                ("share:Fp32BitPrime", u128::from(Fp32BitPrime::PRIME), 2), ("share:Fp31", 31, 2), ("Prf", 0, 5)] {
        for rows in [0usize, 1, 2, 3, 16, 255, 256, 257] {
            if rows > 16 && !thorough && ty != "share:BA32" {
                continue;
            }
            if rows == 0 {
                out.push(format!("c09.vec {ty} -"));
                continue;
            }
            let row = |rng: &mut Rng| -> String {
                if ty == "Prf" {
                    format!("{:x}:{:x}:{:x}:{:x}:{:x}", rng.next_u64(), rng.below(8), rng.below(8), rng.below(256), rng.below(256))
                } else {
                    (0..leaves).map(|_| format!("{:x}", rng.next_u128() % bound)).collect::<Vec<_>>().join(":")
                }
            };
            let v: Vec<String> = (0..rows).map(|_| row(rng)).collect();
            out.push(format!("c09.vec {ty} {}", v.join(";")));
        }
    }
    // --- shuffle packing
    let bits = |n: &str| -> u32 { n[2..].parse().unwrap() };
    let mask = |b: u32| -> u128 { if b >= 128 { u128::MAX } else { (1u128 << b) - 1 } };
    for (kind, list, share) in [("hyb", PACK_HYB, 112u32), ("agg", PACK_AGG, 32u32)] {
        for (bk, v) in list {
            let ws: Vec<u32> = if kind == "hyb" { vec![64, bits(v), bits(bk)] } else { vec![bits(v), bits(bk)] };
            for rep in 0..(if thorough { 200 } else { 24 }) {
                let mut fields = vec![];
                for w in &ws {
                    for _side in 0..2 {
                        let x = match rep { 0 => 0, 1 => mask(*w), 2 => 1, 3 => 1u128 << (w - 1), _ => rng.next_u128() & mask(*w) };
                        fields.push(format!("{x:x}"));
                    }
                }
                out.push(format!("c09.pack {kind} {bk} {v} lr {}", fields.join(" ")));
                let (l, r) = match rep {
                    0 => (0, 0),
                    1 => (mask(share), mask(share)),
                    2 => (mask(share), 0),
                    _ => (rng.next_u128() & mask(share), rng.next_u128() & mask(share)),
                };
                out.push(format!("c09.pack {kind} {bk} {v} new {l:x} {r:x}"));
                // one-hot shares: every bit position lands in exactly one field
                if rep == 4 {
                    for b in 0..share {
                        out.push(format!("c09.pack {kind} {bk} {v} new {:x} {:x}", 1u128 << b, 1u128 << (share - 1 - b)));
                    }
                }
            }
        }
    }
    // --- Hybrid*Info
    for k in 0..=255u32 {
        out.push(format!("c09.info imp en {k:x}"));
        out.push(format!("c09.info imp de {k:02x}"));
        out.push(format!("c09.info imp de {k:02x}00"));
        out.push(format!("c09.info imp de {k:02x}{:02x}{:02x}", rng.below(256), rng.below(256)));
    }
    out.push("c09.info imp de -".into());
    let domains: Vec<Vec<u8>> = vec![
        vec![], b"a".to_vec(), b"https://www.example2.com".to_vec(), b"meta.com".to_vec(),
        "\u{e9}t\u{e9}.example".as_bytes().to_vec(), "\u{65e5}\u{672c}.jp".as_bytes().to_vec(), "\u{1f600}".as_bytes().to_vec(),
        vec![b'x'; 255], vec![b'y'; 1000], vec![0x7f], vec![0x01],
    ];
    let f64s: Vec<u64> = vec![0, 1.151f64.to_bits(), 0.95f64.to_bits(), (-0.0f64).to_bits(), f64::INFINITY.to_bits(),
                              f64::NAN.to_bits(), f64::MAX.to_bits(), f64::MIN_POSITIVE.to_bits(), 1, u64::MAX, 0x7ff8_0000_0000_0001];
    let mut convs: Vec<(u8, Vec<u8>, u64, u64, u64)> = vec![];
    for (i, d) in domains.iter().enumerate() {
        for j in 0..(if thorough { 12 } else { 3 }) {
            let ts = match j { 0 => 0, 1 => u64::MAX, _ => rng.next_u64() };
            convs.push(((i * 31 + j) as u8, d.clone(), ts, f64s[(i + j) % f64s.len()], f64s[(i + 2 * j + 3) % f64s.len()]));
        }
    }
    for (k, d, ts, e, sv) in &convs {
        out.push(format!("c09.info conv en {k:x} {} {ts:x} {e:x} {sv:x}", hex(d)));
        let mut b = d.clone();
        b.push(0);
        b.push(*k);
        b.extend_from_slice(&ts.to_be_bytes());
        b.extend_from_slice(&e.to_be_bytes());
        b.extend_from_slice(&sv.to_be_bytes());
        out.push(format!("c09.info conv de {}", hex(&b)));
        // trailing bytes, truncation, no delimiter, invalid UTF-8 in the domain
        let mut t = b.clone();
        t.push(0);
        out.push(format!("c09.info conv de {}", hex(&t)));
        t.extend_from_slice(&rng.bytes(3));
        out.push(format!("c09.info conv de {}", hex(&t)));
        out.push(format!("c09.info conv de {}", hex(&b[..b.len() - 1])));
        if d.len() < 300 {
            let nodelim: Vec<u8> = b.iter().map(|x| if *x == 0 { 1 } else { *x }).collect();
            out.push(format!("c09.info conv de {}", hex(&nodelim)));
            let mut bad = b.clone();
            bad.insert(0, 0xff);
            out.push(format!("c09.info conv de {}", hex(&bad)));
            let mut bad2 = b.clone();
            bad2.insert(0, 0xc0);
            bad2.insert(1, 0x80);
            out.push(format!("c09.info conv de {}", hex(&bad2)));
        }
        // plaintext conversion report: every BA3 share pair class
        for (vl, vr) in [(0u8, 0u8), (7, 7), (8, 0), (0, 8), (0xff, 1), ((*k) % 8, (*ts % 8) as u8)] {
            let mut rb = rng.bytes(16);
            rb.push(vl);
            rb.push(vr);
            rb.extend_from_slice(&b);
            out.push(format!("c09.rep conv de {}", hex(&rb)));
            if vl < 8 && vr < 8 {
                out.push(format!(
                    "c09.rep conv en {:x} {:x} {vl:x} {vr:x} {k:x} {} {ts:x} {e:x} {sv:x}",
                    rng.next_u64(), rng.next_u64(), hex(d)
                ));
            }
            rb.push(0);
            out.push(format!("c09.rep conv de {}", hex(&rb)));
        }
    }
    out.push("c09.info conv de -".into());
    out.push("c09.info conv de 00".into());
    // plaintext impression reports
    for rep in 0..(if thorough { 300 } else { 40 }) {
        let mut b = match rep { 0 => vec![0u8; 18], 1 => vec![0xff; 18], _ => rng.bytes(18) };
        let k = rng.below(256) as u8;
        b.push(k);
        out.push(format!("c09.rep imp de {}", hex(&b)));
        out.push(format!("c09.rep imp en {:x} {:x} {:x} {:x} {k:x}", rng.next_u64(), rng.next_u64(), rng.below(256), rng.below(256)));
        let mut t = b.clone();
        t.push(rng.below(256) as u8);
        out.push(format!("c09.rep imp de {}", hex(&t)));
        out.push(format!("c09.rep imp de {}", hex(&b[..18])));
        if rep < 19 {
            out.push(format!("c09.rep imp de {}", hex(&b[..rep])));
        }
    }
    out
}

#[test]
fn verif_c09_wire() {
    run_suite("c09_wire", gen_wire, exec);
}

// The query-string suite (c09_query) lives in hooks/server.rs: `net::http_serde` is private to `net`.

#[test]
fn verif_c09_transpose() {
    run_suite("c09_transpose", gen_transpose, exec);
}

#[test]
fn verif_c09_small() {
    run_suite("c09_small", gen_small, exec);
}

#[test]
fn verif_c09_large() {
    run_suite("c09_large", gen_large, exec);
}
