// Correspondence suites for property C09 (wire encodings round-trip and reject every non-canonical
// byte string; bit-matrix transposition / field packing are lossless inverses).
// Each suite is a #[test] fn named verif_c09_<suite>.
//
// Request grammar of the serde suites (c09_small, c09_large):
//   c09.blk <Ty> <suffix-hex|->   decode [b] ++ suffix for every b in 0..=255 (256 verdicts, run-length compressed)
//   c09.de  <Ty> <hex>            deserialize; `ok <leaves> <re-encoded hex>` | `err`
//   c09.en  <Ty> <leaves>         build the value from its leaves (hex, ':'-separated) and serialize
//   c09.rp  de <hex>              RP25519::deserialize; `ok <re-encoded hex>` | `err`
// <Ty> is a leaf type name, `share:<Leaf>` (AdditiveShare) or `arrN:<Leaf>` (StdArray<_, N>).
use curve25519_dalek::scalar::Scalar;
use generic_array::GenericArray;
use typenum::Unsigned;

use super::proto::*;
use crate::{
    ff::{
        ArrayAccess, Fp31, Fp32BitPrime, Fp61BitPrime, Gf2, Gf3Bit, Gf8Bit, Gf9Bit, Gf20Bit,
        Gf32Bit, Gf40Bit, PrimeField, Serializable, U128Conversions,
        boolean::Boolean,
        boolean_array::{
            BA3, BA4, BA5, BA6, BA7, BA8, BA16, BA20, BA32, BA64, BA96, BA112, BA144, BA256,
        },
        curve_points::RP25519,
        ec_prime_field::Fp25519,
    },
    error::{LengthError, UnwrapInfallible},
    secret_sharing::{
        BitDecomposed, SharedValue, StdArray, TransposeFrom, Vectorizable,
        replicated::{ReplicatedSecretSharing, semi_honest::AdditiveShare},
    },
};

// ------------------------------------------------------------------------------------------------
// values <-> leaves

/// A wire type of the serde suites: observable as a list of leaves (hex integers), constructible
/// from them *without* going through `deserialize`.
trait Wire: Serializable + Sized {
    fn leaves(&self, out: &mut Vec<String>);
    fn build(it: &mut dyn Iterator<Item = &str>) -> Self;
}

macro_rules! wire_u128 {
    ($($t:ty),*) => {$(
        impl Wire for $t {
            fn leaves(&self, out: &mut Vec<String>) {
                out.push(format!("{:x}", self.as_u128()));
            }
            fn build(it: &mut dyn Iterator<Item = &str>) -> Self {
                <$t>::truncate_from(u128::from_str_radix(it.next().unwrap(), 16).unwrap())
            }
        }
    )*};
}
wire_u128!(
    Fp31, Fp32BitPrime, Fp61BitPrime, Gf2, Gf3Bit, Gf8Bit, Gf9Bit, Gf20Bit, Gf32Bit, Gf40Bit, BA3,
    BA4, BA5, BA6, BA7, BA8, BA16, BA20, BA32, BA64, BA96, BA112
);

impl Wire for Boolean {
    fn leaves(&self, out: &mut Vec<String>) {
        out.push(format!("{:x}", self.as_u128()));
    }
    fn build(it: &mut dyn Iterator<Item = &str>) -> Self {
        Boolean::from(u128::from_str_radix(it.next().unwrap(), 16).unwrap() != 0)
    }
}

/// big-endian hex digits -> little-endian bits
fn hex_to_bits(s: &str, n: usize) -> Vec<bool> {
    let mut bits = Vec::with_capacity(n);
    for c in s.chars().rev() {
        let d = c.to_digit(16).unwrap();
        for k in 0..4 {
            bits.push((d >> k) & 1 == 1);
        }
    }
    assert!(bits.iter().skip(n).all(|b| !b), "harness: leaf does not fit {n} bits");
    bits.resize(n, false);
    bits
}

/// little-endian bits -> big-endian hex digits without leading zeros
fn bits_to_hex(bits: &[bool]) -> String {
    let mut digits = Vec::new();
    for chunk in bits.chunks(4) {
        let mut d = 0u32;
        for (k, b) in chunk.iter().enumerate() {
            d |= u32::from(*b) << k;
        }
        digits.push(std::char::from_digit(d, 16).unwrap());
    }
    while digits.len() > 1 && *digits.last().unwrap() == '0' {
        digits.pop();
    }
    digits.iter().rev().collect()
}

macro_rules! wire_bigba {
    ($($t:ty),*) => {$(
        impl Wire for $t {
            fn leaves(&self, out: &mut Vec<String>) {
                let n = <$t as SharedValue>::BITS as usize;
                let bits: Vec<bool> = (0..n).map(|i| bool::from(self.get(i).unwrap())).collect();
                out.push(bits_to_hex(&bits));
            }
            fn build(it: &mut dyn Iterator<Item = &str>) -> Self {
                let n = <$t as SharedValue>::BITS as usize;
                hex_to_bits(it.next().unwrap(), n).into_iter().map(Boolean::from).collect()
            }
        }
    )*};
}
wire_bigba!(BA144, BA256);

impl Wire for Fp25519 {
    fn leaves(&self, out: &mut Vec<String>) {
        let bytes = Scalar::from(*self).to_bytes();
        let bits: Vec<bool> = (0..256).map(|i| (bytes[i / 8] >> (i % 8)) & 1 == 1).collect();
        out.push(bits_to_hex(&bits));
    }
    fn build(it: &mut dyn Iterator<Item = &str>) -> Self {
        // by arithmetic: sum of 64-bit limbs times powers of 2^64
        let bits = hex_to_bits(it.next().unwrap(), 256);
        let base = Fp25519::from(Scalar::from(u64::MAX)) + Fp25519::ONE;
        let mut acc = Fp25519::ZERO;
        for limb in (0..4).rev() {
            let mut v = 0u64;
            for k in 0..64 {
                v |= u64::from(bits[64 * limb + k]) << k;
            }
            acc = acc * base + Fp25519::from(Scalar::from(v));
        }
        acc
    }
}

impl<V: Wire + SharedValue + Vectorizable<1>> Wire for AdditiveShare<V>
where
    AdditiveShare<V>: Serializable,
{
    fn leaves(&self, out: &mut Vec<String>) {
        self.left().leaves(out);
        self.right().leaves(out);
    }
    fn build(it: &mut dyn Iterator<Item = &str>) -> Self {
        let l = V::build(it);
        let r = V::build(it);
        AdditiveShare::new(l, r)
    }
}

impl<V: Wire + SharedValue, const N: usize> Wire for StdArray<V, N>
where
    StdArray<V, N>: Serializable,
{
    fn leaves(&self, out: &mut Vec<String>) {
        for v in self.clone() {
            v.leaves(out);
        }
    }
    fn build(it: &mut dyn Iterator<Item = &str>) -> Self {
        let v: Vec<V> = (0..N).map(|_| V::build(it)).collect();
        StdArray::try_from(v).ok().unwrap()
    }
}

// ------------------------------------------------------------------------------------------------
// executors

fn decode_entry<T: Wire>(bytes: &[u8]) -> Result<(String, Vec<u8>), ()> {
    let mut buf = GenericArray::<u8, T::Size>::default();
    assert_eq!(bytes.len(), buf.len(), "harness: wrong buffer length");
    buf.copy_from_slice(bytes);
    match T::deserialize(&buf) {
        Ok(v) => {
            let mut ls = vec![];
            v.leaves(&mut ls);
            let mut re = GenericArray::<u8, T::Size>::default();
            v.serialize(&mut re);
            Ok((ls.join(":"), re.to_vec()))
        }
        Err(_) => Err(()),
    }
}

fn rle(entries: &[String]) -> String {
    let mut out: Vec<String> = vec![];
    let mut i = 0;
    while i < entries.len() {
        let mut j = i;
        while j < entries.len() && entries[j] == entries[i] {
            j += 1;
        }
        if j - i == 1 {
            out.push(entries[i].clone());
        } else {
            out.push(format!("{}*{}", entries[i], j - i));
        }
        i = j;
    }
    out.join(",")
}

fn run<T: Wire>(op: &str, args: &[&str]) -> String {
    match op {
        "c09.blk" => {
            let suffix = unhex(args[0]);
            let mut entries = Vec::with_capacity(256);
            for b in 0..=255u8 {
                let mut bytes = vec![b];
                bytes.extend_from_slice(&suffix);
                entries.push(match decode_entry::<T>(&bytes) {
                    Ok((ls, re)) => {
                        if re == bytes {
                            ls
                        } else {
                            format!("{ls}!")
                        }
                    }
                    Err(()) => "e".into(),
                });
            }
            rle(&entries)
        }
        "c09.de" => match decode_entry::<T>(&unhex(args[0])) {
            Ok((ls, re)) => format!("ok {ls} {}", hex(&re)),
            Err(()) => "err".into(),
        },
        "c09.en" => {
            let mut it = args[0].split(':');
            let v = T::build(&mut it);
            assert!(it.next().is_none(), "harness: too many leaves");
            let mut buf = GenericArray::<u8, T::Size>::default();
            v.serialize(&mut buf);
            hex(&buf)
        }
        _ => panic!("harness: unknown op {op}"),
    }
}

/// (name, bytes, bound bits or 0 for "see prime") of every leaf type
macro_rules! for_leaves {
    ($mac:ident ! ( $($pre:tt)* )) => {
        $mac!($($pre)* Fp31, Fp32BitPrime, Fp61BitPrime, Boolean, Gf2, Gf3Bit, Gf8Bit, Gf9Bit, Gf20Bit,
              Gf32Bit, Gf40Bit, BA3, BA4, BA5, BA6, BA7, BA8, BA16, BA20, BA32, BA64, BA96, BA112, BA144,
              BA256, Fp25519)
    };
}

macro_rules! dispatch_leaf {
    ($leaf:expr, $op:expr, $args:expr, $wrap:ident; $($t:ident),*) => {
        match $leaf {
            $(stringify!($t) => run::<$wrap!($t)>($op, $args),)*
            other => panic!("harness: unknown leaf type {other}"),
        }
    };
}
macro_rules! w_id { ($t:ty) => { $t }; }
macro_rules! w_share { ($t:ty) => { AdditiveShare<$t> }; }
macro_rules! w_arr1 { ($t:ty) => { StdArray<$t, 1> }; }
macro_rules! w_arr16 { ($t:ty) => { StdArray<$t, 16> }; }
macro_rules! w_arr32 { ($t:ty) => { StdArray<$t, 32> }; }
macro_rules! w_arr64 { ($t:ty) => { StdArray<$t, 64> }; }
macro_rules! w_arr256 { ($t:ty) => { StdArray<$t, 256> }; }

fn exec_serde(op: &str, ty: &str, args: &[&str]) -> String {
    let (wrap, leaf) = match ty.split_once(':') {
        Some((w, l)) => (w, l),
        None => ("", ty),
    };
    match wrap {
        "" => for_leaves!(dispatch_leaf!(leaf, op, args, w_id;)),
        "share" => for_leaves!(dispatch_leaf!(leaf, op, args, w_share;)),
        "arr1" => for_leaves!(dispatch_leaf!(leaf, op, args, w_arr1;)),
        "arr16" => for_leaves!(dispatch_leaf!(leaf, op, args, w_arr16;)),
        "arr32" => for_leaves!(dispatch_leaf!(leaf, op, args, w_arr32;)),
        "arr64" => for_leaves!(dispatch_leaf!(leaf, op, args, w_arr64;)),
        "arr256" => for_leaves!(dispatch_leaf!(leaf, op, args, w_arr256;)),
        other => panic!("harness: unknown wrapper {other}"),
    }
}

fn exec_rp(op: &str, args: &[&str]) -> String {
    match op {
        "de" => {
            let b = unhex(args[0]);
            let mut buf = GenericArray::<u8, <RP25519 as Serializable>::Size>::default();
            buf.copy_from_slice(&b);
            match RP25519::deserialize(&buf) {
                Ok(p) => {
                    let mut re = GenericArray::<u8, <RP25519 as Serializable>::Size>::default();
                    p.serialize(&mut re);
                    format!("ok {}", hex(&re))
                }
                Err(_) => "err".into(),
            }
        }
        _ => panic!("harness: unknown op {op}"),
    }
}

// ------------------------------------------------------------------------------------------------
// transposes: c09.tr <kind> <M> <N> <form> <left-hex> <right-hex|->

fn from_raw<B: Serializable>(b: &[u8]) -> B {
    B::deserialize(GenericArray::from_slice(b)).unwrap()
}

fn to_raw<B: Serializable>(b: &B) -> Vec<u8> {
    let mut buf = GenericArray::<u8, B::Size>::default();
    b.serialize(&mut buf);
    buf.to_vec()
}

fn split_rows(h: &str, row_bytes: usize) -> Vec<Vec<u8>> {
    unhex(h).chunks(row_bytes).map(<[u8]>::to_vec).collect()
}

fn show_pairs(res: Result<Vec<(Vec<u8>, Vec<u8>)>, LengthError>) -> String {
    match res {
        Ok(v) => {
            let l: Vec<u8> = v.iter().flat_map(|p| p.0.clone()).collect();
            let r: Vec<u8> = v.iter().flat_map(|p| p.1.clone()).collect();
            format!("{} {}", hex(&l), hex(&r))
        }
        Err(e) => format!("err {} {}", e.expected, e.actual),
    }
}

fn to_arr<T, const N: usize>(v: Vec<T>) -> [T; N] {
    v.try_into().ok().expect("harness: wrong number of source rows for the array form")
}

macro_rules! tr_ba_to_ba {
    ($dst:ty, $src:ty, $m:expr, $n:expr, $form:expr, $l:expr) => {{
        let rows: Vec<$src> = split_rows($l, $n / 8).iter().map(|r| from_raw::<$src>(r)).collect();
        let src: [$src; $m] = to_arr(rows);
        let out: Vec<$dst> = match $form {
            "arr" => {
                let mut dst = [<$dst>::ZERO; $n];
                dst.transpose_from(&src).unwrap_infallible();
                dst.to_vec()
            }
            "shim" => {
                let mut dst: Vec<$dst> = vec![];
                dst.transpose_from(&src).unwrap_infallible();
                dst
            }
            f => panic!("harness: unknown form {f}"),
        };
        hex(&out.iter().flat_map(|b| to_raw(b)).collect::<Vec<u8>>())
    }};
}

fn bool_shares<A, const N: usize>(l: &str, r: &str) -> Vec<AdditiveShare<Boolean, N>>
where
    Boolean: Vectorizable<N, Array = A>,
    A: Serializable,
{
    split_rows(l, N / 8)
        .iter()
        .zip(split_rows(r, N / 8).iter())
        .map(|(a, b)| AdditiveShare::<Boolean, N>::new_arr(from_raw::<A>(a), from_raw::<A>(b)))
        .collect()
}

fn ba_shares<B>(l: &str, r: &str, row_bytes: usize) -> Vec<AdditiveShare<B>>
where
    B: SharedValue + Vectorizable<1> + Serializable,
{
    split_rows(l, row_bytes)
        .iter()
        .zip(split_rows(r, row_bytes).iter())
        .map(|(a, b)| AdditiveShare::<B>::new(from_raw::<B>(a), from_raw::<B>(b)))
        .collect()
}

fn raw_bool<A, const N: usize>(v: &[AdditiveShare<Boolean, N>]) -> Vec<(Vec<u8>, Vec<u8>)>
where
    Boolean: Vectorizable<N, Array = A>,
    A: Serializable,
{
    v.iter().map(|s| (to_raw(s.left_arr()), to_raw(s.right_arr()))).collect()
}

fn raw_ba<B>(v: &[AdditiveShare<B>]) -> Vec<(Vec<u8>, Vec<u8>)>
where
    B: SharedValue + Vectorizable<1> + Serializable,
{
    v.iter().map(|s| (to_raw(&s.left()), to_raw(&s.right()))).collect()
}

macro_rules! tr_bool_to_ba {
    ($dst:ty, $srcarr:ty, $m:expr, $n:expr, $form:expr, $l:expr, $r:expr) => {{
        let src: Vec<AdditiveShare<Boolean, $n>> = bool_shares::<$srcarr, $n>($l, $r);
        let res: Result<Vec<AdditiveShare<$dst>>, LengthError> = match $form {
            "arr" => {
                let src: [AdditiveShare<Boolean, $n>; $m] = to_arr(src);
                let mut dst: [AdditiveShare<$dst>; $n] = std::array::from_fn(|_| AdditiveShare::<$dst>::ZERO);
                dst.transpose_from(&src).unwrap_infallible();
                Ok(dst.to_vec())
            }
            "shim" => {
                let bd = BitDecomposed::new(src);
                let mut dst: Vec<AdditiveShare<$dst>> = vec![];
                dst.transpose_from(&bd).map(|()| dst)
            }
            f => panic!("harness: unknown form {f}"),
        };
        show_pairs(res.map(|v| raw_ba(&v)))
    }};
}

macro_rules! tr_ba_to_bool {
    ($src:ty, $dstarr:ty, $m:expr, $n:expr, $form:expr, $l:expr, $r:expr) => {{
        let src: Vec<AdditiveShare<$src>> = ba_shares::<$src>($l, $r, $n / 8);
        let src: [AdditiveShare<$src>; $m] = to_arr(src);
        let out: Vec<AdditiveShare<Boolean, $m>> = match $form {
            "arr" => {
                let mut dst: [AdditiveShare<Boolean, $m>; $n] = std::array::from_fn(|_| AdditiveShare::<Boolean, $m>::ZERO);
                dst.transpose_from(&src).unwrap_infallible();
                dst.to_vec()
            }
            "shim" => {
                let mut dst: BitDecomposed<AdditiveShare<Boolean, $m>> = BitDecomposed::default();
                dst.transpose_from(&src).unwrap_infallible();
                dst.iter().cloned().collect()
            }
            f => panic!("harness: unknown form {f}"),
        };
        show_pairs(Ok(raw_bool::<$dstarr, $m>(&out)))
    }};
}

macro_rules! tr_ba_fn_to_bool {
    ($src:ty, $dstarr:ty, $m:expr, $n:expr, $form:expr, $l:expr, $r:expr) => {{
        let src: Vec<AdditiveShare<$src>> = ba_shares::<$src>($l, $r, $n / 8);
        assert_eq!(src.len(), $m, "harness: wrong number of source rows");
        let f = |i: usize| src[i].clone();
        let fr: &dyn Fn(usize) -> AdditiveShare<$src> = &f;
        let out: Vec<AdditiveShare<Boolean, $m>> = match $form {
            "arr" => {
                let mut dst: [AdditiveShare<Boolean, $m>; $n] = std::array::from_fn(|_| AdditiveShare::<Boolean, $m>::ZERO);
                dst.transpose_from(fr).unwrap_infallible();
                dst.to_vec()
            }
            "shim" => {
                let mut dst: BitDecomposed<AdditiveShare<Boolean, $m>> = BitDecomposed::default();
                dst.transpose_from(fr).unwrap_infallible();
                dst.iter().cloned().collect()
            }
            f => panic!("harness: unknown form {f}"),
        };
        show_pairs(Ok(raw_bool::<$dstarr, $m>(&out)))
    }};
}

macro_rules! tr_ba_to_bool_small {
    ($src:ty, $dstarr:ty, $m:expr, $n:expr, $form:expr, $l:expr, $r:expr) => {{
        let src: Vec<AdditiveShare<$src>> = ba_shares::<$src>($l, $r, ($n + 7) / 8);
        let res: Result<Vec<AdditiveShare<Boolean, $m>>, LengthError> = match $form {
            "arr" => {
                let src: [AdditiveShare<$src>; $m] = to_arr(src);
                let mut dst: [AdditiveShare<Boolean, $m>; ($n + 7) / 8 * 8] =
                    std::array::from_fn(|_| AdditiveShare::<Boolean, $m>::ZERO);
                dst.transpose_from(&src).unwrap_infallible();
                Ok(dst.to_vec())
            }
            "shim" => {
                let src: [AdditiveShare<$src>; $m] = to_arr(src);
                let mut dst: BitDecomposed<AdditiveShare<Boolean, $m>> = BitDecomposed::default();
                dst.transpose_from(&src).unwrap_infallible();
                Ok(dst.iter().cloned().collect())
            }
            "shimvec" => {
                let mut dst: BitDecomposed<AdditiveShare<Boolean, $m>> = BitDecomposed::default();
                dst.transpose_from(&src).map(|()| dst.iter().cloned().collect())
            }
            f => panic!("harness: unknown form {f}"),
        };
        show_pairs(res.map(|v| raw_bool::<$dstarr, $m>(&v)))
    }};
}

macro_rules! tr_aggregation {
    ($dstarr:ty, $srcarr:ty, $m:expr, $n:expr, $bits:expr, $l:expr, $r:expr) => {{
        let b: usize = $bits.parse().unwrap();
        let all: Vec<AdditiveShare<Boolean, $n>> = bool_shares::<$srcarr, $n>($l, $r);
        assert_eq!(all.len(), b * $m, "harness: wrong amount of data");
        // request layout: bit-major (b matrices of M rows); the source is indexed [row][bit]
        let src: Vec<BitDecomposed<AdditiveShare<Boolean, $n>>> =
            (0..$m).map(|row| BitDecomposed::new((0..b).map(|bit| all[bit * $m + row].clone()))).collect();
        let mut dst: Vec<BitDecomposed<AdditiveShare<Boolean, $m>>> = vec![];
        dst.transpose_from(src.as_slice()).unwrap_infallible();
        assert_eq!(dst.len(), $n);
        let mut out: Vec<AdditiveShare<Boolean, $m>> = vec![];
        for bit in 0..b {
            for row in 0..$n {
                out.push(dst[row][bit].clone());
            }
        }
        show_pairs(Ok(raw_bool::<$dstarr, $m>(&out)))
    }};
}

/// The impls the harness can drive — must mirror the `impl_transpose_*!` invocations of transpose.rs
/// (the model's list is regenerated from the source; `c09.tr-list` compares the two).
const TR_IMPLS: &[(&str, usize, usize)] = &[
    ("ba_to_ba", 64, 64), ("ba_to_ba", 256, 256),
    ("bool_to_ba", 256, 256), ("bool_to_ba_small", 8, 256), ("bool_to_ba", 16, 256), ("bool_to_ba", 16, 32),
    ("bool_to_ba", 32, 256), ("bool_to_ba_small", 8, 32), ("bool_to_ba_small", 32, 32), ("bool_to_ba_small", 8, 8),
    ("bool_to_ba", 16, 16), ("bool_to_ba_small", 8, 16),
    ("ba_to_bool", 256, 64), ("ba_fn_to_bool", 256, 64),
    ("ba_to_bool_small", 256, 32), ("ba_to_bool_small", 256, 16), ("ba_to_bool_small", 256, 8),
    ("ba_to_bool_small", 256, 5), ("ba_to_bool_small", 256, 3), ("ba_to_bool_small", 32, 8), ("ba_to_bool_small", 32, 3),
    ("ba_to_bool", 32, 32), ("ba_to_bool", 32, 16), ("ba_to_bool_small", 16, 8),
    ("aggregation_transpose", 256, 256), ("aggregation_transpose", 32, 256),
];

fn exec_tr(a: &[&str]) -> String {
    let (kind, m, n, form, l, r) = (a[0], a[1], a[2], a[3], a[4], a[5]);
    match (kind, m, n) {
        ("ba_to_ba", "64", "64") => tr_ba_to_ba!(BA64, BA64, 64, 64, form, l),
        ("ba_to_ba", "256", "256") => tr_ba_to_ba!(BA256, BA256, 256, 256, form, l),
        ("bool_to_ba", "256", "256") => tr_bool_to_ba!(BA256, BA256, 256, 256, form, l, r),
        ("bool_to_ba", "16", "256") => tr_bool_to_ba!(BA16, BA256, 16, 256, form, l, r),
        ("bool_to_ba", "16", "32") => tr_bool_to_ba!(BA16, BA32, 16, 32, form, l, r),
        ("bool_to_ba", "32", "256") => tr_bool_to_ba!(BA32, BA256, 32, 256, form, l, r),
        ("bool_to_ba", "16", "16") => tr_bool_to_ba!(BA16, BA16, 16, 16, form, l, r),
        ("bool_to_ba_small", "8", "256") => tr_bool_to_ba!(BA8, BA256, 8, 256, form, l, r),
        ("bool_to_ba_small", "8", "32") => tr_bool_to_ba!(BA8, BA32, 8, 32, form, l, r),
        ("bool_to_ba_small", "32", "32") => tr_bool_to_ba!(BA32, BA32, 32, 32, form, l, r),
        ("bool_to_ba_small", "8", "8") => tr_bool_to_ba!(BA8, BA8, 8, 8, form, l, r),
        ("bool_to_ba_small", "8", "16") => tr_bool_to_ba!(BA8, BA16, 8, 16, form, l, r),
        ("ba_to_bool", "256", "64") => tr_ba_to_bool!(BA64, BA256, 256, 64, form, l, r),
        ("ba_to_bool", "32", "32") => tr_ba_to_bool!(BA32, BA32, 32, 32, form, l, r),
        ("ba_to_bool", "32", "16") => tr_ba_to_bool!(BA16, BA32, 32, 16, form, l, r),
        ("ba_fn_to_bool", "256", "64") => tr_ba_fn_to_bool!(BA64, BA256, 256, 64, form, l, r),
        ("ba_to_bool_small", "256", "32") => tr_ba_to_bool_small!(BA32, BA256, 256, 32, form, l, r),
        ("ba_to_bool_small", "256", "16") => tr_ba_to_bool_small!(BA16, BA256, 256, 16, form, l, r),
        ("ba_to_bool_small", "256", "8") => tr_ba_to_bool_small!(BA8, BA256, 256, 8, form, l, r),
        ("ba_to_bool_small", "256", "5") => tr_ba_to_bool_small!(BA5, BA256, 256, 5, form, l, r),
        ("ba_to_bool_small", "256", "3") => tr_ba_to_bool_small!(BA3, BA256, 256, 3, form, l, r),
        ("ba_to_bool_small", "32", "8") => tr_ba_to_bool_small!(BA8, BA32, 32, 8, form, l, r),
        ("ba_to_bool_small", "32", "3") => tr_ba_to_bool_small!(BA3, BA32, 32, 3, form, l, r),
        ("ba_to_bool_small", "16", "8") => tr_ba_to_bool_small!(BA8, BA16, 16, 8, form, l, r),
        ("aggregation_transpose", "256", "256") => tr_aggregation!(BA256, BA256, 256, 256, form, l, r),
        ("aggregation_transpose", "32", "256") => tr_aggregation!(BA32, BA256, 32, 256, form, l, r),
        _ => panic!("harness: no such transpose impl {kind} {m}x{n}"),
    }
}

pub fn exec(req: &str) -> String {
    let t: Vec<&str> = req.split(' ').collect();
    match t[0] {
        "c09.tr" => exec_tr(&t[1..]),
        "c09.tr-list" => TR_IMPLS.iter().map(|(k, m, n)| format!("{k}:{m}x{n}")).collect::<Vec<_>>().join(","),
        "c09.blk" | "c09.de" | "c09.en" => exec_serde(t[0], t[1], &t[2..]),
        "c09.rp" => exec_rp(t[1], &t[2..]),
        _ => panic!("harness: unknown request {req}"),
    }
}

// ------------------------------------------------------------------------------------------------
// generators

#[derive(Clone, Copy)]
struct LeafInfo {
    name: &'static str,
    bytes: usize,
    /// exclusive bound of the canonical little-endian integer, as little-endian bytes (33 bytes)
    bound: [u8; 33],
}

fn bound_pow2(bits: usize) -> [u8; 33] {
    let mut b = [0u8; 33];
    b[bits / 8] = 1 << (bits % 8);
    b
}

fn bound_u128(p: u128) -> [u8; 33] {
    let mut b = [0u8; 33];
    b[..16].copy_from_slice(&p.to_le_bytes());
    b
}

/// group order of ed25519 / Ristretto, little-endian
const ELL: [u8; 32] = [
    0xed, 0xd3, 0xf5, 0x5c, 0x1a, 0x63, 0x12, 0x58, 0xd6, 0x9c, 0xf7, 0xa2, 0xde, 0xf9, 0xde, 0x14,
    0, 0, 0, 0, 0, 0, 0, 0, 0, 0, 0, 0, 0, 0, 0, 0x10,
];

fn leaf_infos() -> Vec<LeafInfo> {
    fn size<T: Serializable>() -> usize {
        T::Size::USIZE
    }
    let mut v = vec![
        LeafInfo { name: "Fp31", bytes: size::<Fp31>(), bound: bound_u128(u128::from(Fp31::PRIME)) },
        LeafInfo { name: "Fp32BitPrime", bytes: size::<Fp32BitPrime>(), bound: bound_u128(u128::from(Fp32BitPrime::PRIME)) },
        LeafInfo { name: "Fp61BitPrime", bytes: size::<Fp61BitPrime>(), bound: bound_u128(u128::from(Fp61BitPrime::PRIME)) },
        LeafInfo { name: "Boolean", bytes: size::<Boolean>(), bound: bound_u128(2) },
    ];
    macro_rules! bits_leaf {
        ($($t:ident),*) => {$(
            v.push(LeafInfo { name: stringify!($t), bytes: size::<$t>(), bound: bound_pow2(<$t as SharedValue>::BITS as usize) });
        )*};
    }
    bits_leaf!(Gf2, Gf3Bit, Gf8Bit, Gf9Bit, Gf20Bit, Gf32Bit, Gf40Bit, BA3, BA4, BA5, BA6, BA7, BA8, BA16, BA20, BA32, BA64, BA96, BA112, BA144, BA256);
    let mut ell = [0u8; 33];
    ell[..32].copy_from_slice(&ELL);
    v.push(LeafInfo { name: "Fp25519", bytes: 32, bound: ell });
    v
}

/// little-endian comparison a < b
fn le_lt(a: &[u8], b: &[u8]) -> bool {
    let n = a.len().max(b.len());
    for i in (0..n).rev() {
        let x = a.get(i).copied().unwrap_or(0);
        let y = b.get(i).copied().unwrap_or(0);
        if x != y {
            return x < y;
        }
    }
    false
}

/// little-endian a - k (k small), a + k
fn le_add(a: &[u8], k: i32, n: usize) -> Vec<u8> {
    let mut out = vec![0u8; n];
    let mut carry = i64::from(k);
    for i in 0..n {
        let x = i64::from(a.get(i).copied().unwrap_or(0)) + carry;
        out[i] = x.rem_euclid(256) as u8;
        carry = x.div_euclid(256);
    }
    out
}

fn le_to_hexint(bytes: &[u8]) -> String {
    let bits: Vec<bool> = (0..bytes.len() * 8).map(|i| (bytes[i / 8] >> (i % 8)) & 1 == 1).collect();
    bits_to_hex(&bits)
}

/// encodings around the canonical range of one leaf: 0, 1, bound-1 (canonical); bound, bound+1, all-ones,
/// single padding bits (non-canonical where representable); random canonical and random raw patterns.
fn leaf_patterns(rng: &mut Rng, li: &LeafInfo, nrand: usize) -> (Vec<Vec<u8>>, Vec<Vec<u8>>) {
    let n = li.bytes;
    let mut canon: Vec<Vec<u8>> = vec![vec![0; n], le_add(&[], 1, n), le_add(&li.bound, -1, n), le_add(&li.bound, -2, n)];
    let mut raw: Vec<Vec<u8>> = vec![];
    // bound, bound+1 when they fit in n bytes
    if li.bound[n..].iter().all(|b| *b == 0) {
        raw.push(le_add(&li.bound, 0, n));
        raw.push(le_add(&li.bound, 1, n));
    }
    raw.push(vec![0xff; n]);
    for bit in 0..n * 8 {
        let mut b = vec![0u8; n];
        b[bit / 8] |= 1 << (bit % 8);
        raw.push(b.clone());
        // the same bit on top of bound-1
        let mut c = le_add(&li.bound, -1, n);
        c[bit / 8] ^= 1 << (bit % 8);
        raw.push(c);
    }
    for _ in 0..nrand {
        let r = rng.bytes(n);
        raw.push(r.clone());
        // a random canonical value: clear high bits until below the bound
        let mut c = r;
        let mut top = n * 8;
        while !le_lt(&c, &li.bound) {
            top -= 1;
            c[top / 8] &= !(1 << (top % 8));
        }
        canon.push(c);
    }
    canon.retain(|c| le_lt(c, &li.bound));
    (canon, raw)
}

fn gen_small(_rng: &mut Rng, thorough: bool) -> Vec<String> {
    let mut out = vec![];
    let infos = leaf_infos();
    // every type of <= 2 bytes: ALL byte strings
    for li in &infos {
        match li.bytes {
            1 => {
                out.push(format!("c09.blk {} -", li.name));
                out.push(format!("c09.blk arr1:{} -", li.name));
                for hi in 0..=255u8 {
                    out.push(format!("c09.blk share:{} {}", li.name, hex(&[hi])));
                }
            }
            2 => {
                for hi in 0..=255u8 {
                    out.push(format!("c09.blk {} {}", li.name, hex(&[hi])));
                }
            }
            3 => {
                // the 20-bit types: all 2^24 in the thorough tier; in the quick tier every value of the top
                // byte with the middle byte in {00, 01, 7f, 80, ff}, and every middle byte with top byte 00/0f/10
                if thorough {
                    for top in 0..=255u8 {
                        for mid in 0..=255u8 {
                            out.push(format!("c09.blk {} {}", li.name, hex(&[mid, top])));
                        }
                    }
                } else {
                    for top in 0..=255u8 {
                        for mid in [0x00u8, 0x01, 0x7f, 0x80, 0xff] {
                            out.push(format!("c09.blk {} {}", li.name, hex(&[mid, top])));
                        }
                    }
                    for mid in 0..=255u8 {
                        for top in [0x00u8, 0x0f, 0x10] {
                            out.push(format!("c09.blk {} {}", li.name, hex(&[mid, top])));
                        }
                    }
                }
            }
            _ => {}
        }
    }
    out
}

/// `c09.de` request; inputs of Fp25519 holding an element >= the group order carry the marker
/// ` ge-order` (the class of known finding F9; computed here by plain comparison, ignored by `exec`).
fn de_req(li: &LeafInfo, ty: &str, elems: &[&[u8]]) -> String {
    let marker = if li.name == "Fp25519" && elems.iter().any(|e| !le_lt(e, &li.bound)) { " ge-order" } else { "" };
    format!("c09.de {ty} {}{marker}", hex(&elems.concat()))
}

fn gen_large(rng: &mut Rng, thorough: bool) -> Vec<String> {
    let mut out = vec![];
    let infos = leaf_infos();
    let nrand = if thorough { 200 } else { 12 };
    for li in &infos {
        let (canon, raw) = leaf_patterns(rng, li, nrand);
        let share_ty = format!("share:{}", li.name);
        // leaf itself
        for c in &canon {
            out.push(format!("c09.en {} {}", li.name, le_to_hexint(c)));
            out.push(de_req(li, li.name, &[c]));
            // every single-bit flip of a valid encoding
            for bit in 0..li.bytes * 8 {
                let mut f = c.clone();
                f[bit / 8] ^= 1 << (bit % 8);
                out.push(de_req(li, li.name, &[&f]));
            }
        }
        for r in &raw {
            out.push(de_req(li, li.name, &[r]));
        }
        // shares: every combination class (canonical/non-canonical) x (left/right)
        let pick = |rng: &mut Rng, v: &Vec<Vec<u8>>| v[rng.usize_below(v.len())].clone();
        let nshare = if thorough { 400 } else { 40 };
        for k in 0..nshare {
            let l = if k % 4 < 2 { pick(rng, &canon) } else { pick(rng, &raw) };
            let r = if k % 2 == 0 { pick(rng, &canon) } else { pick(rng, &raw) };
            out.push(de_req(li, &share_ty, &[&l, &r]));
            if k % 4 == 0 {
                out.push(format!("c09.en share:{} {}:{}", li.name, le_to_hexint(&l), le_to_hexint(&r)));
            }
        }
        // boundary shares: (p-1, p-1), (p-1, p), (p, p-1)
        let top = le_add(&li.bound, -1, li.bytes);
        out.push(de_req(li, &share_ty, &[&top, &top]));
        if li.bound[li.bytes..].iter().all(|b| *b == 0) {
            let p = le_add(&li.bound, 0, li.bytes);
            out.push(de_req(li, &share_ty, &[&top, &p]));
            out.push(de_req(li, &share_ty, &[&p, &top]));
        }
        // arrays: all canonical; exactly one corrupt element at every position (N = 16) or at first / last /
        // random positions (larger N)
        for n in [1usize, 16, 32, 64, 256] {
            if n * li.bytes > 2048 && !thorough {
                continue;
            }
            let reps = if thorough { 6 } else { 2 };
            for _ in 0..reps {
                let elems: Vec<Vec<u8>> = (0..n).map(|_| pick(rng, &canon)).collect();
                let arr_ty = format!("arr{n}:{}", li.name);
                let refs = |v: &Vec<Vec<u8>>| -> String { de_req(li, &arr_ty, &v.iter().map(Vec::as_slice).collect::<Vec<_>>()) };
                out.push(refs(&elems));
                out.push(format!(
                    "c09.en arr{n}:{} {}",
                    li.name,
                    elems.iter().map(|e| le_to_hexint(e)).collect::<Vec<_>>().join(":")
                ));
                let mut positions: Vec<usize> = if n <= 16 { (0..n).collect() } else { vec![0, 1, n / 2, n - 2, n - 1, rng.usize_below(n)] };
                positions.dedup();
                for pos in positions {
                    let mut e2 = elems.clone();
                    e2[pos] = pick(rng, &raw);
                    out.push(refs(&e2));
                }
            }
        }
    }
    gen_rp(rng, thorough, &mut out);
    out
}

/// RP25519: valid encodings (multiples of the base point), every single-bit flip of some of them,
/// field-level non-canonical integers (>= 2^255-19, high bit set), "negative" (odd) integers, random
/// strings and the two-byte-prefix family [b0, b1, 0, …, 0].
fn gen_rp(rng: &mut Rng, thorough: bool, out: &mut Vec<String>) {
    let ser = |p: RP25519| -> Vec<u8> {
        let mut buf = GenericArray::<u8, <RP25519 as Serializable>::Size>::default();
        p.serialize(&mut buf);
        buf.to_vec()
    };
    let push = |out: &mut Vec<String>, b: &[u8]| out.push(format!("c09.rp de {}", hex(b)));
    push(out, &[0u8; 32]);
    let mut valid: Vec<Vec<u8>> = vec![];
    for k in 1..=16u64 {
        valid.push(ser(RP25519::from(Fp25519::from(Scalar::from(k)))));
    }
    valid.push(ser(RP25519::from(-Fp25519::ONE)));
    for _ in 0..(if thorough { 200 } else { 20 }) {
        let mut it_s = [0u8; 32];
        it_s.copy_from_slice(&rng.bytes(32));
        valid.push(ser(RP25519::from(Fp25519::from(Scalar::from_bytes_mod_order(it_s)))));
    }
    for (i, v) in valid.iter().enumerate() {
        push(out, v);
        if i < (if thorough { 40 } else { 4 }) {
            for bit in 0..256 {
                let mut f = v.clone();
                f[bit / 8] ^= 1 << (bit % 8);
                push(out, &f);
            }
        }
    }
    // integers around the field prime 2^255 - 19 and with the unused top bit set
    let mut pm = [0xffu8; 32];
    pm[31] = 0x7f;
    for delta in -40i32..=2 {
        let mut b = le_add(&pm, 0, 32);
        b[0] = (0xed_i32 + delta).rem_euclid(256) as u8; // 2^255-19 = ed ff … 7f
        if 0xed + delta < 0 {
            continue;
        }
        push(out, &b);
    }
    push(out, &[0xff; 32]);
    for v in valid.iter().take(8) {
        let mut f = v.clone();
        f[31] |= 0x80;
        push(out, &f);
        f = v.clone();
        f[0] |= 1; // "negative" s
        push(out, &f);
    }
    for _ in 0..(if thorough { 2000 } else { 200 }) {
        push(out, &rng.bytes(32));
        let mut r = rng.bytes(32);
        r[31] &= 0x7f;
        r[0] &= 0xfe;
        push(out, &r);
    }
    let (n0, n1) = if thorough { (256u32, 256u32) } else { (256, 4) };
    for b1 in 0..n1 {
        for b0 in 0..n0 {
            let mut b = [0u8; 32];
            b[0] = b0 as u8;
            b[1] = if n1 == 256 { b1 as u8 } else { [0u8, 1, 0x80, 0xff][b1 as usize] };
            push(out, &b);
        }
    }
}

/// source matrices: all-zero, all-ones, every one-hot position (small shapes) or a spread of one-hot
/// positions incl. the corners (large shapes), random.
fn gen_transpose(rng: &mut Rng, thorough: bool) -> Vec<String> {
    let mut out = vec!["c09.tr-list".to_string()];
    for &(kind, m, n) in TR_IMPLS {
        let row_bytes = (n + 7) / 8;
        let mask_row = |row: &mut Vec<u8>| {
            if n % 8 != 0 {
                let last = row.len() - 1;
                row[last] &= (1u8 << (n % 8)) - 1;
            }
        };
        let mut mats: Vec<Vec<u8>> = vec![];
        mats.push(vec![0u8; m * row_bytes]);
        let mut ones = vec![];
        for _ in 0..m {
            let mut row = vec![0xffu8; row_bytes];
            mask_row(&mut row);
            ones.extend(row);
        }
        mats.push(ones);
        let mut hot: Vec<(usize, usize)> = vec![];
        if m * n <= 512 {
            for i in 0..m {
                for j in 0..n {
                    hot.push((i, j));
                }
            }
        } else {
            let edge = |d: usize| -> Vec<usize> {
                if thorough { vec![0, 1, 7, 8, 15, 16, d / 2, d - 2, d - 1] } else { vec![0, 7, 8, 16, d - 1] }
            };
            for &i in &edge(m) {
                for &j in &edge(n) {
                    if i < m && j < n {
                        hot.push((i, j));
                    }
                }
            }
            for _ in 0..(if thorough { 200 } else { 8 }) {
                hot.push((rng.usize_below(m), rng.usize_below(n)));
            }
            hot.sort_unstable();
            hot.dedup();
        }
        for (i, j) in hot {
            let mut mat = vec![0u8; m * row_bytes];
            mat[i * row_bytes + j / 8] |= 1 << (j % 8);
            mats.push(mat);
        }
        for _ in 0..(if thorough { 40 } else { 4 }) {
            let mut mat = vec![];
            for _ in 0..m {
                let mut row = rng.bytes(row_bytes);
                mask_row(&mut row);
                mat.extend(row);
            }
            mats.push(mat);
        }
        let forms: &[&str] = match kind {
            "ba_to_bool_small" => &["arr", "shim", "shimvec"],
            "aggregation_transpose" => &["1", "2"],
            _ => &["arr", "shim"],
        };
        for (idx, mat) in mats.iter().enumerate() {
            // the other share: a different matrix (the next one), so left/right mix-ups are visible
            let other = &mats[(idx + 1) % mats.len()];
            for form in forms {
                if kind == "aggregation_transpose" {
                    let b: usize = form.parse().unwrap();
                    if idx % 3 != 0 && m * n > 512 && !thorough {
                        continue;
                    }
                    let l: Vec<u8> = (0..b).flat_map(|k| mats[(idx + k) % mats.len()].clone()).collect();
                    let r: Vec<u8> = (0..b).flat_map(|k| mats[(idx + k + 1) % mats.len()].clone()).collect();
                    out.push(format!("c09.tr {kind} {m} {n} {form} {} {}", hex(&l), hex(&r)));
                } else if kind == "ba_to_ba" {
                    out.push(format!("c09.tr {kind} {m} {n} {form} {} -", hex(mat)));
                } else {
                    out.push(format!("c09.tr {kind} {m} {n} {form} {} {}", hex(mat), hex(other)));
                }
            }
        }
        // LengthErrors of the fallible shims: sources that are too short / too long / empty
        let fallible = match kind {
            "bool_to_ba" | "bool_to_ba_small" => Some("shim"),
            "ba_to_bool_small" => Some("shimvec"),
            _ => None,
        };
        if let Some(form) = fallible {
            let mut lens = vec![0usize, 1, m - 1];
            if m < 256 || form == "shimvec" {
                lens.push(m + 1);
                lens.push(2 * m);
            }
            for len in lens {
                let mat = &mats[mats.len() - 1];
                let data: Vec<u8> = mat.iter().cycle().take(len * row_bytes).copied().collect();
                out.push(format!("c09.tr {kind} {m} {n} {form} {} {}", hex(&data), hex(&data)));
            }
        }
    }
    out
}

#[test]
fn verif_c09_transpose() {
    run_suite("c09_transpose", gen_transpose, exec);
}

#[test]
fn verif_c09_small() {
    run_suite("c09_small", gen_small, exec);
}

#[test]
fn verif_c09_large() {
    run_suite("c09_large", gen_large, exec);
}
