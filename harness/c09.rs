// Correspondence suites for property C09. Each suite is a #[test] fn named verif_c09_<suite>.
