// Correspondence suites for property C05. Each suite is a #[test] fn named verif_c05_<suite>.
