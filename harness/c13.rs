// Correspondence suites for property C13. Each suite is a #[test] fn named verif_c13_<suite>.
