// Correspondence suites for property C08 (fields are fields, canonical elements).
//
// Request grammar (prime fields):  c08.pf <Field> <op> <args…>
//   add a b | sub a b | mul a b | neg a | inv a | trunc v | tryfrom v | ser a | deser hex
//   batchinv a,b,… | dot a,… b,… | sum a,…
// Elements are given as canonical integers (a < PRIME) in decimal; responses are decimal / hex.
use generic_array::GenericArray;

use super::proto::*;
use crate::{
    ff::{
        ArrayAccess, Expand,
        boolean::Boolean,
        boolean_array::{BA3, BA4, BA5, BA6, BA7, BA8, BA16, BA20, BA32, BA64, BA96, BA112, BA144, BA256},
        Field, Fp31, Fp32BitPrime, Fp61BitPrime, GaloisField, Gf2, Gf3Bit, Gf8Bit, Gf9Bit, Gf20Bit,
        Gf32Bit, Gf40Bit, MultiplyAccumulate, MultiplyAccumulator, PrimeField, Serializable,
        U128Conversions, batch_invert,
    },
    protocol::{context::dzkp_field::DZKPBaseField, prss::FromRandom},
    secret_sharing::{
        SharedValue,
        replicated::{ReplicatedSecretSharing, semi_honest::AdditiveShare},
    },
};

fn raw<F: PrimeField + Serializable>(v: u128) -> F {
    // Build the element with representation `v` without going through a reduction:
    // deserialize accepts exactly the canonical range.
    let mut buf = GenericArray::<u8, F::Size>::default();
    let n = buf.len();
    buf.copy_from_slice(&v.to_le_bytes()[..n]);
    F::deserialize(&buf).unwrap_or_else(|_| panic!("harness: non-canonical operand {v}"))
}

fn batch_inv_n<F: PrimeField + Serializable>(xs: &[F]) -> Vec<F> {
    macro_rules! go {
        ($n:literal) => {{
            let mut a: [F; $n] = <[F; $n]>::try_from(xs.to_vec()).ok().unwrap();
            batch_invert(&mut a);
            a.to_vec()
        }};
    }
    match xs.len() {
        1 => go!(1),
        2 => go!(2),
        3 => go!(3),
        4 => go!(4),
        5 => go!(5),
        7 => go!(7),
        8 => go!(8),
        16 => go!(16),
        n => panic!("harness: unsupported batch_invert width {n}"),
    }
}

fn exec_pf<F>(op: &str, args: &[&str]) -> String
where
    F: PrimeField + Serializable + MultiplyAccumulate + std::iter::Sum,
{
    let e = |s: &str| raw::<F>(s.parse::<u128>().unwrap());
    let list = |s: &str| -> Vec<F> { parse_nat_list::<u128>(s).into_iter().map(raw::<F>).collect() };
    match op {
        "add" => (e(args[0]) + e(args[1])).as_u128().to_string(),
        "addassign" => {
            let mut x = e(args[0]);
            x += e(args[1]);
            x.as_u128().to_string()
        }
        "sub" => (e(args[0]) - e(args[1])).as_u128().to_string(),
        "subassign" => {
            let mut x = e(args[0]);
            x -= e(args[1]);
            x.as_u128().to_string()
        }
        "mul" => (e(args[0]) * e(args[1])).as_u128().to_string(),
        "mulassign" => {
            let mut x = e(args[0]);
            x *= e(args[1]);
            x.as_u128().to_string()
        }
        "neg" => (-e(args[0])).as_u128().to_string(),
        "inv" => e(args[0]).invert().as_u128().to_string(),
        "trunc" => F::truncate_from(args[0].parse::<u128>().unwrap()).as_u128().to_string(),
        "tryfrom" => match F::try_from(args[0].parse::<u128>().unwrap()) {
            Ok(v) => format!("ok {}", v.as_u128()),
            Err(_) => "err".into(),
        },
        "ser" => {
            let mut buf = GenericArray::<u8, F::Size>::default();
            e(args[0]).serialize(&mut buf);
            hex(&buf)
        }
        "deser" => {
            let b = unhex(args[0]);
            let mut buf = GenericArray::<u8, F::Size>::default();
            if b.len() != buf.len() {
                return "err".into();
            }
            buf.copy_from_slice(&b);
            match F::deserialize(&buf) {
                Ok(v) => format!("ok {}", v.as_u128()),
                Err(_) => "err".into(),
            }
        }
        "batchinv" => {
            let xs = list(args[0]);
            nat_list(&batch_inv_n(&xs).iter().map(|x| x.as_u128()).collect::<Vec<_>>())
        }
        "dot" => {
            let (a, b) = (list(args[0]), list(args[1]));
            let mut acc = <F as MultiplyAccumulate>::Accumulator::new();
            for (x, y) in a.iter().zip(b.iter()) {
                acc.multiply_accumulate(*x, *y);
            }
            acc.take().as_u128().to_string()
        }
        "dotarr" => {
            // array form of the deferred-reduction accumulator, 2 lanes: lane 0 = Σ a_i·b_i, lane 1 = Σ b_i·b_i
            use crate::ff::MultiplyAccumulatorArray;
            let (a, b) = (list(args[0]), list(args[1]));
            let mut acc = <<F as MultiplyAccumulate>::AccumulatorArray<2> as MultiplyAccumulatorArray<F, 2>>::new();
            for (x, y) in a.iter().zip(b.iter()) {
                acc.multiply_accumulate(&[*x, *y], &[*y, *y]);
            }
            let r = acc.take();
            format!("{},{}", r[0].as_u128(), r[1].as_u128())
        }
        "sum" => list(args[0]).into_iter().sum::<F>().as_u128().to_string(),
        _ => panic!("harness: unknown op {op}"),
    }
}

// ------------------------------------------------------------------ binary fields
// Request grammar:  c08.gf <Type> <op> <args…>
//   add|sub|mul|addassign|subassign|mulassign a b | neg a | trunc v | tryfrom v | deser hex
//   fromslice hex | cmp a b
// Arithmetic responses: `<as_u128> <hex of serialize>` (value and raw store incl. padding bits).

fn gf_show<G: GaloisField + Serializable>(x: G) -> String {
    let mut buf = GenericArray::<u8, G::Size>::default();
    x.serialize(&mut buf);
    format!("{} {}", x.as_u128(), hex(&buf))
}

fn exec_gf<G>(op: &str, args: &[&str]) -> String
where
    G: GaloisField + Serializable + U128Conversions + Ord + for<'a> TryFrom<&'a [u8]>,
{
    let e = |s: &str| {
        let v = s.parse::<u128>().unwrap();
        assert!(v >> G::BITS == 0, "harness: operand {v} out of range");
        G::truncate_from(v)
    };
    match op {
        "add" => gf_show(e(args[0]) + e(args[1])),
        "addassign" => {
            let mut x = e(args[0]);
            x += e(args[1]);
            gf_show(x)
        }
        "sub" => gf_show(e(args[0]) - e(args[1])),
        "subassign" => {
            let mut x = e(args[0]);
            x -= e(args[1]);
            gf_show(x)
        }
        "mul" => gf_show(e(args[0]) * e(args[1])),
        "mulassign" => {
            let mut x = e(args[0]);
            x *= e(args[1]);
            gf_show(x)
        }
        "neg" => gf_show(-e(args[0])),
        "trunc" => gf_show(G::truncate_from(args[0].parse::<u128>().unwrap())),
        "tryfrom" => match G::try_from(args[0].parse::<u128>().unwrap()) {
            Ok(v) => format!("ok {}", v.as_u128()),
            Err(_) => "err".into(),
        },
        "deser" => {
            let b = unhex(args[0]);
            let mut buf = GenericArray::<u8, G::Size>::default();
            if b.len() != buf.len() {
                return "err".into();
            }
            buf.copy_from_slice(&b);
            match G::deserialize(&buf) {
                Ok(v) => format!("ok {}", v.as_u128()),
                Err(_) => "err".into(),
            }
        }
        "fromslice" => {
            let b = unhex(args[0]);
            match <G as TryFrom<&[u8]>>::try_from(b.as_slice()) {
                Ok(v) => format!("ok {}", v.as_u128()),
                Err(_) => "err".into(),
            }
        }
        "cmp" => match e(args[0]).cmp(&e(args[1])) {
            std::cmp::Ordering::Less => "0".into(),
            std::cmp::Ordering::Equal => "1".into(),
            std::cmp::Ordering::Greater => "2".into(),
        },
        _ => panic!("harness: unknown op {op}"),
    }
}

// ------------------------------------------------------------------ Boolean and Boolean arrays
// Request grammar:  c08.ba <Type> <op> <args…>   (array elements = hex of the raw store)
//   add|sub|mul|addassign|subassign|mulassign a b | neg a | not a | mulbool a c | eq a b | deser hex
//   get a i | set a i b | expand b | fromiter bits | tryfromvec bits | iter a | togf32 a
//   small arrays: trunc v | tryfrom v | asu128 a        large arrays: fromrandom w0,w1
//                   c08.bool <op> <args…>
fn ba_raw<T: Serializable>(h: &str) -> T {
    let b = unhex(h);
    let mut buf = GenericArray::<u8, T::Size>::default();
    assert!(b.len() == buf.len(), "harness: operand has wrong length");
    buf.copy_from_slice(&b);
    T::deserialize(&buf).unwrap_or_else(|_| panic!("harness: non-canonical operand {h}"))
}

fn ba_show<T: Serializable>(x: &T) -> String {
    let mut buf = GenericArray::<u8, T::Size>::default();
    x.serialize(&mut buf);
    hex(&buf)
}

fn bit(s: &str) -> Boolean {
    match s {
        "0" => Boolean::FALSE,
        "1" => Boolean::TRUE,
        _ => panic!("harness: bad bit {s}"),
    }
}

fn bits(s: &str) -> Vec<Boolean> {
    if s == "-" {
        return vec![];
    }
    s.chars().map(|c| if c == '1' { Boolean::TRUE } else { Boolean::FALSE }).collect()
}

macro_rules! exec_ba_common {
    ($t:ty, $op:expr, $args:expr) => {{
        let op: &str = $op;
        let args: &[&str] = $args;
        let e = |s: &str| ba_raw::<$t>(s);
        match op {
            "add" => Some(ba_show(&(e(args[0]) + e(args[1])))),
            "addassign" => {
                let mut x = e(args[0]);
                x += e(args[1]);
                Some(ba_show(&x))
            }
            "sub" => Some(ba_show(&(e(args[0]) - e(args[1])))),
            "subassign" => {
                let mut x = e(args[0]);
                x -= e(args[1]);
                Some(ba_show(&x))
            }
            "mul" => Some(ba_show(&(e(args[0]) * e(args[1])))),
            "mulassign" => {
                let mut x = e(args[0]);
                x *= e(args[1]);
                Some(ba_show(&x))
            }
            "neg" => Some(ba_show(&(-e(args[0])))),
            "not" => Some(ba_show(&(!e(args[0])))),
            "mulbool" => Some(ba_show(&(e(args[0]) * bit(args[1])))),
            "eq" => Some(if e(args[0]) == e(args[1]) { "1".to_string() } else { "0".to_string() }),
            "deser" => {
                let b = unhex(args[0]);
                let mut buf = GenericArray::<u8, <$t as Serializable>::Size>::default();
                if b.len() != buf.len() {
                    Some("err".to_string())
                } else {
                    buf.copy_from_slice(&b);
                    Some(match <$t>::deserialize(&buf) {
                        Ok(v) => format!("ok {}", ba_show(&v)),
                        Err(_) => "err".into(),
                    })
                }
            }
            "get" => Some(match e(args[0]).get(args[1].parse::<usize>().unwrap()) {
                Some(b) => format!("some {}", u8::from(bool::from(b))),
                None => "none".into(),
            }),
            "set" => {
                let mut x = e(args[0]);
                x.set(args[1].parse::<usize>().unwrap(), bit(args[2]));
                Some(ba_show(&x))
            }
            "expand" => Some(ba_show(&<$t as Expand<Boolean>>::expand(&bit(args[0])))),
            "fromiter" => Some(ba_show(&bits(args[0]).into_iter().collect::<$t>())),
            "tryfromvec" => Some(match <$t>::try_from(bits(args[0])) {
                Ok(v) => format!("ok {}", ba_show(&v)),
                Err(_) => "err".into(),
            }),
            "iter" => {
                let x = e(args[0]);
                let a: String = x.iter().map(|b| if bool::from(b) { '1' } else { '0' }).collect();
                let b: String = x.into_iter().map(|b| if bool::from(b) { '1' } else { '0' }).collect();
                assert_eq!(a, b, "harness: iter and into_iter differ");
                Some(if a.is_empty() { "-".to_string() } else { a })
            }
            "togf32" => Some(match <Vec<Gf32Bit>>::try_from(e(args[0])) {
                Ok(v) => nat_list(&v.iter().map(|g| g.as_u128()).collect::<Vec<_>>()),
                Err(_) => "err".into(),
            }),
            _ => None,
        }
    }};
}

macro_rules! exec_ba_small {
    ($t:ty, $op:expr, $args:expr) => {{
        match exec_ba_common!($t, $op, $args) {
            Some(r) => r,
            None => match $op {
                "trunc" => ba_show(&<$t>::truncate_from($args[0].parse::<u128>().unwrap())),
                "tryfrom" => match <$t>::try_from($args[0].parse::<u128>().unwrap()) {
                    Ok(v) => format!("ok {}", ba_show(&v)),
                    Err(_) => "err".into(),
                },
                "asu128" => ba_raw::<$t>($args[0]).as_u128().to_string(),
                o => panic!("harness: unknown op {o}"),
            },
        }
    }};
}

macro_rules! exec_ba_large {
    ($t:ty, $op:expr, $args:expr) => {{
        match exec_ba_common!($t, $op, $args) {
            Some(r) => r,
            None => match $op {
                "fromrandom" => {
                    let w = parse_nat_list::<u128>($args[0]);
                    let src = GenericArray::<u128, <$t as FromRandom>::SourceLength>::try_from_iter(w).expect("harness: word count");
                    ba_show(&<$t as FromRandom>::from_random(src))
                }
                o => panic!("harness: unknown op {o}"),
            },
        }
    }};
}

fn exec_bool(op: &str, args: &[&str]) -> String {
    let s = |b: Boolean| u8::from(bool::from(b)).to_string();
    match op {
        "add" => s(bit(args[0]) + bit(args[1])),
        "addassign" => {
            let mut x = bit(args[0]);
            x += bit(args[1]);
            s(x)
        }
        "sub" => s(bit(args[0]) - bit(args[1])),
        "subassign" => {
            let mut x = bit(args[0]);
            x -= bit(args[1]);
            s(x)
        }
        "mul" => s(bit(args[0]) * bit(args[1])),
        "mulassign" => {
            let mut x = bit(args[0]);
            x *= bit(args[1]);
            s(x)
        }
        "neg" => s(-bit(args[0])),
        "not" => s(!bit(args[0])),
        "trunc" => s(Boolean::truncate_from(args[0].parse::<u128>().unwrap())),
        "tryfrom" => match Boolean::try_from(args[0].parse::<u128>().unwrap()) {
            Ok(v) => format!("ok {}", s(v)),
            Err(_) => "err".into(),
        },
        "asu128" => bit(args[0]).as_u128().to_string(),
        "ser" => ba_show(&bit(args[0])),
        "deser" => {
            let b = unhex(args[0]);
            if b.len() != 1 {
                return "err".into();
            }
            match Boolean::deserialize(GenericArray::from_slice(&b)) {
                Ok(v) => format!("ok {}", s(v)),
                Err(_) => "err".into(),
            }
        }
        _ => panic!("harness: unknown op {op}"),
    }
}

// ------------------------------------------------------------------ replicated shares, DZKP constants
// c08.share3 <Field> add|sub s0 s1 s2 t0 t1 t2 | neg s0 s1 s2 | mulconst s0 s1 s2 c
//   helper i holds AdditiveShare(s_i, s_{i+1}); response: l0 r0 l1 r1 l2 r2 after the local operation.
fn exec_share3<F>(op: &str, args: &[&str]) -> String
where
    F: PrimeField + Serializable,
{
    let v: Vec<F> = args.iter().map(|s| raw::<F>(s.parse::<u128>().unwrap())).collect();
    let helper = |s: &[F], i: usize| AdditiveShare::<F>::new(s[i], s[(i + 1) % 3]);
    let mut out = vec![];
    for i in 0..3 {
        let r: AdditiveShare<F> = match op {
            "add" => helper(&v[0..3], i) + helper(&v[3..6], i),
            "sub" => helper(&v[0..3], i) - helper(&v[3..6], i),
            "neg" => -helper(&v[0..3], i),
            "mulconst" => helper(&v[0..3], i) * v[3],
            _ => panic!("harness: unknown op {op}"),
        };
        out.push(r.left().as_u128().to_string());
        out.push(r.right().as_u128().to_string());
    }
    out.join(" ")
}

pub fn exec(req: &str) -> String {
    let t: Vec<&str> = req.split(' ').collect();
    match t[0] {
        "c08.share3" => match t[1] {
            "Fp31" => exec_share3::<Fp31>(t[2], &t[3..]),
            "Fp32BitPrime" => exec_share3::<Fp32BitPrime>(t[2], &t[3..]),
            "Fp61BitPrime" => exec_share3::<Fp61BitPrime>(t[2], &t[3..]),
            f => panic!("harness: unknown field {f}"),
        },
        "c08.const" => match t[1] {
            "INVERSE_OF_TWO" => Fp61BitPrime::INVERSE_OF_TWO.as_u128().to_string(),
            "MINUS_ONE_HALF" => Fp61BitPrime::MINUS_ONE_HALF.as_u128().to_string(),
            "MINUS_TWO" => Fp61BitPrime::MINUS_TWO.as_u128().to_string(),
            c => panic!("harness: unknown constant {c}"),
        },
        "c08.bool" => exec_bool(t[1], &t[2..]),
        "c08.ba" => match t[1] {
            "BA3" => exec_ba_small!(BA3, t[2], &t[3..]),
            "BA4" => exec_ba_small!(BA4, t[2], &t[3..]),
            "BA5" => exec_ba_small!(BA5, t[2], &t[3..]),
            "BA6" => exec_ba_small!(BA6, t[2], &t[3..]),
            "BA7" => exec_ba_small!(BA7, t[2], &t[3..]),
            "BA8" => exec_ba_small!(BA8, t[2], &t[3..]),
            "BA16" => exec_ba_small!(BA16, t[2], &t[3..]),
            "BA20" => exec_ba_small!(BA20, t[2], &t[3..]),
            "BA32" => exec_ba_small!(BA32, t[2], &t[3..]),
            "BA64" => exec_ba_small!(BA64, t[2], &t[3..]),
            "BA96" => exec_ba_small!(BA96, t[2], &t[3..]),
            "BA112" => exec_ba_small!(BA112, t[2], &t[3..]),
            "BA144" => exec_ba_large!(BA144, t[2], &t[3..]),
            "BA256" => exec_ba_large!(BA256, t[2], &t[3..]),
            f => panic!("harness: unknown boolean array {f}"),
        },
        "c08.gf" => match t[1] {
            "Gf2" => exec_gf::<Gf2>(t[2], &t[3..]),
            "Gf3Bit" => exec_gf::<Gf3Bit>(t[2], &t[3..]),
            "Gf8Bit" => exec_gf::<Gf8Bit>(t[2], &t[3..]),
            "Gf9Bit" => exec_gf::<Gf9Bit>(t[2], &t[3..]),
            "Gf20Bit" => exec_gf::<Gf20Bit>(t[2], &t[3..]),
            "Gf32Bit" => exec_gf::<Gf32Bit>(t[2], &t[3..]),
            "Gf40Bit" => exec_gf::<Gf40Bit>(t[2], &t[3..]),
            f => panic!("harness: unknown binary field {f}"),
        },
        "c08.pf" => match t[1] {
            "Fp31" => exec_pf::<Fp31>(t[2], &t[3..]),
            "Fp32BitPrime" => exec_pf::<Fp32BitPrime>(t[2], &t[3..]),
            "Fp61BitPrime" => exec_pf::<Fp61BitPrime>(t[2], &t[3..]),
            f => panic!("harness: unknown field {f}"),
        },
        _ => panic!("harness: unknown request {req}"),
    }
}

fn boundary(p: u128, bits: u32) -> Vec<u128> {
    let mut v = vec![0, 1, 2, 3, p - 1, p - 2, p - 3, p / 2, p / 2 + 1];
    for j in 0..bits {
        for d in [0i64, -1, 1] {
            let x = (1i128 << j) + i128::from(d);
            if x >= 0 && (x as u128) < p {
                v.push(x as u128);
            }
        }
    }
    v.sort_unstable();
    v.dedup();
    v
}

fn gen_pf(rng: &mut Rng, thorough: bool, out: &mut Vec<String>, name: &str, p: u128, bits: u32, bytes: usize) {
    let f = name;
    let small = p < 64;
    let mut elems = boundary(p, bits);
    let extra = if thorough { 400 } else { 40 };
    for _ in 0..extra {
        elems.push(rng.next_u128() % p);
    }
    // unary
    let unary: Vec<u128> = if small { (0..p).collect() } else { elems.clone() };
    for &a in &unary {
        out.push(format!("c08.pf {f} neg {a}"));
        out.push(format!("c08.pf {f} inv {a}"));
        out.push(format!("c08.pf {f} ser {a}"));
    }
    // binary: all pairs of the small field, boundary x boundary (capped) + random pairs otherwise
    let mut pairs: Vec<(u128, u128)> = vec![];
    if small {
        for a in 0..p {
            for b in 0..p {
                pairs.push((a, b));
            }
        }
    } else {
        let b = boundary(p, bits);
        let cap = if thorough { 20_000 } else { 1_500 };
        'outer: for &x in &b {
            for &y in &b {
                if pairs.len() >= cap {
                    break 'outer;
                }
                // thin out deterministically but keep the corners
                if x < 4 || y < 4 || x + 4 > p || y + 4 > p || (x ^ y) % 7 == 0 {
                    pairs.push((x, y));
                }
            }
        }
        for _ in 0..(if thorough { 5_000 } else { 300 }) {
            pairs.push((rng.next_u128() % p, rng.next_u128() % p));
        }
    }
    for (i, &(a, b)) in pairs.iter().enumerate() {
        out.push(format!("c08.pf {f} add {a} {b}"));
        out.push(format!("c08.pf {f} sub {a} {b}"));
        out.push(format!("c08.pf {f} mul {a} {b}"));
        if i % 16 == 0 {
            out.push(format!("c08.pf {f} addassign {a} {b}"));
            out.push(format!("c08.pf {f} subassign {a} {b}"));
            out.push(format!("c08.pf {f} mulassign {a} {b}"));
        }
    }
    // conversions from u128: boundaries of u128 and around multiples / powers
    let mut vs: Vec<u128> = vec![0, 1, p - 1, p, p + 1, 2 * p - 1, 2 * p, 2 * p + 1, u128::MAX, u128::MAX - 1, u128::MAX / 2];
    for j in 0..128u32 {
        let x = 1u128 << j;
        vs.extend_from_slice(&[x, x - 1, x.wrapping_add(1), x.wrapping_add(p - 1), x.wrapping_add(p), x | (p - 1), x | p]);
        if j >= bits {
            // values whose folding rounds land exactly on / just above PRIME
            vs.push((1u128 << j) + (1u128 << bits) - 1);
            vs.push((1u128 << j) + (1u128 << bits) - 2);
            vs.push(((1u128 << j) - 1) ^ ((1u128 << bits) - 1) | p);
        }
    }
    for _ in 0..(if thorough { 2_000 } else { 100 }) {
        vs.push(rng.next_u128());
        vs.push(rng.next_u128() >> (rng.below(128) as u32));
    }
    vs.sort_unstable();
    vs.dedup();
    for v in &vs {
        out.push(format!("c08.pf {f} trunc {v}"));
        out.push(format!("c08.pf {f} tryfrom {v}"));
    }
    // deserialisation of raw storage patterns: canonical, PRIME, above, all-ones
    let max_store: u128 = if bytes == 16 { u128::MAX } else { (1u128 << (8 * bytes)) - 1 };
    let mut raws: Vec<u128> = vec![0, 1, p - 1, p, p + 1, max_store, max_store - 1];
    if bytes == 1 {
        raws = (0..=255).collect();
    }
    for _ in 0..(if thorough { 500 } else { 50 }) {
        raws.push(rng.next_u128() & max_store);
    }
    for r in raws {
        out.push(format!("c08.pf {f} deser {}", hex(&r.to_le_bytes()[..bytes])));
    }
    out.push(format!("c08.pf {f} deser {}", hex(&vec![0u8; bytes + 1])));
    // batch inversion
    for n in [1usize, 2, 3, 4, 5, 7, 8, 16] {
        for k in 0..(if thorough { 20 } else { 3 }) {
            let xs: Vec<u128> = (0..n)
                .map(|i| if k == 0 { [1, p - 1, 2, p - 2][i % 4] } else { 1 + rng.next_u128() % (p - 1) })
                .collect();
            out.push(format!("c08.pf {f} batchinv {}", nat_list(&xs)));
        }
    }
    out.push(format!("c08.pf {f} batchinv {}", nat_list(&[1u128, 0, 2])));
    // deferred-reduction accumulator around the reduce interval
    for n in [0usize, 1, 2, 6, 63, 64, 65, 127, 128, 129, 200] {
        for k in 0..(if thorough { 12 } else { 4 }) {
            let a: Vec<u128> = (0..n)
                .map(|_| match k { 0 => p - 1, 1 => (1u128 << (bits - 1)) % p, _ => rng.next_u128() % p })
                .collect();
            let b: Vec<u128> = (0..n)
                .map(|i| match k { 0 => p - 1, 1 => if i % 2 == 0 { (1u128 << (bits - 1)) % p } else { p - 1 }, _ => rng.next_u128() % p })
                .collect();
            out.push(format!("c08.pf {f} dot {} {}", nat_list(&a), nat_list(&b)));
            out.push(format!("c08.pf {f} dotarr {} {}", nat_list(&a), nat_list(&b)));
        }
        let a: Vec<u128> = (0..n).map(|_| rng.next_u128() % p).collect();
        out.push(format!("c08.pf {f} sum {}", nat_list(&a)));
    }
    // hand-picked: a dot product whose exact integer value is 2^(2*bits) + 2^bits - 1
    if bits >= 4 {
        let h = (1u128 << (bits - 1)) % p;
        let a = vec![h, h, h, h, 1, 1];
        let b = vec![h, h, h, h, p - 1, 1];
        out.push(format!("c08.pf {f} dot {} {}", nat_list(&a), nat_list(&b)));
    }
}

#[test]
fn verif_c08_prime() {
    run_suite(
        "c08_prime",
        |rng, thorough| {
            let mut out = vec![];
            gen_pf(rng, thorough, &mut out, "Fp31", u128::from(Fp31::PRIME), Fp31::BITS, 1);
            gen_pf(rng, thorough, &mut out, "Fp32BitPrime", u128::from(Fp32BitPrime::PRIME), Fp32BitPrime::BITS, 4);
            gen_pf(rng, thorough, &mut out, "Fp61BitPrime", u128::from(Fp61BitPrime::PRIME), Fp61BitPrime::BITS, 8);
            out
        },
        exec,
    );
}

// GF(2)[x] arithmetic on bit patterns (harness-side search for factors of POLYNOMIAL, degree <= 63).
fn poly_divmod(mut a: u128, m: u128) -> (u128, u128) {
    let dm = 127 - m.leading_zeros();
    let mut q = 0u128;
    while a != 0 && 127 - a.leading_zeros() >= dm {
        let s = (127 - a.leading_zeros()) - dm;
        q ^= 1 << s;
        a ^= m << s;
    }
    (q, a)
}

fn poly_mulmod(a: u128, b: u128, m: u128) -> u128 {
    let mut r = 0u128;
    let mut a = a;
    let mut b = b;
    while b != 0 {
        if b & 1 == 1 {
            r ^= a;
        }
        a <<= 1;
        b >>= 1;
    }
    poly_divmod(r, m).1
}

fn poly_gcd(mut a: u128, mut b: u128) -> u128 {
    while b != 0 {
        let r = poly_divmod(a, b).1;
        a = b;
        b = r;
    }
    a
}

/// A non-trivial factor of `p` over GF(2), if `p` is reducible: gcd(p, x^(2^i) - x) collects all
/// irreducible factors of degree dividing i.
fn poly_factor(p: u128) -> Option<u128> {
    let k = 127 - p.leading_zeros();
    if k <= 1 {
        return None;
    }
    let mut x2i: u128 = 2;
    for i in 1..=(k / 2) {
        x2i = poly_mulmod(x2i, x2i, p);
        let g = poly_gcd(p, x2i ^ 2);
        if g != 1 {
            if g != p {
                return Some(g);
            }
            // all irreducible factors have degree dividing i (small): trial division
            for f in 2u128..(1u128 << (i + 1)) {
                if f != p && poly_divmod(p, f).1 == 0 {
                    return Some(f);
                }
            }
            return None;
        }
    }
    None
}

fn gen_gf(rng: &mut Rng, thorough: bool, out: &mut Vec<String>, name: &str, bits: u32, poly: u128, bytes: usize) {
    let f = name;
    let n: u128 = 1u128 << bits;
    let mask = n - 1;
    // negation side of the field certificate: a non-trivial factorisation POLYNOMIAL = g * h gives the
    // zero-divisor pair (g, h), tried first on the real code.
    if let Some(g) = poly_factor(poly) {
        let (h, r) = poly_divmod(poly, g);
        assert!(r == 0, "harness: factor search is broken");
        if g >> bits == 0 && h >> bits == 0 {
            out.push(format!("c08.gf {f} mul {g} {h}"));
            out.push(format!("c08.gf {f} mul {h} {g}"));
        }
    }
    let mut boundary: Vec<u128> = vec![0, 1, 2, 3, mask, mask - 1 & mask, mask >> 1, (mask >> 1) + 1, poly & mask, (poly >> 1) & mask];
    for j in 0..bits {
        boundary.push(1u128 << j);
        boundary.push(((1u128 << j) + 1) & mask);
        boundary.push(((1u128 << j).wrapping_sub(1)) & mask);
    }
    boundary.sort_unstable();
    boundary.dedup();
    let exhaustive_pairs = bits <= 8;
    let elems: Vec<u128> = if bits <= 9 {
        (0..n).collect()
    } else {
        let mut v = boundary.clone();
        for _ in 0..(if thorough { 400 } else { 60 }) {
            v.push(rng.next_u128() & mask);
        }
        v
    };
    for &a in &elems {
        out.push(format!("c08.gf {f} neg {a}"));
        if bits > 9 || a % 8 == 0 {
            out.push(format!("c08.gf {f} mul {a} {a}"));
        }
    }
    let mut pairs: Vec<(u128, u128)> = vec![];
    if exhaustive_pairs {
        for a in 0..n {
            for b in 0..n {
                pairs.push((a, b));
            }
        }
    } else {
        let cap = if thorough { 40_000 } else { 2_500 };
        'outer: for &x in &boundary {
            for &y in &boundary {
                if pairs.len() >= cap {
                    break 'outer;
                }
                if x < 4 || y < 4 || x + 4 > mask || y + 4 > mask || (x ^ y) % 5 == 0 {
                    pairs.push((x, y));
                }
            }
        }
        for _ in 0..(if thorough { 20_000 } else { 1_500 }) {
            pairs.push((rng.next_u128() & mask, rng.next_u128() & mask));
        }
        if bits == 9 && thorough {
            for a in 0..n {
                for b in 0..n {
                    pairs.push((a, b));
                }
            }
        }
    }
    let dense = pairs.len() > 10_000;
    for (i, &(a, b)) in pairs.iter().enumerate() {
        out.push(format!("c08.gf {f} mul {a} {b}"));
        if !dense || i % 7 == 0 || a < 2 || b < 2 {
            out.push(format!("c08.gf {f} add {a} {b}"));
            out.push(format!("c08.gf {f} sub {a} {b}"));
        }
        if i % 16 == 0 {
            out.push(format!("c08.gf {f} mulassign {a} {b}"));
            out.push(format!("c08.gf {f} addassign {a} {b}"));
            out.push(format!("c08.gf {f} subassign {a} {b}"));
            out.push(format!("c08.gf {f} cmp {a} {b}"));
        }
    }
    // conversions from u128
    let mut vs: Vec<u128> = vec![0, 1, mask, n, n + 1, 2 * n - 1, u128::MAX, u128::MAX - 1, u128::MAX / 2];
    for j in 0..128u32 {
        let x = 1u128 << j;
        vs.extend_from_slice(&[x, x - 1, x.wrapping_add(1), x | mask, x | (mask >> 1)]);
    }
    for _ in 0..(if thorough { 1_000 } else { 60 }) {
        vs.push(rng.next_u128());
        vs.push(rng.next_u128() >> (rng.below(128) as u32));
    }
    vs.sort_unstable();
    vs.dedup();
    for v in &vs {
        out.push(format!("c08.gf {f} trunc {v}"));
        out.push(format!("c08.gf {f} tryfrom {v}"));
    }
    // raw store patterns: every byte pattern for one-byte stores, else boundaries + random
    let max_store: u128 = (1u128 << (8 * bytes)) - 1;
    let mut raws: Vec<u128> = if bytes == 1 {
        (0..=255).collect()
    } else {
        let mut r = vec![0, 1, mask, n, n + 1, n | 1, max_store, max_store - 1, mask ^ max_store];
        for j in bits..(8 * bytes as u32) {
            r.push(1u128 << j);
            r.push((1u128 << j) | (rng.next_u128() & mask));
        }
        r
    };
    for _ in 0..(if thorough { 400 } else { 40 }) {
        raws.push(rng.next_u128() & max_store);
        raws.push(rng.next_u128() & mask);
    }
    for r in raws {
        out.push(format!("c08.gf {f} deser {}", hex(&r.to_le_bytes()[..bytes])));
    }
    out.push(format!("c08.gf {f} deser {}", hex(&vec![0u8; bytes + 1])));
    for len in 0..=(bytes + 1) {
        out.push(format!("c08.gf {f} fromslice {}", hex(&rng.bytes(len))));
        out.push(format!("c08.gf {f} fromslice {}", hex(&vec![0xffu8; len])));
    }
}

#[test]
fn verif_c08_gf() {
    run_suite(
        "c08_gf",
        |rng, thorough| {
            let mut out = vec![];
            gen_gf(rng, thorough, &mut out, "Gf2", Gf2::BITS, Gf2::POLYNOMIAL, 1);
            gen_gf(rng, thorough, &mut out, "Gf3Bit", Gf3Bit::BITS, Gf3Bit::POLYNOMIAL, 1);
            gen_gf(rng, thorough, &mut out, "Gf8Bit", Gf8Bit::BITS, Gf8Bit::POLYNOMIAL, 1);
            gen_gf(rng, thorough, &mut out, "Gf9Bit", Gf9Bit::BITS, Gf9Bit::POLYNOMIAL, 2);
            gen_gf(rng, thorough, &mut out, "Gf20Bit", Gf20Bit::BITS, Gf20Bit::POLYNOMIAL, 3);
            gen_gf(rng, thorough, &mut out, "Gf32Bit", Gf32Bit::BITS, Gf32Bit::POLYNOMIAL, 4);
            gen_gf(rng, thorough, &mut out, "Gf40Bit", Gf40Bit::BITS, Gf40Bit::POLYNOMIAL, 5);
            out
        },
        exec,
    );
}

fn le_hex(bytes: usize, v: &[u8]) -> String {
    let mut b = v.to_vec();
    b.resize(bytes, 0);
    hex(&b[..bytes])
}

/// canonical element of a `bits`-wide array from random bytes
fn ba_elem(rng: &mut Rng, bits: usize, kind: usize) -> String {
    let bytes = (bits + 7) / 8;
    let mut b = match kind {
        0 => vec![0u8; bytes],
        1 => vec![0xffu8; bytes],
        2 => {
            let mut v = vec![0u8; bytes];
            v[0] = 1;
            v
        }
        3 => {
            // only the top bit
            let mut v = vec![0u8; bytes];
            v[(bits - 1) / 8] = 1 << ((bits - 1) % 8);
            v
        }
        4 => {
            let mut v = vec![0xaau8; bytes];
            v[0] = 0xa5;
            v
        }
        _ => rng.bytes(bytes),
    };
    if bits % 8 != 0 {
        b[bytes - 1] &= (1u8 << (bits % 8)) - 1;
    }
    hex(&b)
}

fn gen_ba(rng: &mut Rng, thorough: bool, out: &mut Vec<String>, name: &str, bits: usize, small: bool) {
    let f = name;
    let bytes = (bits + 7) / 8;
    let exhaustive = bits <= 8;
    let elems: Vec<String> = if exhaustive {
        (0u32..(1 << bits)).map(|v| le_hex(bytes, &v.to_le_bytes())).collect()
    } else {
        let mut v: Vec<String> = (0..5).map(|k| ba_elem(rng, bits, k)).collect();
        for _ in 0..(if thorough { 200 } else { 30 }) {
            v.push(ba_elem(rng, bits, 9));
        }
        v
    };
    for a in &elems {
        out.push(format!("c08.ba {f} not {a}"));
        out.push(format!("c08.ba {f} neg {a}"));
        out.push(format!("c08.ba {f} mulbool {a} 0"));
        out.push(format!("c08.ba {f} mulbool {a} 1"));
        out.push(format!("c08.ba {f} iter {a}"));
        out.push(format!("c08.ba {f} togf32 {a}"));
        if small {
            out.push(format!("c08.ba {f} asu128 {a}"));
        }
    }
    let mut pairs: Vec<(String, String)> = vec![];
    if exhaustive {
        for a in &elems {
            for b in &elems {
                pairs.push((a.clone(), b.clone()));
            }
        }
    } else {
        for a in elems.iter().take(8) {
            for b in elems.iter().take(8) {
                pairs.push((a.clone(), b.clone()));
            }
        }
        for _ in 0..(if thorough { 2_000 } else { 150 }) {
            pairs.push((ba_elem(rng, bits, 9), ba_elem(rng, bits, 9)));
        }
    }
    let dense = pairs.len() > 5_000;
    for (i, (a, b)) in pairs.iter().enumerate() {
        out.push(format!("c08.ba {f} add {a} {b}"));
        out.push(format!("c08.ba {f} mul {a} {b}"));
        if !dense || i % 5 == 0 {
            out.push(format!("c08.ba {f} sub {a} {b}"));
            out.push(format!("c08.ba {f} eq {a} {b}"));
        }
        if i % 11 == 0 {
            out.push(format!("c08.ba {f} addassign {a} {b}"));
            out.push(format!("c08.ba {f} subassign {a} {b}"));
            out.push(format!("c08.ba {f} mulassign {a} {b}"));
        }
    }
    // get / set on boundaries
    for a in elems.iter().take(if exhaustive { 256 } else { 12 }) {
        for i in [0usize, 1, bits / 2, bits - 1, bits, bits + 1, 8 * bytes - 1, 8 * bytes, 1000] {
            out.push(format!("c08.ba {f} get {a} {i}"));
            if i < bits {
                out.push(format!("c08.ba {f} set {a} {i} 0"));
                out.push(format!("c08.ba {f} set {a} {i} 1"));
            }
        }
    }
    out.push(format!("c08.ba {f} expand 0"));
    out.push(format!("c08.ba {f} expand 1"));
    // iterators / vectors of Booleans: exact, short, long
    for len in [0usize, 1, bits - 1, bits, bits + 1, bits + 9] {
        for k in 0..3 {
            let s: String = (0..len).map(|i| match k { 0 => '1', 1 => if i % 2 == 0 { '1' } else { '0' }, _ => if rng.bool() { '1' } else { '0' } }).collect();
            let s = if s.is_empty() { "-".to_string() } else { s };
            out.push(format!("c08.ba {f} fromiter {s}"));
            out.push(format!("c08.ba {f} tryfromvec {s}"));
        }
    }
    // raw store patterns: all bytes for one-byte stores; padding patterns otherwise
    let mut raws: Vec<Vec<u8>> = vec![];
    if bytes == 1 {
        for v in 0..=255u8 {
            raws.push(vec![v]);
        }
    } else {
        raws.push(vec![0; bytes]);
        raws.push(vec![0xff; bytes]);
        for j in (bits.saturating_sub(2))..(8 * bytes) {
            let mut v = vec![0u8; bytes];
            v[j / 8] |= 1 << (j % 8);
            raws.push(v.clone());
            let mut w = rng.bytes(bytes);
            w[j / 8] |= 1 << (j % 8);
            raws.push(w);
        }
        for _ in 0..(if thorough { 200 } else { 20 }) {
            raws.push(rng.bytes(bytes));
        }
    }
    for r in raws {
        out.push(format!("c08.ba {f} deser {}", hex(&r)));
    }
    out.push(format!("c08.ba {f} deser {}", hex(&vec![0u8; bytes + 1])));
    out.push(format!("c08.ba {f} deser {}", hex(&vec![0u8; bytes - 1])));
    if small {
        let n_mask: u128 = if bits >= 128 { u128::MAX } else { (1u128 << bits) - 1 };
        let mut vs: Vec<u128> = vec![0, 1, n_mask, n_mask.wrapping_add(1), n_mask.wrapping_add(2), u128::MAX, u128::MAX - 1, u128::MAX / 2];
        for j in 0..128u32 {
            let x = 1u128 << j;
            vs.extend_from_slice(&[x, x - 1, x.wrapping_add(1), x | n_mask]);
        }
        for _ in 0..(if thorough { 500 } else { 40 }) {
            vs.push(rng.next_u128());
            vs.push(rng.next_u128() >> (rng.below(128) as u32));
        }
        vs.sort_unstable();
        vs.dedup();
        for v in vs {
            out.push(format!("c08.ba {f} trunc {v}"));
            out.push(format!("c08.ba {f} tryfrom {v}"));
        }
    } else {
        for k in 0..(if thorough { 100 } else { 12 }) {
            let (a, b) = match k {
                0 => (0, 0),
                1 => (u128::MAX, u128::MAX),
                2 => (1, 1u128 << 127),
                _ => (rng.next_u128(), rng.next_u128()),
            };
            out.push(format!("c08.ba {f} fromrandom {a},{b}"));
        }
    }
}

#[test]
fn verif_c08_ba() {
    run_suite(
        "c08_ba",
        |rng, thorough| {
            let mut out = vec![];
            for (a, b) in [("0", "0"), ("0", "1"), ("1", "0"), ("1", "1")] {
                for op in ["add", "sub", "mul", "addassign", "subassign", "mulassign"] {
                    out.push(format!("c08.bool {op} {a} {b}"));
                }
            }
            for a in ["0", "1"] {
                for op in ["neg", "not", "asu128", "ser"] {
                    out.push(format!("c08.bool {op} {a}"));
                }
            }
            for v in [0u128, 1, 2, 3, 255, 256, u128::MAX, u128::MAX - 1, 1 << 64, (1 << 64) + 1] {
                out.push(format!("c08.bool trunc {v}"));
                out.push(format!("c08.bool tryfrom {v}"));
            }
            for b in 0..=255u8 {
                out.push(format!("c08.bool deser {}", hex(&[b])));
            }
            out.push("c08.bool deser 0000".to_string());
            for (name, bits, small) in [
                ("BA3", 3usize, true), ("BA4", 4, true), ("BA5", 5, true), ("BA6", 6, true), ("BA7", 7, true), ("BA8", 8, true),
                ("BA16", 16, true), ("BA20", 20, true), ("BA32", 32, true), ("BA64", 64, true), ("BA96", 96, true),
                ("BA112", 112, true), ("BA144", 144, false), ("BA256", 256, false),
            ] {
                gen_ba(rng, thorough, &mut out, name, bits, small);
            }
            out
        },
        exec,
    );
}

#[test]
fn verif_c08_shares() {
    run_suite(
        "c08_shares",
        |rng, thorough| {
            let mut out = vec![];
            for c in ["INVERSE_OF_TWO", "MINUS_ONE_HALF", "MINUS_TWO"] {
                out.push(format!("c08.const {c}"));
            }
            for (f, p) in [
                ("Fp31", u128::from(Fp31::PRIME)),
                ("Fp32BitPrime", u128::from(Fp32BitPrime::PRIME)),
                ("Fp61BitPrime", u128::from(Fp61BitPrime::PRIME)),
            ] {
                let corner = [0u128, 1, p - 1, p - 2, p / 2, p / 2 + 1];
                let n = if thorough { 4_000 } else { 300 };
                for k in 0..n {
                    let mut e = |rng: &mut Rng| if k < 60 || rng.below(4) == 0 { *rng.pick(&corner) } else { rng.next_u128() % p };
                    let v: Vec<u128> = (0..7).map(|_| e(rng)).collect();
                    out.push(format!("c08.share3 {f} add {} {} {} {} {} {}", v[0], v[1], v[2], v[3], v[4], v[5]));
                    out.push(format!("c08.share3 {f} sub {} {} {} {} {} {}", v[0], v[1], v[2], v[3], v[4], v[5]));
                    out.push(format!("c08.share3 {f} neg {} {} {}", v[0], v[1], v[2]));
                    out.push(format!("c08.share3 {f} mulconst {} {} {} {}", v[0], v[1], v[2], v[6]));
                }
                out.push(format!("c08.share3 {f} neg 0 0 0"));
                out.push(format!("c08.share3 {f} sub 0 0 0 0 0 0"));
            }
            out
        },
        exec,
    );
}
