// Correspondence suites for property C08 (fields are fields, canonical elements).
//
// Request grammar (prime fields):  c08.pf <Field> <op> <args…>
//   add a b | sub a b | mul a b | neg a | inv a | trunc v | tryfrom v | ser a | deser hex
//   batchinv a,b,… | dot a,… b,… | sum a,…
// Elements are given as canonical integers (a < PRIME) in decimal; responses are decimal / hex.
use generic_array::GenericArray;

use super::proto::*;
use crate::{
    ff::{
        Field, Fp31, Fp32BitPrime, Fp61BitPrime, GaloisField, Gf2, Gf3Bit, Gf8Bit, Gf9Bit, Gf20Bit,
        Gf32Bit, Gf40Bit, MultiplyAccumulate, MultiplyAccumulator, PrimeField, Serializable,
        U128Conversions, batch_invert,
    },
    secret_sharing::SharedValue,
};

fn raw<F: PrimeField + Serializable>(v: u128) -> F {
    // Build the element with representation `v` without going through a reduction:
    // deserialize accepts exactly the canonical range.
    let mut buf = GenericArray::<u8, F::Size>::default();
    let n = buf.len();
    buf.copy_from_slice(&v.to_le_bytes()[..n]);
    F::deserialize(&buf).unwrap_or_else(|_| panic!("harness: non-canonical operand {v}"))
}

fn batch_inv_n<F: PrimeField + Serializable>(xs: &[F]) -> Vec<F> {
    macro_rules! go {
        ($n:literal) => {{
            let mut a: [F; $n] = <[F; $n]>::try_from(xs.to_vec()).ok().unwrap();
            batch_invert(&mut a);
            a.to_vec()
        }};
    }
    match xs.len() {
        1 => go!(1),
        2 => go!(2),
        3 => go!(3),
        4 => go!(4),
        5 => go!(5),
        7 => go!(7),
        8 => go!(8),
        16 => go!(16),
        n => panic!("harness: unsupported batch_invert width {n}"),
    }
}

fn exec_pf<F>(op: &str, args: &[&str]) -> String
where
    F: PrimeField + Serializable + MultiplyAccumulate + std::iter::Sum,
{
    let e = |s: &str| raw::<F>(s.parse::<u128>().unwrap());
    let list = |s: &str| -> Vec<F> { parse_nat_list::<u128>(s).into_iter().map(raw::<F>).collect() };
    match op {
        "add" => (e(args[0]) + e(args[1])).as_u128().to_string(),
        "addassign" => {
            let mut x = e(args[0]);
            x += e(args[1]);
            x.as_u128().to_string()
        }
        "sub" => (e(args[0]) - e(args[1])).as_u128().to_string(),
        "subassign" => {
            let mut x = e(args[0]);
            x -= e(args[1]);
            x.as_u128().to_string()
        }
        "mul" => (e(args[0]) * e(args[1])).as_u128().to_string(),
        "mulassign" => {
            let mut x = e(args[0]);
            x *= e(args[1]);
            x.as_u128().to_string()
        }
        "neg" => (-e(args[0])).as_u128().to_string(),
        "inv" => e(args[0]).invert().as_u128().to_string(),
        "trunc" => F::truncate_from(args[0].parse::<u128>().unwrap()).as_u128().to_string(),
        "tryfrom" => match F::try_from(args[0].parse::<u128>().unwrap()) {
            Ok(v) => format!("ok {}", v.as_u128()),
            Err(_) => "err".into(),
        },
        "ser" => {
            let mut buf = GenericArray::<u8, F::Size>::default();
            e(args[0]).serialize(&mut buf);
            hex(&buf)
        }
        "deser" => {
            let b = unhex(args[0]);
            let mut buf = GenericArray::<u8, F::Size>::default();
            if b.len() != buf.len() {
                return "err".into();
            }
            buf.copy_from_slice(&b);
            match F::deserialize(&buf) {
                Ok(v) => format!("ok {}", v.as_u128()),
                Err(_) => "err".into(),
            }
        }
        "batchinv" => {
            let xs = list(args[0]);
            nat_list(&batch_inv_n(&xs).iter().map(|x| x.as_u128()).collect::<Vec<_>>())
        }
        "dot" => {
            let (a, b) = (list(args[0]), list(args[1]));
            let mut acc = <F as MultiplyAccumulate>::Accumulator::new();
            for (x, y) in a.iter().zip(b.iter()) {
                acc.multiply_accumulate(*x, *y);
            }
            acc.take().as_u128().to_string()
        }
        "sum" => list(args[0]).into_iter().sum::<F>().as_u128().to_string(),
        _ => panic!("harness: unknown op {op}"),
    }
}

// ------------------------------------------------------------------ binary fields
// Request grammar:  c08.gf <Type> <op> <args…>
//   add|sub|mul|addassign|subassign|mulassign a b | neg a | trunc v | tryfrom v | deser hex
//   fromslice hex | cmp a b
// Arithmetic responses: `<as_u128> <hex of serialize>` (value and raw store incl. padding bits).

fn gf_show<G: GaloisField + Serializable>(x: G) -> String {
    let mut buf = GenericArray::<u8, G::Size>::default();
    x.serialize(&mut buf);
    format!("{} {}", x.as_u128(), hex(&buf))
}

fn exec_gf<G>(op: &str, args: &[&str]) -> String
where
    G: GaloisField + Serializable + U128Conversions + Ord + for<'a> TryFrom<&'a [u8]>,
{
    let e = |s: &str| {
        let v = s.parse::<u128>().unwrap();
        assert!(v >> G::BITS == 0, "harness: operand {v} out of range");
        G::truncate_from(v)
    };
    match op {
        "add" => gf_show(e(args[0]) + e(args[1])),
        "addassign" => {
            let mut x = e(args[0]);
            x += e(args[1]);
            gf_show(x)
        }
        "sub" => gf_show(e(args[0]) - e(args[1])),
        "subassign" => {
            let mut x = e(args[0]);
            x -= e(args[1]);
            gf_show(x)
        }
        "mul" => gf_show(e(args[0]) * e(args[1])),
        "mulassign" => {
            let mut x = e(args[0]);
            x *= e(args[1]);
            gf_show(x)
        }
        "neg" => gf_show(-e(args[0])),
        "trunc" => gf_show(G::truncate_from(args[0].parse::<u128>().unwrap())),
        "tryfrom" => match G::try_from(args[0].parse::<u128>().unwrap()) {
            Ok(v) => format!("ok {}", v.as_u128()),
            Err(_) => "err".into(),
        },
        "deser" => {
            let b = unhex(args[0]);
            let mut buf = GenericArray::<u8, G::Size>::default();
            if b.len() != buf.len() {
                return "err".into();
            }
            buf.copy_from_slice(&b);
            match G::deserialize(&buf) {
                Ok(v) => format!("ok {}", v.as_u128()),
                Err(_) => "err".into(),
            }
        }
        "fromslice" => {
            let b = unhex(args[0]);
            match <G as TryFrom<&[u8]>>::try_from(b.as_slice()) {
                Ok(v) => format!("ok {}", v.as_u128()),
                Err(_) => "err".into(),
            }
        }
        "cmp" => match e(args[0]).cmp(&e(args[1])) {
            std::cmp::Ordering::Less => "0".into(),
            std::cmp::Ordering::Equal => "1".into(),
            std::cmp::Ordering::Greater => "2".into(),
        },
        _ => panic!("harness: unknown op {op}"),
    }
}

pub fn exec(req: &str) -> String {
    let t: Vec<&str> = req.split(' ').collect();
    match t[0] {
        "c08.gf" => match t[1] {
            "Gf2" => exec_gf::<Gf2>(t[2], &t[3..]),
            "Gf3Bit" => exec_gf::<Gf3Bit>(t[2], &t[3..]),
            "Gf8Bit" => exec_gf::<Gf8Bit>(t[2], &t[3..]),
            "Gf9Bit" => exec_gf::<Gf9Bit>(t[2], &t[3..]),
            "Gf20Bit" => exec_gf::<Gf20Bit>(t[2], &t[3..]),
            "Gf32Bit" => exec_gf::<Gf32Bit>(t[2], &t[3..]),
            "Gf40Bit" => exec_gf::<Gf40Bit>(t[2], &t[3..]),
            f => panic!("harness: unknown binary field {f}"),
        },
        "c08.pf" => match t[1] {
            "Fp31" => exec_pf::<Fp31>(t[2], &t[3..]),
            "Fp32BitPrime" => exec_pf::<Fp32BitPrime>(t[2], &t[3..]),
            "Fp61BitPrime" => exec_pf::<Fp61BitPrime>(t[2], &t[3..]),
            f => panic!("harness: unknown field {f}"),
        },
        _ => panic!("harness: unknown request {req}"),
    }
}

fn boundary(p: u128, bits: u32) -> Vec<u128> {
    let mut v = vec![0, 1, 2, 3, p - 1, p - 2, p - 3, p / 2, p / 2 + 1];
    for j in 0..bits {
        for d in [0i64, -1, 1] {
            let x = (1i128 << j) + i128::from(d);
            if x >= 0 && (x as u128) < p {
                v.push(x as u128);
            }
        }
    }
    v.sort_unstable();
    v.dedup();
    v
}

fn gen_pf(rng: &mut Rng, thorough: bool, out: &mut Vec<String>, name: &str, p: u128, bits: u32, bytes: usize) {
    let f = name;
    let small = p < 64;
    let mut elems = boundary(p, bits);
    let extra = if thorough { 400 } else { 40 };
    for _ in 0..extra {
        elems.push(rng.next_u128() % p);
    }
    // unary
    let unary: Vec<u128> = if small { (0..p).collect() } else { elems.clone() };
    for &a in &unary {
        out.push(format!("c08.pf {f} neg {a}"));
        out.push(format!("c08.pf {f} inv {a}"));
        out.push(format!("c08.pf {f} ser {a}"));
    }
    // binary: all pairs of the small field, boundary x boundary (capped) + random pairs otherwise
    let mut pairs: Vec<(u128, u128)> = vec![];
    if small {
        for a in 0..p {
            for b in 0..p {
                pairs.push((a, b));
            }
        }
    } else {
        let b = boundary(p, bits);
        let cap = if thorough { 20_000 } else { 1_500 };
        'outer: for &x in &b {
            for &y in &b {
                if pairs.len() >= cap {
                    break 'outer;
                }
                // thin out deterministically but keep the corners
                if x < 4 || y < 4 || x + 4 > p || y + 4 > p || (x ^ y) % 7 == 0 {
                    pairs.push((x, y));
                }
            }
        }
        for _ in 0..(if thorough { 5_000 } else { 300 }) {
            pairs.push((rng.next_u128() % p, rng.next_u128() % p));
        }
    }
    for (i, &(a, b)) in pairs.iter().enumerate() {
        out.push(format!("c08.pf {f} add {a} {b}"));
        out.push(format!("c08.pf {f} sub {a} {b}"));
        out.push(format!("c08.pf {f} mul {a} {b}"));
        if i % 16 == 0 {
            out.push(format!("c08.pf {f} addassign {a} {b}"));
            out.push(format!("c08.pf {f} subassign {a} {b}"));
            out.push(format!("c08.pf {f} mulassign {a} {b}"));
        }
    }
    // conversions from u128: boundaries of u128 and around multiples / powers
    let mut vs: Vec<u128> = vec![0, 1, p - 1, p, p + 1, 2 * p - 1, 2 * p, 2 * p + 1, u128::MAX, u128::MAX - 1, u128::MAX / 2];
    for j in 0..128u32 {
        let x = 1u128 << j;
        vs.extend_from_slice(&[x, x - 1, x.wrapping_add(1), x.wrapping_add(p - 1), x.wrapping_add(p), x | (p - 1), x | p]);
        if j >= bits {
            // values whose folding rounds land exactly on / just above PRIME
            vs.push((1u128 << j) + (1u128 << bits) - 1);
            vs.push((1u128 << j) + (1u128 << bits) - 2);
            vs.push(((1u128 << j) - 1) ^ ((1u128 << bits) - 1) | p);
        }
    }
    for _ in 0..(if thorough { 2_000 } else { 100 }) {
        vs.push(rng.next_u128());
        vs.push(rng.next_u128() >> (rng.below(128) as u32));
    }
    vs.sort_unstable();
    vs.dedup();
    for v in &vs {
        out.push(format!("c08.pf {f} trunc {v}"));
        out.push(format!("c08.pf {f} tryfrom {v}"));
    }
    // deserialisation of raw storage patterns: canonical, PRIME, above, all-ones
    let max_store: u128 = if bytes == 16 { u128::MAX } else { (1u128 << (8 * bytes)) - 1 };
    let mut raws: Vec<u128> = vec![0, 1, p - 1, p, p + 1, max_store, max_store - 1];
    if bytes == 1 {
        raws = (0..=255).collect();
    }
    for _ in 0..(if thorough { 500 } else { 50 }) {
        raws.push(rng.next_u128() & max_store);
    }
    for r in raws {
        out.push(format!("c08.pf {f} deser {}", hex(&r.to_le_bytes()[..bytes])));
    }
    out.push(format!("c08.pf {f} deser {}", hex(&vec![0u8; bytes + 1])));
    // batch inversion
    for n in [1usize, 2, 3, 4, 5, 7, 8, 16] {
        for k in 0..(if thorough { 20 } else { 3 }) {
            let xs: Vec<u128> = (0..n)
                .map(|i| if k == 0 { [1, p - 1, 2, p - 2][i % 4] } else { 1 + rng.next_u128() % (p - 1) })
                .collect();
            out.push(format!("c08.pf {f} batchinv {}", nat_list(&xs)));
        }
    }
    out.push(format!("c08.pf {f} batchinv {}", nat_list(&[1u128, 0, 2])));
    // deferred-reduction accumulator around the reduce interval
    for n in [0usize, 1, 2, 6, 63, 64, 65, 127, 128, 129, 200] {
        for k in 0..(if thorough { 12 } else { 4 }) {
            let a: Vec<u128> = (0..n)
                .map(|_| match k { 0 => p - 1, 1 => (1u128 << (bits - 1)) % p, _ => rng.next_u128() % p })
                .collect();
            let b: Vec<u128> = (0..n)
                .map(|i| match k { 0 => p - 1, 1 => if i % 2 == 0 { (1u128 << (bits - 1)) % p } else { p - 1 }, _ => rng.next_u128() % p })
                .collect();
            out.push(format!("c08.pf {f} dot {} {}", nat_list(&a), nat_list(&b)));
        }
        let a: Vec<u128> = (0..n).map(|_| rng.next_u128() % p).collect();
        out.push(format!("c08.pf {f} sum {}", nat_list(&a)));
    }
    // hand-picked: a dot product whose exact integer value is 2^(2*bits) + 2^bits - 1
    if bits >= 4 {
        let h = (1u128 << (bits - 1)) % p;
        let a = vec![h, h, h, h, 1, 1];
        let b = vec![h, h, h, h, p - 1, 1];
        out.push(format!("c08.pf {f} dot {} {}", nat_list(&a), nat_list(&b)));
    }
}

#[test]
fn verif_c08_prime() {
    run_suite(
        "c08_prime",
        |rng, thorough| {
            let mut out = vec![];
            gen_pf(rng, thorough, &mut out, "Fp31", u128::from(Fp31::PRIME), Fp31::BITS, 1);
            gen_pf(rng, thorough, &mut out, "Fp32BitPrime", u128::from(Fp32BitPrime::PRIME), Fp32BitPrime::BITS, 4);
            gen_pf(rng, thorough, &mut out, "Fp61BitPrime", u128::from(Fp61BitPrime::PRIME), Fp61BitPrime::BITS, 8);
            out
        },
        exec,
    );
}

// GF(2)[x] remainder / quotient on bit patterns (harness-side search for factors of POLYNOMIAL).
fn poly_divmod(mut a: u128, m: u128) -> (u128, u128) {
    let dm = 127 - m.leading_zeros();
    let mut q = 0u128;
    while a != 0 && 127 - a.leading_zeros() >= dm {
        let s = (127 - a.leading_zeros()) - dm;
        q ^= 1 << s;
        a ^= m << s;
    }
    (q, a)
}

fn gen_gf(rng: &mut Rng, thorough: bool, out: &mut Vec<String>, name: &str, bits: u32, poly: u128, bytes: usize) {
    let f = name;
    let n: u128 = 1u128 << bits;
    let mask = n - 1;
    // negation side of the field certificate: every factor of POLYNOMIAL of degree <= 12 gives the
    // zero-divisor pair (factor, cofactor), tried first on the real code.
    if bits >= 2 {
        for cand in 2u128..(1u128 << 13.min(bits)) {
            let (q, r) = poly_divmod(poly, cand);
            if r == 0 && cand != 1 && q != 1 {
                out.push(format!("c08.gf {f} mul {cand} {q}"));
                out.push(format!("c08.gf {f} mul {q} {cand}"));
            }
        }
    }
    let mut boundary: Vec<u128> = vec![0, 1, 2, 3, mask, mask - 1 & mask, mask >> 1, (mask >> 1) + 1, poly & mask, (poly >> 1) & mask];
    for j in 0..bits {
        boundary.push(1u128 << j);
        boundary.push(((1u128 << j) + 1) & mask);
        boundary.push(((1u128 << j).wrapping_sub(1)) & mask);
    }
    boundary.sort_unstable();
    boundary.dedup();
    let exhaustive_pairs = bits <= 8;
    let elems: Vec<u128> = if bits <= 9 {
        (0..n).collect()
    } else {
        let mut v = boundary.clone();
        for _ in 0..(if thorough { 400 } else { 60 }) {
            v.push(rng.next_u128() & mask);
        }
        v
    };
    for &a in &elems {
        out.push(format!("c08.gf {f} neg {a}"));
        if bits > 9 || a % 8 == 0 {
            out.push(format!("c08.gf {f} mul {a} {a}"));
        }
    }
    let mut pairs: Vec<(u128, u128)> = vec![];
    if exhaustive_pairs {
        for a in 0..n {
            for b in 0..n {
                pairs.push((a, b));
            }
        }
    } else {
        let cap = if thorough { 40_000 } else { 2_500 };
        'outer: for &x in &boundary {
            for &y in &boundary {
                if pairs.len() >= cap {
                    break 'outer;
                }
                if x < 4 || y < 4 || x + 4 > mask || y + 4 > mask || (x ^ y) % 5 == 0 {
                    pairs.push((x, y));
                }
            }
        }
        for _ in 0..(if thorough { 20_000 } else { 1_500 }) {
            pairs.push((rng.next_u128() & mask, rng.next_u128() & mask));
        }
        if bits == 9 && thorough {
            for a in 0..n {
                for b in 0..n {
                    pairs.push((a, b));
                }
            }
        }
    }
    let dense = pairs.len() > 10_000;
    for (i, &(a, b)) in pairs.iter().enumerate() {
        out.push(format!("c08.gf {f} mul {a} {b}"));
        if !dense || i % 7 == 0 || a < 2 || b < 2 {
            out.push(format!("c08.gf {f} add {a} {b}"));
            out.push(format!("c08.gf {f} sub {a} {b}"));
        }
        if i % 16 == 0 {
            out.push(format!("c08.gf {f} mulassign {a} {b}"));
            out.push(format!("c08.gf {f} addassign {a} {b}"));
            out.push(format!("c08.gf {f} subassign {a} {b}"));
            out.push(format!("c08.gf {f} cmp {a} {b}"));
        }
    }
    // conversions from u128
    let mut vs: Vec<u128> = vec![0, 1, mask, n, n + 1, 2 * n - 1, u128::MAX, u128::MAX - 1, u128::MAX / 2];
    for j in 0..128u32 {
        let x = 1u128 << j;
        vs.extend_from_slice(&[x, x - 1, x.wrapping_add(1), x | mask, x | (mask >> 1)]);
    }
    for _ in 0..(if thorough { 1_000 } else { 60 }) {
        vs.push(rng.next_u128());
        vs.push(rng.next_u128() >> (rng.below(128) as u32));
    }
    vs.sort_unstable();
    vs.dedup();
    for v in &vs {
        out.push(format!("c08.gf {f} trunc {v}"));
        out.push(format!("c08.gf {f} tryfrom {v}"));
    }
    // raw store patterns: every byte pattern for one-byte stores, else boundaries + random
    let max_store: u128 = (1u128 << (8 * bytes)) - 1;
    let mut raws: Vec<u128> = if bytes == 1 {
        (0..=255).collect()
    } else {
        let mut r = vec![0, 1, mask, n, n + 1, n | 1, max_store, max_store - 1, mask ^ max_store];
        for j in bits..(8 * bytes as u32) {
            r.push(1u128 << j);
            r.push((1u128 << j) | (rng.next_u128() & mask));
        }
        r
    };
    for _ in 0..(if thorough { 400 } else { 40 }) {
        raws.push(rng.next_u128() & max_store);
        raws.push(rng.next_u128() & mask);
    }
    for r in raws {
        out.push(format!("c08.gf {f} deser {}", hex(&r.to_le_bytes()[..bytes])));
    }
    out.push(format!("c08.gf {f} deser {}", hex(&vec![0u8; bytes + 1])));
    for len in 0..=(bytes + 1) {
        out.push(format!("c08.gf {f} fromslice {}", hex(&rng.bytes(len))));
        out.push(format!("c08.gf {f} fromslice {}", hex(&vec![0xffu8; len])));
    }
}

#[test]
fn verif_c08_gf() {
    run_suite(
        "c08_gf",
        |rng, thorough| {
            let mut out = vec![];
            gen_gf(rng, thorough, &mut out, "Gf2", Gf2::BITS, Gf2::POLYNOMIAL, 1);
            gen_gf(rng, thorough, &mut out, "Gf3Bit", Gf3Bit::BITS, Gf3Bit::POLYNOMIAL, 1);
            gen_gf(rng, thorough, &mut out, "Gf8Bit", Gf8Bit::BITS, Gf8Bit::POLYNOMIAL, 1);
            gen_gf(rng, thorough, &mut out, "Gf9Bit", Gf9Bit::BITS, Gf9Bit::POLYNOMIAL, 2);
            gen_gf(rng, thorough, &mut out, "Gf20Bit", Gf20Bit::BITS, Gf20Bit::POLYNOMIAL, 3);
            gen_gf(rng, thorough, &mut out, "Gf32Bit", Gf32Bit::BITS, Gf32Bit::POLYNOMIAL, 4);
            gen_gf(rng, thorough, &mut out, "Gf40Bit", Gf40Bit::BITS, Gf40Bit::POLYNOMIAL, 5);
            out
        },
        exec,
    );
}
