// Correspondence suites for property C01 (hybrid attribution = in-the-clear reference).
//
// Request grammar:
//   c01.e2e <sh|mal> <shards> <pad 0|1> <inst> <assign> <records>
//     inst    : prod  = hybrid_protocol::<_, BA8, BA3, BA32, 3, 256>   (the instantiation of Query::execute)
//               small = hybrid_protocol::<_, BA8, BA3, BA8, 3, 256>    (narrow output: buckets saturate at 255)
//     assign  : comma list, shard index of every record ("-" for none), or `rnd` = the test fixture's
//               seeded `Random` input distribution (the result does not depend on the distribution)
//     pad     : 0 = none, 1 = small parameters, 2 = `PaddingParameters::default()` (production)
//     records : comma list of  i:<mk>:<bk>  (impression)  |  c:<mk>:<v>  (conversion)   ("-" for none)
//   response: the reconstructed histogram of the leader shard `h0,h1,…`, or `err:<kind>`, `timeout`, `panic:…`.
use std::sync::Mutex;

use super::proto::*;
use crate::{
    error::Error,
    ff::{
        U128Conversions,
        boolean_array::{BA3, BA5, BA8, BA32},
    },
    helpers::query::DpMechanism,
    protocol::{
        hybrid::hybrid_protocol,
        ipa_prf::oprf_padding::{AggregationPadding, OPRFPadding, PaddingParameters},
    },
    report::hybrid::{HybridReport, IndistinguishableHybridReport},
    secret_sharing::replicated::semi_honest::AdditiveShare as Replicated,
    test_fixture::{
        Distribute, RandomInputDistribution, Reconstruct, Runner, TestWorld, TestWorldConfig, WithShards,
        hybrid::TestHybridRecord,
    },
};

/// Shard assignment used by `Scripted::distribute` (set before each run; runs are sequential).
thread_local! {
    /// per worker thread: `block_on` polls the root future (and hence `distribute`) on the calling thread
    static ASSIGN: std::cell::RefCell<Vec<usize>> = const { std::cell::RefCell::new(Vec::new()) };
}

pub struct Scripted;

impl Distribute for Scripted {
    fn distribute<const SHARDS: usize, A>(input: Vec<A>) -> [Vec<A>; SHARDS] {
        let assign = ASSIGN.with(|a| a.borrow().clone());
        let mut r: [Vec<A>; SHARDS] = std::array::from_fn(|_| Vec::new());
        for (i, share) in input.into_iter().enumerate() {
            r[assign[i] % SHARDS].push(share);
        }
        r
    }
}

pub fn parse_records(s: &str) -> Vec<TestHybridRecord> {
    if s == "-" {
        return vec![];
    }
    s.split(',')
        .map(|r| {
            let p: Vec<&str> = r.split(':').collect();
            let mk: u64 = p[1].parse().unwrap();
            let x: u32 = p[2].parse().unwrap();
            match p[0] {
                "i" => TestHybridRecord::TestImpression { match_key: mk, breakdown_key: x, key_id: 0 },
                "c" => TestHybridRecord::TestConversion {
                    match_key: mk,
                    value: x,
                    key_id: 0,
                    conversion_site_domain: "meta.com".to_string(),
                    timestamp: 100,
                    epsilon: 0.0,
                    sensitivity: 0.0,
                },
                k => panic!("harness: bad record kind {k}"),
            }
        })
        .collect()
}

pub fn small_padding() -> PaddingParameters {
    // cheap but non-trivial padding: a handful of dummy rows per pass
    PaddingParameters {
        aggregation_padding: AggregationPadding::Parameters {
            aggregation_epsilon: 10.0,
            aggregation_delta: 1e-2,
            aggregation_padding_sensitivity: 2,
        },
        oprf_padding: OPRFPadding::Parameters {
            oprf_epsilon: 10.0,
            oprf_delta: 1e-2,
            matchkey_cardinality_cap: 3,
            oprf_padding_sensitivity: 2,
        },
    }
}

/// TestWorld configuration of every C01 run. Under the compact step table (`--features compact-gate`)
/// gates can only be narrowed along the compiled step tree, so the world starts at the root of the
/// hybrid protocol (`ProtocolStep::Hybrid`, where `Query::execute` puts `hybrid_protocol`); with
/// descriptive gates the fixture's unique per-run gate is used.
fn c01_config(secs: u64, seed: u64) -> TestWorldConfig {
    let mut config = TestWorldConfig::default().with_timeout_secs(secs);
    config.seed = seed;
    #[cfg(compact_gate)]
    {
        use ipa_step::StepNarrow;
        config.initial_gate = Some(crate::protocol::Gate::default().narrow(&crate::protocol::step::ProtocolStep::Hybrid));
    }
    config
}

fn err_kind(e: &Error) -> String {
    let d = format!("{e:?}");
    let k: String = d.chars().take_while(|c| c.is_alphanumeric() || *c == '_').collect();
    format!("err:{k}")
}

macro_rules! run_inst {
    ($shards:literal, $D:ty, $seed:expr, $mal:expr, $pad:expr, $records:expr, $BK:ty, $V:ty, $HV:ty, $SS:literal, $B:literal) => {{
        let records: Vec<TestHybridRecord> = $records;
        let pad: PaddingParameters = $pad;
        // no modelled outcome is "never completes" (F8 is fixed: a shard without rows takes part in
        // every collective step): a limit that a loaded machine cannot reach
        // (tiny inputs finish in 1-4 s; their limit is shorter so that a tree on which shards wait for each
        // other forever - F8 - is reported within the check's budget)
        let secs = if records.len() <= 8 { 45 } else if !matches!(pad.oprf_padding, OPRFPadding::NoOPRFPadding) { 280 } else { 200 };
        let world = TestWorld::<WithShards<$shards, $D>>::with_shards(c01_config(secs, $seed));
        let inputs = records.into_iter();
        let results: Vec<[Result<Vec<Replicated<$HV>>, Error>; 3]> = if $mal {
            world
                .malicious(inputs, |ctx, input: Vec<HybridReport<$BK, $V>>| async move {
                    let rows: Vec<IndistinguishableHybridReport<$BK, $V>> = input.into_iter().map(Into::into).collect();
                    hybrid_protocol::<_, $BK, $V, $HV, $SS, $B>(ctx, rows, DpMechanism::NoDp, pad).await
                })
                .await
        } else {
            world
                .semi_honest(inputs, |ctx, input: Vec<HybridReport<$BK, $V>>| async move {
                    let rows: Vec<IndistinguishableHybridReport<$BK, $V>> = input.into_iter().map(Into::into).collect();
                    hybrid_protocol::<_, $BK, $V, $HV, $SS, $B>(ctx, rows, DpMechanism::NoDp, pad).await
                })
                .await
        };
        // any error anywhere is the outcome
        let mut out: Option<String> = None;
        for shard in &results {
            for r in shard {
                if let Err(e) = r {
                    out.get_or_insert(err_kind(e));
                }
            }
        }
        match out {
            Some(e) => e,
            None => {
                let leader = &results[0];
                let h: Vec<$HV> = [
                    leader[0].as_ref().unwrap().clone(),
                    leader[1].as_ref().unwrap().clone(),
                    leader[2].as_ref().unwrap().clone(),
                ]
                .reconstruct();
                let mut resp = nat_list(&h.iter().map(|x| x.as_u128()).collect::<Vec<_>>());
                // follower shards must return an empty histogram
                for (i, shard) in results.iter().enumerate().skip(1) {
                    for r in shard {
                        if !r.as_ref().unwrap().is_empty() {
                            resp = format!("follower-nonempty:{i}");
                        }
                    }
                }
                resp
            }
        }
    }};
}

macro_rules! by_shards {
    ($shards:expr, $rnd:expr, $($rest:tt)*) => {
        match ($shards, $rnd) {
            (1, false) => run_inst!(1, Scripted, $($rest)*),
            (2, false) => run_inst!(2, Scripted, $($rest)*),
            (3, false) => run_inst!(3, Scripted, $($rest)*),
            (4, false) => run_inst!(4, Scripted, $($rest)*),
            (5, false) => run_inst!(5, Scripted, $($rest)*),
            (2, true) => run_inst!(2, RandomInputDistribution<17>, $($rest)*),
            (3, true) => run_inst!(3, RandomInputDistribution<17>, $($rest)*),
            (n, r) => panic!("harness: unsupported shard count {n} (random distribution: {r})"),
        }
    };
}

/// c01.agg <sh|mal> <pseudonyms> <records>: real `aggregate_reports` on one shard; the i-th report carries
/// the i-th pseudonym (instead of a PRF value). Response: rows `bk:v` in output order, comma separated.
fn exec_agg(mal: bool, tags: Vec<u64>, records: Vec<TestHybridRecord>, seed: u64) -> String {
    use crate::{protocol::hybrid::agg::aggregate_reports, report::hybrid::{AggregateableHybridReport, PrfHybridReport}};
    let r = block_on_timeout(120, async move {
        let world = TestWorld::<WithShards<1>>::with_shards(c01_config(60, seed));
        macro_rules! body {
            () => {
                |ctx, input: Vec<HybridReport<BA8, BA3>>| {
                    let tags = tags.clone();
                    async move {
                        let prf: Vec<PrfHybridReport<BA8, BA3>> = input
                            .into_iter()
                            .zip(tags)
                            .map(|(r, t)| {
                                let r: IndistinguishableHybridReport<BA8, BA3> = r.into();
                                PrfHybridReport { match_key: t, value: r.value, breakdown_key: r.breakdown_key }
                            })
                            .collect();
                        aggregate_reports::<BA8, BA3, _>(ctx, prf).await
                    }
                }
            };
        }
        let results: Vec<[Result<Vec<AggregateableHybridReport<BA8, BA3>>, Error>; 3]> = if mal {
            world.malicious(records.into_iter(), body!()).await
        } else {
            world.semi_honest(records.into_iter(), body!()).await
        };
        let [a, b, c] = &results[0];
        match (a, b, c) {
            (Ok(a), Ok(b), Ok(c)) => {
                if a.len() != b.len() || b.len() != c.len() {
                    return "length-mismatch".to_string();
                }
                let rows: Vec<String> = (0..a.len())
                    .map(|i| {
                        let bk = [a[i].breakdown_key.clone(), b[i].breakdown_key.clone(), c[i].breakdown_key.clone()].reconstruct().as_u128();
                        let v = [a[i].value.clone(), b[i].value.clone(), c[i].value.clone()].reconstruct().as_u128();
                        format!("{bk}:{v}")
                    })
                    .collect();
                if rows.is_empty() { "-".to_string() } else { rows.join(",") }
            }
            _ => [a, b, c].iter().find_map(|r| r.as_ref().err()).map(err_kind).unwrap(),
        }
    });
    r.unwrap_or_else(|e| e)
}

/// c01.brk <sh|mal> <hv 8|32> <rows bk:v,…>: real `breakdown_reveal_aggregation` (no padding) on one shard.
fn exec_brk(mal: bool, hv: u32, rows: Vec<(u32, u32)>, seed: u64) -> String {
    use crate::{
        protocol::hybrid::breakdown_reveal::breakdown_reveal_aggregation,
        report::hybrid::AggregateableHybridReport,
        secret_sharing::{BitDecomposed, TransposeFrom},
        ff::boolean::Boolean,
        test_fixture::hybrid::TestAggregateableHybridReport,
    };
    let r = block_on_timeout(200, async move {
        let world = TestWorld::<WithShards<1>>::with_shards(c01_config(150, seed));
        let inputs = rows.into_iter().map(|(bk, v)| TestAggregateableHybridReport { match_key: (), value: v, breakdown_key: bk });
        macro_rules! run {
            ($HV:ty) => {{
                macro_rules! body {
                    () => {
                        |ctx, input: Vec<AggregateableHybridReport<BA8, BA3>>| async move {
                            let pad = PaddingParameters::no_padding();
                            // as in hybrid_protocol: `ctx.narrow(&Step::Aggregate)`
                            let ctx = crate::protocol::context::Context::narrow(&ctx, &crate::protocol::hybrid::step::HybridStep::Aggregate);
                            match breakdown_reveal_aggregation::<_, BA8, BA3, $HV, 256>(ctx, input, &pad).await {
                                Ok(r) => Ok(Vec::<Replicated<$HV>>::transposed_from(&r).unwrap()),
                                Err(e) => Err(e),
                            }
                        }
                    };
                }
                let results: Vec<[Result<Vec<Replicated<$HV>>, Error>; 3]> = if mal {
                    world.malicious(inputs, body!()).await
                } else {
                    world.semi_honest(inputs, body!()).await
                };
                let [a, b, c] = &results[0];
                match (a, b, c) {
                    (Ok(a), Ok(b), Ok(c)) => {
                        let h: Vec<$HV> = [a.clone(), b.clone(), c.clone()].reconstruct();
                        nat_list(&h.iter().map(|x| x.as_u128()).collect::<Vec<_>>())
                    }
                    _ => [a, b, c].iter().find_map(|r| r.as_ref().err()).map(err_kind).unwrap(),
                }
            }};
        }
        if hv == 8 { run!(BA8) } else { run!(BA32) }
    });
    r.unwrap_or_else(|e| e)
}

fn req_seed(req: &str) -> u64 {
    req.bytes().fold(0xcbf2_9ce4_8422_2325u64, |h, b| (h ^ u64::from(b)).wrapping_mul(0x0000_0100_0000_01B3))
}

pub fn exec(req: &str) -> String {
    let t: Vec<&str> = req.split(' ').collect();
    match t[0] {
        "c01.agg" => exec_agg(t[1] == "mal", parse_nat_list(t[2]), parse_records(t[3]), req_seed(req)),
        "c01.brk" => {
            let rows: Vec<(u32, u32)> = if t[3] == "-" { vec![] } else {
                t[3].split(',').map(|r| { let p: Vec<&str> = r.split(':').collect(); (p[0].parse().unwrap(), p[1].parse().unwrap()) }).collect()
            };
            exec_brk(t[1] == "mal", t[2].parse().unwrap(), rows, req_seed(req))
        }
        "c01.e2e" => {
            let mal = t[1] == "mal";
            let shards: usize = t[2].parse().unwrap();
            let pad = if t[3] == "1" { small_padding() } else if t[3] == "2" { PaddingParameters::default() } else { PaddingParameters::no_padding() };
            let rnd = t[5] == "rnd";
            let assign: Vec<usize> = if rnd { vec![] } else { parse_nat_list(t[5]) };
            let records = parse_records(t[6]);
            assert!(rnd || assign.len() == records.len(), "harness: one shard index per record");
            ASSIGN.with(|a| *a.borrow_mut() = assign);
            let inst = t[4].to_string();
            // PRSS / input-sharing randomness of the test world derives from the request line
            let seed = req.bytes().fold(0xcbf2_9ce4_8422_2325u64, |h, b| (h ^ u64::from(b)).wrapping_mul(0x0000_0100_0000_01B3));
            let r = block_on_timeout(300, async move {
                match inst.as_str() {
                    "prod" => by_shards!(shards, rnd, seed, mal, pad, records, BA8, BA3, BA32, 3, 256),
                    "small" => by_shards!(shards, rnd, seed, mal, pad, records, BA8, BA3, BA8, 3, 256),
                    i => panic!("harness: unknown instantiation {i}"),
                }
            });
            match r {
                Ok(s) => s,
                Err(e) => e,
            }
        }
        _ => panic!("harness: unknown request {req}"),
    }
}

pub fn rec_str(recs: &[(char, u64, u32)]) -> String {
    if recs.is_empty() {
        return "-".into();
    }
    recs.iter().map(|(k, mk, x)| format!("{k}:{mk}:{x}")).collect::<Vec<_>>().join(",")
}

/// A structured multiset: attributed pairs, duplicates, triples, lone impressions/conversions,
/// colliding breakdown sums, double conversions (bucket 0), double impressions.
pub fn gen_records(rng: &mut Rng, n_keys: usize, max_bk: u32, max_v: u32) -> Vec<(char, u64, u32)> {
    let mut recs = vec![];
    for _ in 0..n_keys {
        let mk = rng.next_u64() >> rng.below(40);
        let bk = rng.below(u64::from(max_bk)) as u32;
        let v = rng.below(u64::from(max_v)) as u32;
        let bk2 = rng.below(u64::from(max_bk)) as u32;
        let v2 = rng.below(u64::from(max_v)) as u32;
        match rng.below(12) {
            0..=4 => { recs.push(('i', mk, bk)); recs.push(('c', mk, v)); }
            5 => recs.push(('i', mk, bk)),
            6 => recs.push(('c', mk, v)),
            7 => { recs.push(('c', mk, v)); recs.push(('c', mk, v2)); }
            8 => { recs.push(('i', mk, bk)); recs.push(('i', mk, bk2)); }
            9 => { recs.push(('i', mk, bk)); recs.push(('c', mk, v)); recs.push(('c', mk, v2)); }
            10 => { recs.push(('c', mk, v)); recs.push(('i', mk, bk)); }
            _ => { recs.push(('i', mk, max_bk - 1)); recs.push(('c', mk, max_v - 1)); }
        }
    }
    rng.shuffle(&mut recs);
    recs
}

fn assign_str(rng: &mut Rng, n: usize, shards: usize, style: u64) -> String {
    let a: Vec<usize> = (0..n)
        .map(|i| match style {
            0 => i % shards,                    // round robin
            1 => rng.usize_below(shards),       // random
            2 => 0,                             // everything on the leader shard
            _ => shards - 1 - (i % shards),     // reversed round robin
        })
        .collect();
    nat_list(&a)
}

pub fn gen_stages(rng: &mut Rng, thorough: bool) -> Vec<String> {
            let mut out = vec![];
            // --- aggregate_reports: pseudonym multiplicities 1,2,3,4; pseudonym order vs arrival order; wrap-around
            out.push("c01.agg sh 5,5 i:1:3,c:1:4".to_string());
            out.push("c01.agg mal 9,3,9,3,7 i:1:200,c:2:7,i:1:100,c:2:7,i:3:1".to_string());
            out.push("c01.agg sh 4,4,4,8,8,8,8,2,2,6 c:1:1,c:1:2,c:1:3,i:2:1,i:2:2,i:2:3,i:2:4,c:3:5,i:3:250,i:4:9".to_string());
            out.push("c01.agg sh 18446744073709551615,0,18446744073709551615,0 i:1:1,c:2:2,c:1:3,i:2:255".to_string());
            for _ in 0..(if thorough { 30 } else { 6 }) {
                let n = 2 + rng.usize_below(24);
                let nk = 1 + rng.usize_below(n);
                let keys: Vec<u64> = (0..nk).map(|_| rng.next_u64() >> rng.below(60)).collect();
                let tags: Vec<u64> = (0..n).map(|_| *rng.pick(&keys)).collect();
                let recs: Vec<(char, u64, u32)> = (0..n).map(|i| if rng.bool() { ('i', i as u64, rng.below(256) as u32) } else { ('c', i as u64, rng.below(8) as u32) }).collect();
                let mode = if rng.bool() { "sh" } else { "mal" };
                out.push(format!("c01.agg {mode} {} {}", nat_list(&tags), rec_str(&recs)));
            }
            // --- breakdown_reveal_aggregation: row counts around powers of two and the proof-chunk size (8 in test
            // builds), several buckets, saturation at 8 bits
            for (mode, hv, n) in [("sh", 32, 1usize), ("sh", 32, 2), ("mal", 32, 3), ("sh", 32, 7), ("mal", 32, 8), ("sh", 32, 9), ("sh", 32, 17), ("mal", 8, 40), ("sh", 8, 64), ("sh", 8, 65)] {
                let rows: Vec<String> = (0..n).map(|i| format!("{}:{}", if i % 5 == 4 { 200 } else { 3 }, if hv == 8 { 7 } else { 1 + (i as u32 % 7) })).collect();
                out.push(format!("c01.brk {mode} {hv} {}", rows.join(",")));
            }
            for _ in 0..(if thorough { 20 } else { 3 }) {
                let n = 1 + rng.usize_below(40);
                let nb = 1 + rng.below(4);
                let rows: Vec<String> = (0..n).map(|_| format!("{}:{}", rng.below(nb) * 85, rng.below(8))).collect();
                let mode = if rng.bool() { "sh" } else { "mal" };
                out.push(format!("c01.brk {mode} {} {}", if rng.bool() { 8 } else { 32 }, rows.join(",")));
            }
            out
}

#[test]
fn verif_c01_stages() {
    run_suite("c01_stages", gen_stages, exec);
}

pub fn gen_e2e(rng: &mut Rng, thorough: bool) -> Vec<String> {
            let mut out = vec![];
            // --- single shard, both modes, no padding: small structured inputs incl. corner multisets
            out.push("c01.e2e sh 1 0 prod - -".to_string());
            for mode in ["sh", "mal"] {
                // one attributed pair; colliding breakdown sums; wrap of value (7+7 mod 8) and of key (BA8: 200+100 mod 256 via two impressions)
                out.push(format!("c01.e2e {mode} 1 0 prod 0,0 i:5:3,c:5:4"));
                out.push(format!("c01.e2e {mode} 1 0 prod 0,0,0,0 c:9:7,c:9:7,i:8:200,i:8:100"));
                out.push(format!("c01.e2e {mode} 1 0 prod 0,0,0,0,0,0,0 i:1:2,c:1:3,i:2:2,c:2:4,c:3:1,c:3:1,c:3:1"));
            }
            // only impressions / only conversions / a single record: nothing is attributed
            out.push("c01.e2e sh 1 0 prod 0,0,0 i:1:1,i:2:2,i:3:3".to_string());
            out.push("c01.e2e mal 1 0 prod 0,0 c:1:1,c:2:2".to_string());
            out.push("c01.e2e sh 1 0 prod 0 i:1:1".to_string());
            // saturation at the output width: small instantiation, 40 pairs of value sum 7 in bucket 3 (280 > 255)
            {
                let mut recs = vec![];
                for k in 0..40u64 {
                    recs.push(('i', 1000 + k, 3));
                    recs.push(('c', 1000 + k, 7));
                }
                recs.push(('i', 7, 4));
                recs.push(('c', 7, 5));
                let a = nat_list(&vec![0usize; recs.len()]);
                out.push(format!("c01.e2e sh 1 0 small {a} {}", rec_str(&recs)));
                let a2 = nat_list(&(0..recs.len()).map(|i| i % 2).collect::<Vec<_>>());
                out.push(format!("c01.e2e mal 2 0 small {a2} {}", rec_str(&recs)));
            }
            // every declared layer of the breakdown-reveal tree aggregation: more than 8^3 = 512 attributed rows in ONE bucket
            // on one shard need a fourth layer (AggregationStep::Aggregate(3)) under the test-build proof-chunk size
            // (seed C01g: the declared layer count dropped to 3 -> panic, no histogram); 513 = 512 + a last chunk of one row
            {
                let mut recs = vec![];
                for k in 0..513u64 {
                    recs.push(('i', 5000 + k, 3));
                    recs.push(('c', 5000 + k, (k % 2) as u32));
                }
                let a = nat_list(&vec![0usize; recs.len()]);
                out.push(format!("c01.e2e sh 1 0 small {a} {}", rec_str(&recs)));
                if thorough {
                    out.push(format!("c01.e2e mal 1 0 small {a} {}", rec_str(&recs)));
                }
            }
            // --- F8 (fixed) witnesses: a shard that enters with no rows (2 shards, everything on shard 0)
            out.push("c01.e2e sh 2 0 prod 0,0,0,0 i:1:2,c:1:3,i:2:2,c:2:4".to_string());
            out.push("c01.e2e mal 2 0 prod 0,0,0,0 i:1:2,c:1:3,i:2:2,c:2:4".to_string());
            // --- tiny multi-shard inputs: shards without rows at every stage (on entry; after the input
            // shuffle; without pairs after resharding by pseudonym; without rows after the second shuffle),
            // an empty leader, an entirely empty multi-shard query, nothing attributed anywhere
            {
                const SIX: [(char, u64, u32); 6] = [('i', 1, 2), ('c', 1, 3), ('i', 2, 7), ('c', 2, 4), ('c', 3, 1), ('i', 4, 9)];
                let combos = [("sh", 0), ("mal", 1), ("mal", 0), ("sh", 1)];
                let mut k = 0usize;
                // every assignment of the first 0..=4 reports to 2 shards (31 assignments); quick: the
                // (mode, padding) combination rotates, thorough: all four
                for n in 0..=4usize {
                    for bits in 0..(1usize << n) {
                        let a = nat_list(&(0..n).map(|j| (bits >> j) & 1).collect::<Vec<_>>());
                        let r = rec_str(&SIX[..n]);
                        for (c, (mode, pad)) in combos.iter().enumerate() {
                            // quick: every third assignment (the rotation still visits all four combinations)
                            if thorough || (c == k % 4 && (k % 3 == 0 || n == 4 && bits == (1 << n) - 1)) {
                                out.push(format!("c01.e2e {mode} 2 {pad} prod {a} {r}"));
                            }
                        }
                        k += 1;
                    }
                }
                // 2..=5 shards x 0..=6 reports: everything on the leader / on the last shard (empty leader) /
                // round robin / random
                for shards in 2..=5usize {
                    for n in 0..=6usize {
                        let r = rec_str(&SIX[..n]);
                        for style in 0..4u64 {
                            let a = match style {
                                0 => nat_list(&vec![0usize; n]),
                                1 => nat_list(&vec![shards - 1; n]),
                                2 => nat_list(&(0..n).map(|j| j % shards).collect::<Vec<_>>()),
                                _ => nat_list(&(0..n).map(|_| rng.usize_below(shards)).collect::<Vec<_>>()),
                            };
                            for (c, (mode, pad)) in combos.iter().enumerate() {
                                // quick: report counts 0, 1, 3, 6 only
                                if (thorough && (c + n) % 2 == 0) || (style == ((shards + n) % 4) as u64 && c == k % 4 && matches!(n, 0 | 1 | 3 | 6)) {
                                    // padded runs cost 5-20 s each with 3+ shards: quick keeps them for n = 3 only
                                    let pad = if !thorough && shards >= 3 && *pad == 1 && n != 3 { 0 } else { *pad };
                                    out.push(format!("c01.e2e {mode} {shards} {pad} prod {a} {r}"));
                                }
                            }
                            k += 1;
                        }
                    }
                }
                // nothing attributed on any shard (only impressions / only conversions / a triple), and
                // both pairs of a 3-shard query on the LAST shard's input
                out.push("c01.e2e sh 3 0 prod 0,1,2 i:1:1,i:2:2,i:3:3".to_string());
                out.push("c01.e2e mal 2 0 prod 1,1 c:1:1,c:2:2".to_string());
                out.push("c01.e2e mal 3 1 prod 2,1,0 i:5:1,c:5:2,c:5:3".to_string());
                out.push("c01.e2e sh 3 1 prod 2,2,2,2 i:1:2,c:1:3,i:2:7,c:2:4".to_string());
                // saturation across shards with one empty shard (small instantiation, 3 shards, shard 1 empty)
                let mut recs = vec![];
                for j in 0..40u64 {
                    recs.push(('i', 2000 + j, 3));
                    recs.push(('c', 2000 + j, 7));
                }
                let a = nat_list(&(0..recs.len()).map(|i| if i % 2 == 0 { 0 } else { 2 }).collect::<Vec<_>>());
                out.push(format!("c01.e2e sh 3 0 small {a} {}", rec_str(&recs)));
            }
            // --- pairs split across shards (the two reports of a match key arrive on DIFFERENT shards and
            // meet only after resharding by pseudonym); value sums that wrap (7+7 -> 6 in bucket 0);
            // double impressions whose breakdown keys wrap (200+100); a triple spread over three shards
            for (mode, shards, pad) in [("sh", 2usize, 0), ("mal", 3, 0), ("mal", 2, 1)] {
                let mut recs: Vec<(char, u64, u32)> = vec![];
                let mut assign: Vec<usize> = vec![];
                for j in 0..(32 * shards) {
                    let k = 50_000 + 3 * j as u64;
                    let (a, b) = (j % shards, (j + 1) % shards);
                    match j % 11 {
                        3 | 8 => { recs.push(('c', k, 7)); recs.push(('c', k, 7)); assign.push(a); assign.push(b); }
                        5 => { recs.push(('i', k, 200)); recs.push(('i', k, 100)); assign.push(a); assign.push(b); }
                        7 => { recs.push(('i', k, 9)); recs.push(('c', k, 1)); recs.push(('c', k, 2)); assign.push(a); assign.push(b); assign.push((j + 2) % shards); }
                        _ => { recs.push(('i', k, (j as u32 * 37) % 256)); recs.push(('c', k, 1 + (j as u32 % 7))); assign.push(a); assign.push(b); }
                    }
                }
                out.push(format!("c01.e2e {mode} {shards} {pad} prod {} {}", nat_list(&assign), rec_str(&recs)));
            }
            // --- the fixture's seeded Random distribution
            {
                let recs = gen_records(rng, 70, 256, 8);
                out.push(format!("c01.e2e mal 2 0 prod rnd {}", rec_str(&recs)));
            }
            if thorough {
                // production padding parameters (`PaddingParameters::default()`), as used by `Query::execute`
                for (mode, shards) in [("mal", 1usize), ("sh", 2), ("mal", 2)] {
                    let recs = gen_records(rng, 32 * shards, 256, 8);
                    let a = assign_str(rng, recs.len(), shards, 0);
                    out.push(format!("c01.e2e {mode} {shards} 2 prod {a} {}", rec_str(&recs)));
                }
                let recs = gen_records(rng, 100, 256, 8);
                out.push(format!("c01.e2e sh 3 0 small rnd {}", rec_str(&recs)));
            }
            // --- random structured multisets
            let n_runs = if thorough { 60 } else { 8 };
            for i in 0..n_runs {
                let shards = if i < 5 { [1usize, 2, 3, 5, 4][i] } else { *rng.pick(&[1usize, 2, 3, 4, 5]) };
                let mode = if rng.bool() { "sh" } else { "mal" };
                let pad = if i % 3 == 2 { 1 } else { 0 };
                let inst = if i % 4 == 3 { "small" } else { "prod" };
                let (max_bk, max_v) = (256, 8);
                // many keys per shard, or so few that shards run out of rows / pairs at some stage
                let n_keys = if i % 2 == 0 { 30 * shards + rng.usize_below(10) } else { rng.usize_below(3 * shards + 1) };
                let recs = gen_records(rng, n_keys, max_bk, max_v);
                let style = rng.below(2);
                let a = assign_str(rng, recs.len(), shards, style);
                out.push(format!("c01.e2e {mode} {shards} {pad} {inst} {a} {}", rec_str(&recs)));
            }
            out
}

#[test]
fn verif_c01_e2e() {
    run_suite_par("c01_e2e",
        4, gen_e2e, exec);
}

// ---- the same suites under the compact step table (props/C01.json "extra_builds": built with
// `--no-default-features --features compact-gate,…` and IPA_VERIF_DIR = harness/c01_compact, thorough tier).
// Distinct suite / test names; the quick-tier request lists are used (a second full build plus ~50
// protocol runs), including the multi-shard inputs with empty shards (F8, fixed).
#[cfg(compact_gate)]
#[test]
fn verif_c01c_stages() {
    run_suite("c01c_stages", |rng, _| gen_stages(rng, false), exec);
}

#[cfg(compact_gate)]
#[test]
fn verif_c01c_e2e() {
    run_suite(
        "c01c_e2e",
        |rng, _| gen_e2e(rng, false),
        exec,
    );
}
