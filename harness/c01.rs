// Correspondence suites for property C01. Each suite is a #[test] fn named verif_c01_<suite>.
