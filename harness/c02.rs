// Correspondence / fault-injection suites for property C02 (one tampering helper can abort a query but
// never change its result).
//
// Request grammar:
//   c02.channels <shards> <pad> <records>
//       honest malicious-mode hybrid query with a recording interceptor; response: sorted list of
//       `<gate>|<src>><dst>|<bytes>` separated by `;`  (helper-to-helper channels only)
//   c02.tamper <shards> <pad> <records> <corrupt H1|H2|H3> <dest H1|H2|H3> <pattern> <gate>
//       same query, with the interceptor altering the traffic `corrupt -> dest` on `gate`:
//       pattern = flip:<byte offset>:<bit>  |  add:<byte offset>:<delta>  |  zero  |  swap
//       response: `abort-or-same abort:<kind>` | `abort-or-same same` | `changed <histogram>` | `untouched`
use std::sync::{Arc, Mutex};

use futures::future::try_join3;

use super::{c01, proto::*};
use crate::{
    error::Error,
    ff::{U128Conversions, boolean_array::{BA3, BA8, BA32}},
    helpers::{
        HelperIdentity, Role, RoleAssignment,
        in_memory_config::{InspectContext, StreamInterceptor},
        query::DpMechanism,
    },
    protocol::{hybrid::hybrid_protocol, ipa_prf::oprf_padding::PaddingParameters},
    report::hybrid::{HybridReport, IndistinguishableHybridReport},
    secret_sharing::{IntoShares, replicated::semi_honest::AdditiveShare as Replicated},
    test_fixture::{Reconstruct, TestWorld, TestWorldConfig, WithShards, hybrid::TestHybridRecord},
};

#[derive(Clone, Debug)]
pub enum Pattern {
    None,
    Flip(usize, u8),
    Add(usize, u8),
    Zero,
    Swap,
}

#[derive(Default)]
pub struct Recorder {
    /// (gate, src, dst) -> bytes seen
    pub seen: Mutex<std::collections::BTreeMap<(String, u8, u8), usize>>,
    pub target: Option<(String, u8, u8)>,
    pub pattern: Option<Pattern>,
    pub hits: Mutex<usize>,
}

fn hid(h: HelperIdentity) -> u8 {
    if h == HelperIdentity::ONE { 1 } else if h == HelperIdentity::TWO { 2 } else { 3 }
}

impl StreamInterceptor for Recorder {
    type Context = InspectContext;

    fn peek(&self, ctx: &InspectContext, data: &mut Vec<u8>) {
        if let InspectContext::MpcMessage { source, dest, gate, .. } = ctx {
            let key = (gate.as_ref().to_string(), hid(*source), hid(*dest));
            let mut seen = self.seen.lock().unwrap();
            let offset_before = *seen.get(&key).unwrap_or(&0);
            *seen.entry(key.clone()).or_insert(0) += data.len();
            drop(seen);
            if let (Some(t), Some(p)) = (&self.target, &self.pattern) {
                if *t == key && !data.is_empty() {
                    match p {
                        Pattern::Flip(off, bit) => {
                            // offset counted over the whole channel
                            if *off >= offset_before && *off < offset_before + data.len() {
                                data[*off - offset_before] ^= 1 << bit;
                                *self.hits.lock().unwrap() += 1;
                            }
                        }
                        Pattern::Add(off, d) => {
                            if *off >= offset_before && *off < offset_before + data.len() {
                                let i = *off - offset_before;
                                data[i] = data[i].wrapping_add(*d);
                                *self.hits.lock().unwrap() += 1;
                            }
                        }
                        Pattern::Zero => {
                            if offset_before == 0 && data.iter().any(|b| *b != 0) {
                                for b in data.iter_mut() {
                                    *b = 0;
                                }
                                *self.hits.lock().unwrap() += 1;
                            }
                        }
                        Pattern::Swap => {
                            if offset_before == 0 && data.len() >= 2 {
                                let n = data.len();
                                if data[0] != data[n - 1] {
                                    data.swap(0, n - 1);
                                    *self.hits.lock().unwrap() += 1;
                                }
                            }
                        }
                        Pattern::None => {}
                    }
                }
            }
        }
    }
}

/// `protocol/iter000/a/b12/bit3` -> `a/b#/bit#` (run prefix dropped, digit runs at the end of a segment -> `#`)
pub fn normalize_gate(g: &str) -> String {
    g.split('/')
        .filter(|s| !s.is_empty())
        .skip(2)
        .map(|seg| {
            let t = seg.trim_end_matches(|c: char| c.is_ascii_digit());
            if t.len() < seg.len() { format!("{t}#") } else { seg.to_string() }
        })
        .collect::<Vec<_>>()
        .join("/")
}

fn parse_pattern(s: &str) -> Pattern {
    let p: Vec<&str> = s.split(':').collect();
    match p[0] {
        "flip" => Pattern::Flip(p[1].parse().unwrap(), p[2].parse().unwrap()),
        "add" => Pattern::Add(p[1].parse().unwrap(), p[2].parse().unwrap()),
        "zero" => Pattern::Zero,
        "swap" => Pattern::Swap,
        "none" => Pattern::None,
        x => panic!("harness: bad pattern {x}"),
    }
}

pub enum Outcome {
    Hist(Vec<u128>),
    Abort(String),
}

/// Runs the hybrid protocol in malicious mode on one shard... with `shards` shards and the given recorder.
async fn run_query<const SHARDS: usize>(
    recorder: Arc<Recorder>,
    pad: PaddingParameters,
    records: Vec<TestHybridRecord>,
    seed: u64,
    secs: u64,
) -> Outcome {
    let mut config = TestWorldConfig::default().with_timeout_secs(secs);
    config.seed = seed;
    config.stream_interceptor = recorder;
    let world = TestWorld::<WithShards<SHARDS>>::with_shards(config);
    let mut rng = Rng(seed ^ 0x5555);
    let [i1, i2, i3]: [Vec<HybridReport<BA8, BA3>>; 3] = records.into_iter().share_with(&mut rng);
    let ctxs = world.malicious_contexts();
    let [c1, c2, c3] = ctxs;
    // round-robin distribution of the shares to shards
    let dist = |v: Vec<HybridReport<BA8, BA3>>| -> Vec<Vec<IndistinguishableHybridReport<BA8, BA3>>> {
        let mut r: Vec<Vec<_>> = (0..SHARDS).map(|_| vec![]).collect();
        for (i, x) in v.into_iter().enumerate() {
            r[i % SHARDS].push(x.into());
        }
        r
    };
    let helper = |ctxs: Vec<_>, inputs: Vec<Vec<IndistinguishableHybridReport<BA8, BA3>>>| {
        futures::future::try_join_all(ctxs.into_iter().zip(inputs).map(|(ctx, rows)| {
            hybrid_protocol::<_, BA8, BA3, BA32, 3, 256>(ctx, rows, DpMechanism::NoDp, pad)
        }))
    };
    let fut = try_join3(helper(c1, dist(i1)), helper(c2, dist(i2)), helper(c3, dist(i3)));
    match tokio::time::timeout(std::time::Duration::from_secs(secs), fut).await {
        Err(_) => Outcome::Abort("hang".into()),
        Ok(Err(e)) => {
            let d = format!("{e:?}");
            Outcome::Abort(d.chars().take_while(|c| c.is_alphanumeric() || *c == '_').collect())
        }
        Ok(Ok((r1, r2, r3))) => {
            let h: Vec<BA32> = [r1[0].clone(), r2[0].clone(), r3[0].clone()].reconstruct();
            Outcome::Hist(h.iter().map(|x| x.as_u128()).collect())
        }
    }
}

fn run_blocking(shards: usize, recorder: Arc<Recorder>, pad: PaddingParameters, records: Vec<TestHybridRecord>, seed: u64, secs: u64) -> Outcome {
    let r = block_on_timeout(secs + 20, async move {
        match shards {
            1 => run_query::<1>(recorder, pad, records, seed, secs).await,
            2 => run_query::<2>(recorder, pad, records, seed, secs).await,
            n => panic!("harness: unsupported shard count {n}"),
        }
    });
    match r {
        Ok(o) => o,
        Err(_) => Outcome::Abort("hang".into()),
    }
}

/// A helper task that panics has crashed: the query produces no output (abort).
fn run_guarded(shards: usize, recorder: Arc<Recorder>, pad: PaddingParameters, records: Vec<TestHybridRecord>, seed: u64, secs: u64) -> Outcome {
    match guarded(|| run_blocking(shards, recorder, pad, records, seed, secs)) {
        Ok(o) => o,
        Err(p) => Outcome::Abort(format!("crash({})", p.chars().take(70).collect::<String>().replace(' ', "_"))),
    }
}

fn pad_of(s: &str) -> PaddingParameters {
    if s == "1" { c01::small_padding() } else { PaddingParameters::no_padding() }
}

fn seed_of(shards: &str, pad: &str, recs: &str) -> u64 {
    format!("{shards} {pad} {recs}").bytes().fold(0xcbf2_9ce4_8422_2325u64, |h, b| (h ^ u64::from(b)).wrapping_mul(0x0000_0100_0000_01B3))
}

pub fn exec(req: &str) -> String {
    let t: Vec<&str> = req.split(' ').collect();
    match t[0] {
        "c02.channels" => {
            let rec = Arc::new(Recorder::default());
            let o = run_blocking(t[1].parse().unwrap(), rec.clone(), pad_of(t[2]), c01::parse_records(t[3]), seed_of(t[1], t[2], t[3]), 60);
            let seen = rec.seen.lock().unwrap();
            let mut chans: Vec<String> = seen.iter().map(|((g, _, _), _)| normalize_gate(g)).collect();
            chans.sort();
            chans.dedup();
            match o {
                Outcome::Hist(_) => chans.join(","),
                Outcome::Abort(k) => format!("abort:{k}"),
            }
        }
        "c02.tamper" => {
            let shards: usize = t[1].parse().unwrap();
            let seed = seed_of(t[1], t[2], t[3]);
            let key = format!("{} {} {}", t[1], t[2], t[3]);
            let cached = HONEST.lock().unwrap().get(&key).cloned();
            let honest = match cached {
                Some(h) => h,
                None => {
                    let honest = run_blocking(shards, Arc::new(Recorder::default()), pad_of(t[2]), c01::parse_records(t[3]), seed, 60);
                    let Outcome::Hist(honest) = honest else { return "honest-run-failed".into() };
                    HONEST.lock().unwrap().insert(key, honest.clone());
                    honest
                }
            };
            let src: u8 = t[4][1..].parse().unwrap();
            let dst: u8 = t[5][1..].parse().unwrap();
            let rec = Arc::new(Recorder {
                target: Some((t[7].to_string(), src, dst)),
                pattern: Some(parse_pattern(t[6])),
                ..Default::default()
            });
            let o = run_guarded(shards, rec.clone(), pad_of(t[2]), c01::parse_records(t[3]), seed, 12);
            let hits = *rec.hits.lock().unwrap();
            match o {
                Outcome::Abort(k) => format!("abort-or-same abort:{k}"),
                Outcome::Hist(h) if h == honest => {
                    if hits == 0 { "untouched".into() } else { "abort-or-same same".into() }
                }
                Outcome::Hist(h) => format!("changed {}", nat_list(&h)),
            }
        }
        _ => panic!("harness: unknown request {req}"),
    }
}

static HONEST: Mutex<std::collections::BTreeMap<String, Vec<u128>>> = Mutex::new(std::collections::BTreeMap::new());

/// honest run listing every concrete channel (gate, src, dst, bytes)
fn list_channels(shards: usize, pad: &str, recs: &str) -> Vec<(String, u8, u8, usize)> {
    let rec = Arc::new(Recorder::default());
    let sh = shards.to_string();
    let _ = run_blocking(shards, rec.clone(), pad_of(pad), c01::parse_records(recs), seed_of(&sh, pad, recs), 60);
    let seen = rec.seen.lock().unwrap();
    seen.iter().map(|((g, s, d), n)| (g.clone(), *s, *d, *n)).collect()
}

fn gen_tamper(rng: &mut Rng, thorough: bool, shards: usize, pad: &str, recs: &str, out: &mut Vec<String>) {
    let chans = list_channels(shards, pad, recs);
    // group concrete channels by normalised gate class
    let mut classes: std::collections::BTreeMap<String, Vec<(String, u8, u8, usize)>> = Default::default();
    for c in chans {
        if c.3 > 0 {
            classes.entry(normalize_gate(&c.0)).or_default().push(c);
        }
    }
    let per_class = if thorough { 12 } else { 1 };
    for (ci, (_class, members)) in classes.iter().enumerate() {
        for k in 0..per_class {
            let (g, s, d, n) = rng.pick(members).clone();
            let pat = match (ci + k) % 5 {
                0 => format!("flip:0:{}", rng.below(8)),
                1 => format!("flip:{}:{}", n - 1, rng.below(8)),
                2 => format!("add:{}:{}", rng.usize_below(n), 1 + rng.below(255)),
                3 => "zero".to_string(),
                _ => format!("flip:{}:{}", rng.usize_below(n), rng.below(8)),
            };
            out.push(format!("c02.tamper {shards} {pad} {recs} H{s} H{d} {pat} {g}"));
        }
    }
}

pub const RECS: &str = "i:11:3,c:11:2,i:12:3,c:12:5,c:13:1,c:13:2,i:14:9,i:15:1,c:15:4,c:16:3,i:17:3,c:17:1";

#[test]
fn verif_c02_tamper() {
    run_suite(
        "c02_tamper",
        |rng, thorough| {
            let mut out = vec![];
            gen_tamper(rng, thorough, 1, "0", RECS, &mut out);
            if thorough {
                gen_tamper(rng, thorough, 1, "1", RECS, &mut out);
            }
            out
        },
        exec,
    );
}

#[test]
fn verif_c02_channels() {
    run_suite(
        "c02_channels",
        |rng, _thorough| {
            let big = c01::rec_str(&c01::gen_records(rng, 70, 256, 8));
            vec![format!("c02.channels 1 0 {RECS}"), format!("c02.channels 1 1 {RECS}"), format!("c02.channels 2 0 {big}")]
        },
        exec,
    );
}
