// Correspondence suites for property C02. Each suite is a #[test] fn named verif_c02_<suite>.
