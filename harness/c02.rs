// Correspondence / fault-injection suites for property C02 (one tampering helper can abort a query but
// never change its result).
//
// Request grammar:
//   c02.channels <shards> <pad> <records>
//       honest malicious-mode hybrid query with a recording interceptor; response: every observed chunk in the
//       order in which the receiving side pulled it (consecutive chunks of one channel merged), `,`-separated:
//       `<gate>|m|<src><dst>|<shard or ->`  helper-to-helper,  `<gate>|x|<helper>|<src>><dst>`  shard-to-shard
//   c02.shardtraffic <shards> <pad> <records>
//       same run; response: the shard-to-shard gates (normalised) with chunk counts, `<gate>:<n>` `,`-separated
//   c02.tamper <shards> <pad> <records> <corrupt H1|H2|H3> <actions>
//       same query; the interceptor alters messages sent by (or, to keep its own view in step, received by) the corrupt helper. actions (`,`-separated, all applied
//       in the same run): `<src><dst>|<shard or ->|<pattern>|<gate>` (src or dst = the corrupt helper); pattern =
//         flip:<byte offset>:<bit> | add:<byte offset>:<delta> | zero | swap          (blind, byte level)
//         f25:<elem>:<p|m><delta> | f61:<elem>:<p|m><delta>    additive offset on field element <elem> of the channel
//         swaprec:<size>:<a>:<b> | replay:<size>:<from>:<to>   records of <size> bytes swapped / replayed
//         macshift:<size>:<row>:<word>:<delta>    MAC-consistent change of a shuffle row (delta in the word, key*delta in the tag)
//       response: `abort-or-same abort:<kind>` | `abort-or-same same` | `changed <histogram>` | `untouched`
//   c02.recorded <shards> <pad> <records>
//       honest run in a world of its own; response `t:<gates with helper-to-helper traffic> r:<gates whose multiplication
//       intermediates were pushed into a DZKP batch>` (full gate names, run prefix dropped, `,`-separated, sorted)
//   c02.extraclasses <shards> <pad> <records>
//       honest run; response: the gate classes this configuration has on top of the basic one-shard configuration,
//       `<class>:<sending helpers>` `,`-separated (the last layers of the query: suite c02_lastlayer)
use std::sync::{Arc, Mutex};

use futures::future::try_join3;

use super::{c01, proto::*};
use crate::{
    error::Error,
    ff::{
        Field, Fp61BitPrime, Gf32Bit, Serializable, U128Conversions,
        boolean_array::{BA3, BA8, BA32},
        ec_prime_field::Fp25519,
    },
    helpers::{
        HelperIdentity, Role, RoleAssignment,
        in_memory_config::{InspectContext, StreamInterceptor},
        query::DpMechanism,
    },
    protocol::{hybrid::hybrid_protocol, ipa_prf::oprf_padding::PaddingParameters},
    report::hybrid::{HybridReport, IndistinguishableHybridReport},
    secret_sharing::{
        IntoShares,
        replicated::{ReplicatedSecretSharing, semi_honest::AdditiveShare as Replicated},
    },
    test_fixture::{Reconstruct, TestWorld, TestWorldConfig, WithShards, hybrid::TestHybridRecord},
};

#[derive(Clone, Debug)]
pub enum Pattern {
    None,
    Flip(usize, u8),
    Add(usize, u8),
    Zero,
    Swap,
    /// additive offset on field element `elem` of the channel (little-endian elements of `size` bytes):
    /// `f25:<elem>:<p|m><delta>` (Fp25519, 32 bytes; the offset is the field element `Fp25519::from(delta)`,
    /// `m` = its negation), `f61:<elem>:<p|m><delta>` (Fp61BitPrime, 8 bytes)
    FieldAdd { f61: bool, elem: usize, neg: bool, delta: u64 },
    /// swap records `a` and `b` (of `size` bytes each) if both travel in the same chunk
    SwapRec { size: usize, a: usize, b: usize },
    /// overwrite record `to` with the bytes of the earlier record `from`
    Replay { size: usize, from: usize, to: usize },
    /// MAC-consistent change of a shuffle row (rows of `size` bytes = data ++ 4-byte tag): `delta` is XORed into
    /// 32-bit word `word` of row `row` and `key(word) * delta` (GF(2^32)) into its tag. `macshift:<size>:<row>:<word>:<delta>`;
    /// the key is the one opened on `verify_shuffle/reveal_m_a_c_key` (see `exec`).
    MacShift { size: usize, row: usize, word: usize, delta: u32 },
}

pub struct Action {
    /// (full gate, src, dst, shard)
    pub key: (String, u8, u8, Option<u32>),
    pub pattern: Pattern,
    pub saved: Mutex<Option<Vec<u8>>>,
    /// for `MacShift`: the opened MAC key of the altered word
    pub mac_key: Option<u32>,
}

/// one observed chunk, in the order in which the receiving side pulled it
#[derive(Clone, Debug)]
pub struct Ev {
    pub gate: String,
    /// `true`: helper-to-helper message (`a` = source helper, `b` = destination helper, `shard`);
    /// `false`: shard-to-shard message inside helper `a` (`b` unused; `shards` = (source, dest))
    pub mpc: bool,
    pub a: u8,
    pub b: u8,
    pub shard: Option<u32>,
    pub shards: (u32, u32),
    pub len: usize,
}

#[derive(Default)]
pub struct Recorder {
    /// (gate, src, dst, shard) -> bytes seen (helper-to-helper channels)
    pub seen: Mutex<std::collections::BTreeMap<(String, u8, u8, Option<u32>), usize>>,
    pub events: Mutex<Vec<Ev>>,
    pub actions: Vec<Action>,
    pub hits: Mutex<usize>,
    /// bytes seen on the key-opening gates of the shuffles (`…/verify_shuffle/reveal_m_a_c_key`)
    pub key_msgs: Mutex<std::collections::BTreeMap<(String, u8, u8, Option<u32>), Vec<u8>>>,
    /// run gate of the world (`c02w<k>`) when the recorded DZKP gates of the run are wanted
    pub world_tag: Option<String>,
}

/// Gates whose multiplication intermediates were pushed into a DZKP batch (`Batch::push`, reported through the guarded
/// hook in dzkp_validator.rs), per world started by `c02.recorded` (key = the world's run gate `c02w<k>`).
static PUSHED: Mutex<std::collections::BTreeMap<String, std::collections::BTreeSet<String>>> = Mutex::new(std::collections::BTreeMap::new());
static WORLDS: std::sync::atomic::AtomicUsize = std::sync::atomic::AtomicUsize::new(0);

pub fn note_push(gate: &str) {
    let mut it = gate.split('/').filter(|s| !s.is_empty());
    if let (Some(_), Some(w)) = (it.next(), it.next()) {
        if w.starts_with("c02w") {
            PUSHED.lock().unwrap_or_else(|e| e.into_inner()).entry(w.to_string()).or_default().insert(gate.to_string());
        }
    }
}

/// `protocol/c02w3/a/b12` -> `a/b12`
fn strip_run(g: &str) -> String {
    g.split('/').filter(|s| !s.is_empty()).skip(2).collect::<Vec<_>>().join("/")
}

fn hid(h: HelperIdentity) -> u8 {
    if h == HelperIdentity::ONE { 1 } else if h == HelperIdentity::TWO { 2 } else { 3 }
}

fn field_add(slot: &mut [u8], f61: bool, neg: bool, delta: u64) {
    if f61 {
        let d = Fp61BitPrime::truncate_from(u128::from(delta));
        let v = Fp61BitPrime::deserialize_from_slice(slot);
        let v = if neg { v - d } else { v + d };
        v.serialize_to_slice(slot);
    } else {
        let d = Fp25519::from(delta);
        let v = Fp25519::deserialize_from_slice(slot);
        let v = if neg { v - d } else { v + d };
        v.serialize_to_slice(slot);
    }
}

impl Recorder {
    fn apply(&self, act: &Action, offset_before: usize, data: &mut Vec<u8>) {
        let hit = || *self.hits.lock().unwrap() += 1;
        let end = offset_before + data.len();
        match &act.pattern {
            Pattern::Flip(off, bit) => {
                // offset counted over the whole channel
                if *off >= offset_before && *off < end {
                    data[*off - offset_before] ^= 1 << bit;
                    hit();
                }
            }
            Pattern::Add(off, d) => {
                if *off >= offset_before && *off < end {
                    let i = *off - offset_before;
                    data[i] = data[i].wrapping_add(*d);
                    hit();
                }
            }
            Pattern::Zero => {
                if offset_before == 0 && data.iter().any(|b| *b != 0) {
                    for b in data.iter_mut() {
                        *b = 0;
                    }
                    hit();
                }
            }
            Pattern::Swap => {
                if offset_before == 0 && data.len() >= 2 {
                    let n = data.len();
                    if data[0] != data[n - 1] {
                        data.swap(0, n - 1);
                        hit();
                    }
                }
            }
            Pattern::FieldAdd { f61, elem, neg, delta } => {
                let size = if *f61 { 8 } else { 32 };
                let lo = elem * size;
                if lo >= offset_before && lo + size <= end {
                    let i = lo - offset_before;
                    // a canonical encoding is required by `deserialize`; anything else is left alone
                    let ok = guarded(|| {
                        let mut slot = data[i..i + size].to_vec();
                        field_add(&mut slot, *f61, *neg, *delta);
                        slot
                    });
                    if let Ok(slot) = ok {
                        data[i..i + size].copy_from_slice(&slot);
                        hit();
                    }
                }
            }
            Pattern::SwapRec { size, a, b } => {
                let (la, lb) = (a * size, b * size);
                if la >= offset_before && lb >= offset_before && la + size <= end && lb + size <= end && a != b {
                    let (ia, ib) = (la - offset_before, lb - offset_before);
                    let ra = data[ia..ia + size].to_vec();
                    let rb = data[ib..ib + size].to_vec();
                    if ra != rb {
                        data[ia..ia + size].copy_from_slice(&rb);
                        data[ib..ib + size].copy_from_slice(&ra);
                        hit();
                    }
                }
            }
            Pattern::Replay { size, from, to } => {
                let (lf, lt) = (from * size, to * size);
                if lf >= offset_before && lf + size <= end {
                    let i = lf - offset_before;
                    *act.saved.lock().unwrap() = Some(data[i..i + size].to_vec());
                }
                if lt >= offset_before && lt + size <= end {
                    if let Some(sv) = act.saved.lock().unwrap().clone() {
                        let i = lt - offset_before;
                        if data[i..i + size] != sv[..] {
                            data[i..i + size].copy_from_slice(&sv);
                            hit();
                        }
                    }
                }
            }
            Pattern::MacShift { size, row, word, delta } => {
                let lo = row * size;
                if let (Some(k), true) = (act.mac_key, lo >= offset_before && lo + size <= end && 4 * word + 4 <= size - 4) {
                    let i = lo - offset_before;
                    let d = Gf32Bit::truncate_from(u128::from(*delta));
                    let t = (Gf32Bit::truncate_from(u128::from(k)) * d).as_u128() as u32;
                    for (b, x) in data[i + 4 * word..i + 4 * word + 4].iter_mut().zip(delta.to_le_bytes()) {
                        *b ^= x;
                    }
                    for (b, x) in data[i + size - 4..i + size].iter_mut().zip(t.to_le_bytes()) {
                        *b ^= x;
                    }
                    hit();
                }
            }
            Pattern::None => {}
        }
    }
}

impl StreamInterceptor for Recorder {
    type Context = InspectContext;

    fn peek(&self, ctx: &InspectContext, data: &mut Vec<u8>) {
        match ctx {
            InspectContext::MpcMessage { shard, source, dest, gate } => {
                let sh = shard.map(u32::from);
                let key = (gate.as_ref().to_string(), hid(*source), hid(*dest), sh);
                let offset_before = {
                    let mut seen = self.seen.lock().unwrap();
                    let before = *seen.get(&key).unwrap_or(&0);
                    *seen.entry(key.clone()).or_insert(0) += data.len();
                    before
                };
                self.events.lock().unwrap().push(Ev {
                    gate: key.0.clone(), mpc: true, a: key.1, b: key.2, shard: sh, shards: (0, 0), len: data.len(),
                });
                if key.0.ends_with("/verify_shuffle/reveal_m_a_c_key") {
                    self.key_msgs.lock().unwrap().entry(key.clone()).or_default().extend_from_slice(data);
                }
                if !data.is_empty() {
                    for act in &self.actions {
                        if act.key == key {
                            self.apply(act, offset_before, data);
                        }
                    }
                }
            }
            InspectContext::ShardMessage { helper, source, dest, gate } => {
                self.events.lock().unwrap().push(Ev {
                    gate: gate.as_ref().to_string(), mpc: false, a: hid(*helper), b: 0, shard: None,
                    shards: (u32::from(*source), u32::from(*dest)), len: data.len(),
                });
            }
        }
    }
}

/// `protocol/iter000/a/b12/bit3` -> `a/b#/bit#` (run prefix dropped, digit runs at the end of a segment -> `#`)
pub fn normalize_gate(g: &str) -> String {
    g.split('/')
        .filter(|s| !s.is_empty())
        .skip(2)
        .map(|seg| {
            let t = seg.trim_end_matches(|c: char| c.is_ascii_digit());
            if t.len() < seg.len() { format!("{t}#") } else { seg.to_string() }
        })
        .collect::<Vec<_>>()
        .join("/")
}

fn parse_pattern(s: &str) -> Pattern {
    let p: Vec<&str> = s.split(':').collect();
    let signed = |x: &str| -> (bool, u64) { (x.starts_with('m'), x[1..].parse().unwrap()) };
    match p[0] {
        "flip" => Pattern::Flip(p[1].parse().unwrap(), p[2].parse().unwrap()),
        "add" => Pattern::Add(p[1].parse().unwrap(), p[2].parse().unwrap()),
        "zero" => Pattern::Zero,
        "swap" => Pattern::Swap,
        "none" => Pattern::None,
        "f25" | "f61" => {
            let (neg, delta) = signed(p[2]);
            Pattern::FieldAdd { f61: p[0] == "f61", elem: p[1].parse().unwrap(), neg, delta }
        }
        "swaprec" => Pattern::SwapRec { size: p[1].parse().unwrap(), a: p[2].parse().unwrap(), b: p[3].parse().unwrap() },
        "macshift" => Pattern::MacShift { size: p[1].parse().unwrap(), row: p[2].parse().unwrap(), word: p[3].parse().unwrap(), delta: p[4].parse().unwrap() },
        "replay" => Pattern::Replay { size: p[1].parse().unwrap(), from: p[2].parse().unwrap(), to: p[3].parse().unwrap() },
        x => panic!("harness: bad pattern {x}"),
    }
}

/// `<src><dst>|<shard or ->|<pattern>|<gate>` joined by `,` (`<src><dst>` = two helper digits, e.g. `13` = H1 -> H3).
/// Every action must involve the corrupt helper: a message it sends, or a message it receives (altering what the
/// corrupt helper receives is the corrupt helper changing its own local state, e.g. to stay in step with the
/// values it made the honest helpers hold).
fn parse_actions(corrupt: u8, s: &str) -> Vec<Action> {
    s.split(',')
        .map(|a| {
            let f: Vec<&str> = a.split('|').collect();
            let src: u8 = f[0][0..1].parse().unwrap();
            let dst: u8 = f[0][1..2].parse().unwrap();
            assert!(src == corrupt || dst == corrupt, "harness: action {a} does not involve the corrupt helper H{corrupt}");
            let shard = if f[1] == "-" { None } else { Some(f[1].parse().unwrap()) };
            Action { key: (f[3].to_string(), src, dst, shard), pattern: parse_pattern(f[2]), saved: Mutex::new(None), mac_key: None }
        })
        .collect()
}

pub enum Outcome {
    Hist(Vec<u128>),
    Abort(String),
    /// both honest helpers finished but their output shares do not fit together
    Inconsistent,
}

/// Runs the hybrid protocol in malicious mode on one shard... with `shards` shards and the given recorder.
async fn run_query<const SHARDS: usize>(
    recorder: Arc<Recorder>,
    pad: PaddingParameters,
    records: Vec<TestHybridRecord>,
    seed: u64,
    secs: u64,
    corrupt: Option<u8>,
) -> Outcome {
    let mut config = TestWorldConfig::default().with_timeout_secs(secs);
    config.seed = seed;
    // a run whose recorded DZKP gates are wanted (`c02.recorded`) gets its own run gate `protocol/c02w<k>` instead
    // of `protocol/iter000`, so that the registry can tell its pushes from those of the worlds of other tests
    if let Some(tag) = recorder.world_tag.as_ref() {
        config.initial_gate = Some(ipa_step::StepNarrow::narrow(&crate::protocol::Gate::default(), tag.as_str()));
    }
    config.stream_interceptor = recorder;
    let world = TestWorld::<WithShards<SHARDS>>::with_shards(config);
    let mut rng = Rng(seed ^ 0x5555);
    let [i1, i2, i3]: [Vec<HybridReport<BA8, BA3>>; 3] = records.into_iter().share_with(&mut rng);
    let ctxs = world.malicious_contexts();
    let [c1, c2, c3] = ctxs;
    // round-robin distribution of the shares to shards
    let dist = |v: Vec<HybridReport<BA8, BA3>>| -> Vec<Vec<IndistinguishableHybridReport<BA8, BA3>>> {
        let mut r: Vec<Vec<_>> = (0..SHARDS).map(|_| vec![]).collect();
        for (i, x) in v.into_iter().enumerate() {
            r[i % SHARDS].push(x.into());
        }
        r
    };
    let helper = |ctxs: Vec<_>, inputs: Vec<Vec<IndistinguishableHybridReport<BA8, BA3>>>| {
        futures::future::try_join_all(ctxs.into_iter().zip(inputs).map(|(ctx, rows)| {
            hybrid_protocol::<_, BA8, BA3, BA32, 3, 256>(ctx, rows, DpMechanism::NoDp, pad)
        }))
    };
    let abort_of = |e: Error| -> Outcome {
        let d = format!("{e:?}");
        Outcome::Abort(d.chars().take_while(|c| c.is_alphanumeric() || *c == '_').collect())
    };
    let limit = std::time::Duration::from_secs(secs);
    let Some(corrupt) = corrupt else {
        // honest run: all three helpers must finish; the result is reconstructed from all three
        let fut = try_join3(helper(c1, dist(i1)), helper(c2, dist(i2)), helper(c3, dist(i3)));
        return match tokio::time::timeout(limit, fut).await {
            Err(_) => Outcome::Abort("hang".into()),
            Ok(Err(e)) => abort_of(e),
            Ok(Ok((r1, r2, r3))) => {
                let h: Vec<BA32> = [r1[0].clone(), r2[0].clone(), r3[0].clone()].reconstruct();
                Outcome::Hist(h.iter().map(|x| x.as_u128()).collect())
            }
        };
    };
    // Tampered run: what counts is what the two HONEST helpers do (the corrupt helper is simulated by honest code
    // whose messages are altered; an error raised only by that code is not an abort of the query). Abort as soon as an
    // honest helper fails; otherwise wait for both honest helpers and reconstruct from THEIR shares only:
    // A = corrupt+1 holds (s_A, s_B), B = corrupt+2 holds (s_B, s_C): value = s_A + s_B + s_C, and s_B must agree.
    let mut futs: Vec<Option<std::pin::Pin<Box<dyn std::future::Future<Output = Result<Vec<Vec<Replicated<BA32>>>, Error>> + '_>>>> =
        vec![Some(Box::pin(helper(c1, dist(i1)))), Some(Box::pin(helper(c2, dist(i2)))), Some(Box::pin(helper(c3, dist(i3))))];
    let ia = usize::from(corrupt % 3);
    let ib = usize::from((corrupt + 1) % 3);
    let ic = usize::from(corrupt - 1);
    let honest = Box::pin(futures::future::try_join(futs[ia].take().unwrap(), futs[ib].take().unwrap()));
    let cor = futs[ic].take().unwrap();
    let both = async move {
        match futures::future::select(honest, cor).await {
            futures::future::Either::Left((res, _)) => res,
            futures::future::Either::Right((_corrupt_result, honest)) => honest.await,
        }
    };
    match tokio::time::timeout(limit, both).await {
        Err(_) => Outcome::Abort("hang".into()),
        Ok(Err(e)) => abort_of(e),
        Ok(Ok((ra, rb))) => {
            let mut h = vec![];
            for (x, y) in ra[0].iter().zip(rb[0].iter()) {
                if x.right() != y.left() {
                    return Outcome::Inconsistent;
                }
                h.push((x.left() + x.right() + y.right()).as_u128());
            }
            Outcome::Hist(h)
        }
    }
}

fn run_blocking(shards: usize, recorder: Arc<Recorder>, pad: PaddingParameters, records: Vec<TestHybridRecord>, seed: u64, secs: u64, corrupt: Option<u8>) -> Outcome {
    let r = block_on_timeout(secs + 20, async move {
        match shards {
            1 => run_query::<1>(recorder, pad, records, seed, secs, corrupt).await,
            2 => run_query::<2>(recorder, pad, records, seed, secs, corrupt).await,
            n => panic!("harness: unsupported shard count {n}"),
        }
    });
    match r {
        Ok(o) => o,
        Err(_) => Outcome::Abort("hang".into()),
    }
}

/// A helper task that panics has crashed: the query produces no output (abort).
fn run_guarded(shards: usize, recorder: Arc<Recorder>, pad: PaddingParameters, records: Vec<TestHybridRecord>, seed: u64, secs: u64, corrupt: u8) -> Outcome {
    match guarded(|| run_blocking(shards, recorder, pad, records, seed, secs, Some(corrupt))) {
        Ok(o) => o,
        Err(p) => Outcome::Abort(format!("crash({})", p.chars().take(70).collect::<String>().replace(' ', "_"))),
    }
}

fn pad_of(s: &str) -> PaddingParameters {
    if s == "1" { c01::small_padding() } else { PaddingParameters::no_padding() }
}

fn seed_of(shards: &str, pad: &str, recs: &str) -> u64 {
    format!("{shards} {pad} {recs}").bytes().fold(0xcbf2_9ce4_8422_2325u64, |h, b| (h ^ u64::from(b)).wrapping_mul(0x0000_0100_0000_01B3))
}

/// the observed chunks in order, consecutive chunks of the same (normalised) channel merged:
/// `<gate>|m|<src><dst>|<shard or ->` for helper-to-helper, `<gate>|x|<helper>|<src shard>><dst shard>` for
/// shard-to-shard traffic inside one helper
fn events_str(evs: &[Ev]) -> String {
    let mut out: Vec<String> = vec![];
    for e in evs {
        let g = normalize_gate(&e.gate);
        let t = if e.mpc {
            format!("{g}|m|{}{}|{}", e.a, e.b, e.shard.map_or("-".to_string(), |x| x.to_string()))
        } else {
            format!("{g}|x|{}|{}>{}", e.a, e.shards.0, e.shards.1)
        };
        if out.last() != Some(&t) {
            out.push(t);
        }
    }
    out.join(",")
}

pub fn exec(req: &str) -> String {
    let t: Vec<&str> = req.split(' ').collect();
    match t[0] {
        "c02.channels" => {
            let rec = Arc::new(Recorder::default());
            let o = run_blocking(t[1].parse().unwrap(), rec.clone(), pad_of(t[2]), c01::parse_records(t[3]), seed_of(t[1], t[2], t[3]), 60, None);
            let evs = rec.events.lock().unwrap();
            match o {
                Outcome::Hist(_) => events_str(&evs),
                Outcome::Abort(k) => format!("abort:{k}"),
                Outcome::Inconsistent => "abort:inconsistent".into(),
            }
        }
        "c02.shardtraffic" => {
            // shard-to-shard traffic inside each helper (outside the single-corrupt-helper threat model: all shards of
            // a helper are one party): distinct normalised gates with the number of chunks, for the evidence
            let rec = Arc::new(Recorder::default());
            let o = run_blocking(t[1].parse().unwrap(), rec.clone(), pad_of(t[2]), c01::parse_records(t[3]), seed_of(t[1], t[2], t[3]), 60, None);
            let mut m: std::collections::BTreeMap<String, usize> = Default::default();
            for e in rec.events.lock().unwrap().iter().filter(|e| !e.mpc) {
                *m.entry(normalize_gate(&e.gate)).or_insert(0) += 1;
            }
            match o {
                Outcome::Hist(_) if m.is_empty() => "-".into(),
                Outcome::Hist(_) => m.iter().map(|(g, n)| format!("{g}:{n}")).collect::<Vec<_>>().join(","),
                Outcome::Abort(k) => format!("abort:{k}"),
                Outcome::Inconsistent => "abort:inconsistent".into(),
            }
        }
        "c02.recorded" => {
            // honest run in a world of its own; response: every gate with helper-to-helper traffic (`t:`) and every gate
            // recorded in a DZKP batch (`r:`), run prefix dropped, sorted
            let tag = format!("c02w{}", WORLDS.fetch_add(1, std::sync::atomic::Ordering::SeqCst));
            let rec = Arc::new(Recorder { world_tag: Some(tag.clone()), ..Default::default() });
            let o = run_blocking(t[1].parse().unwrap(), rec.clone(), pad_of(t[2]), c01::parse_records(t[3]), seed_of(t[1], t[2], t[3]), 60, None);
            let traffic: std::collections::BTreeSet<String> =
                rec.seen.lock().unwrap().iter().filter(|(_, n)| **n > 0).map(|(k, _)| strip_run(&k.0)).collect();
            let pushed: std::collections::BTreeSet<String> =
                PUSHED.lock().unwrap().remove(&tag).unwrap_or_default().iter().map(|g| strip_run(g)).collect();
            let join = |s: &std::collections::BTreeSet<String>| if s.is_empty() { "-".to_string() } else { s.iter().cloned().collect::<Vec<_>>().join(",") };
            match o {
                Outcome::Hist(_) => format!("t:{} r:{}", join(&traffic), join(&pushed)),
                Outcome::Abort(k) => format!("abort:{k}"),
                Outcome::Inconsistent => "abort:inconsistent".into(),
            }
        }
        "c02.extraclasses" => {
            // the gate classes (with the senders seen) that this configuration has on top of the basic one
            let m = extra_classes(t[1].parse().unwrap(), t[2], t[3]);
            if m.is_empty() {
                return "-".into();
            }
            m.iter()
                .map(|(class, members)| {
                    let mut s: Vec<u8> = members.iter().map(|c| c.1).collect();
                    s.sort_unstable();
                    s.dedup();
                    format!("{class}:{}", s.iter().map(|x| x.to_string()).collect::<String>())
                })
                .collect::<Vec<_>>()
                .join(",")
        }
        "c02.tamper" => {
            let shards: usize = t[1].parse().unwrap();
            let seed = seed_of(t[1], t[2], t[3]);
            let key = format!("{} {} {}", t[1], t[2], t[3]);
            let cached = HONEST.lock().unwrap().get(&key).cloned();
            let (honest, secs, key_msgs) = match cached {
                Some(h) => h,
                None => {
                    let t0 = std::time::Instant::now();
                    let rec0 = Arc::new(Recorder::default());
                    let honest = run_blocking(shards, rec0.clone(), pad_of(t[2]), c01::parse_records(t[3]), seed, 60, None);
                    let Outcome::Hist(honest) = honest else { return "honest-run-failed".into() };
                    // a tampered run gets three times the honest run's time (at least 12 s) before it counts as a hang
                    let secs = std::cmp::max(12, 3 * t0.elapsed().as_secs() + 3);
                    let km = rec0.key_msgs.lock().unwrap().clone();
                    HONEST.lock().unwrap().insert(key, (honest.clone(), secs, km.clone()));
                    (honest, secs, km)
                }
            };
            let src: u8 = t[4][1..].parse().unwrap();
            let mut actions = parse_actions(src, t[5]);
            for a in &mut actions {
                if let Pattern::MacShift { word, .. } = a.pattern {
                    // The opened key of that shuffle (same shard): XOR of the three shares sent H1->H2, H2->H3, H3->H1.
                    // The runs are deterministic (fixed PRSS seed), so this is the key of the tampered run as well. A
                    // real helper reads it off the key share its left peer sends it (see DESIGN.md 10.4, finding F15).
                    let Some(cut) = a.key.0.rfind('/') else { continue };
                    let kg = format!("{}/verify_shuffle/reveal_m_a_c_key", &a.key.0[..cut]);
                    let mut k = 0u32;
                    let mut found = 0;
                    for (s_, d_) in [(1u8, 2u8), (2, 3), (3, 1)] {
                        if let Some(b) = key_msgs.get(&(kg.clone(), s_, d_, a.key.3)) {
                            if b.len() >= 4 * word + 4 {
                                k ^= u32::from_le_bytes(b[4 * word..4 * word + 4].try_into().unwrap());
                                found += 1;
                            }
                        }
                    }
                    if found == 3 {
                        a.mac_key = Some(k);
                    }
                }
            }
            let rec = Arc::new(Recorder { actions, ..Default::default() });
            let t1 = std::time::Instant::now();
            let o = run_guarded(shards, rec.clone(), pad_of(t[2]), c01::parse_records(t[3]), seed, secs, src);
            if let Ok(dir) = std::env::var("VERIF_OUT") {
                // wall time per case, for tuning the tiers (not part of the trace: not deterministic)
                use std::io::Write;
                if let Ok(mut f) = std::fs::OpenOptions::new().create(true).append(true).open(format!("{dir}/c02_tamper.times")) {
                    let _ = writeln!(f, "{:.1}\t{}\t{}", t1.elapsed().as_secs_f32(), t[1], t[5].chars().take(120).collect::<String>());
                }
            }
            let hits = *rec.hits.lock().unwrap();
            match o {
                Outcome::Abort(k) => format!("abort-or-same abort:{k}"),
                Outcome::Hist(h) if h == honest => {
                    if hits == 0 { "untouched".into() } else { "abort-or-same same".into() }
                }
                Outcome::Hist(h) => format!("changed {}", nat_list(&h)),
                Outcome::Inconsistent => "changed inconsistent-output-shares".into(),
            }
        }
        _ => panic!("harness: unknown request {req}"),
    }
}

type KeyMsgs = std::collections::BTreeMap<(String, u8, u8, Option<u32>), Vec<u8>>;
static HONEST: Mutex<std::collections::BTreeMap<String, (Vec<u128>, u64, KeyMsgs)>> = Mutex::new(std::collections::BTreeMap::new());

type Chan = (String, u8, u8, Option<u32>, usize);

/// honest run listing every concrete helper-to-helper channel (gate, src, dst, shard, bytes)
fn list_channels(shards: usize, pad: &str, recs: &str) -> Vec<Chan> {
    let rec = Arc::new(Recorder::default());
    let sh = shards.to_string();
    let _ = run_blocking(shards, rec.clone(), pad_of(pad), c01::parse_records(recs), seed_of(&sh, pad, recs), 60, None);
    let seen = rec.seen.lock().unwrap();
    seen.iter().map(|((g, s, d, x), n)| (g.clone(), *s, *d, *x, *n)).collect()
}

fn act(c: &Chan, pat: &str) -> String {
    format!("{}{}|{}|{pat}|{}", c.1, c.2, c.3.map_or("-".to_string(), |x| x.to_string()), c.0)
}

fn prev_h(h: u8) -> u8 { (h + 1) % 3 + 1 }
fn next_h(h: u8) -> u8 { h % 3 + 1 }

/// Fp25519 lanes per record of the PRF evaluation (`PRF_CHUNK`)
const LANES: usize = crate::protocol::ipa_prf::PRF_CHUNK;

fn blind_pattern(rng: &mut Rng, k: usize, n: usize) -> String {
    match k % 5 {
        0 => format!("flip:0:{}", rng.below(8)),
        1 => format!("flip:{}:{}", n - 1, rng.below(8)),
        2 => format!("add:{}:{}", rng.usize_below(n), 1 + rng.below(255)),
        3 => "zero".to_string(),
        _ => format!("flip:{}:{}", rng.usize_below(n), rng.below(8)),
    }
}

/// candidate record sizes of a channel that carried `n` bytes
fn record_sizes(n: usize) -> Vec<usize> {
    let mut v: Vec<usize> = (2..=16).filter(|m| n % m == 0).map(|m| n / m).collect();
    for s in [1usize, 4, 8, 32] {
        if n >= 2 * s && n % s == 0 {
            v.push(s);
        }
    }
    v.sort_unstable();
    v.dedup();
    v
}

fn gen_tamper(rng: &mut Rng, thorough: bool, shards: usize, pad: &str, recs: &str, budget: Option<(usize, usize)>, out: &mut Vec<String>) {
    let chans = list_channels(shards, pad, recs);
    let head = format!("c02.tamper {shards} {pad} {recs}");
    // group concrete channels by normalised gate class
    let mut classes: std::collections::BTreeMap<String, Vec<Chan>> = Default::default();
    for c in &chans {
        if c.4 > 0 {
            classes.entry(normalize_gate(&c.0)).or_default().push(c.clone());
        }
    }
    let mut cases: Vec<String> = vec![];
    // 1. blind byte-level changes, every gate class
    let per_class = if thorough { 12 } else { 1 };
    for (ci, (_class, members)) in classes.iter().enumerate() {
        for k in 0..per_class {
            let c = rng.pick(members).clone();
            // a forged shuffle cardinality is used as an allocation size by the receiving helper: values beyond
            // 2^16 rows end in `capacity overflow` panics or in a failed allocation that kills the whole test
            // process (an abort as far as C02 goes, but not one the harness can observe), so only the two low
            // bytes are altered
            let n = if _class.ends_with("cardinality") { c.4.min(2) } else { c.4 };
            cases.push(format!("{head} H{} {}", c.1, act(&c, &blind_pattern(rng, ci + k, n))));
        }
    }
    // 1b. the row-carrying messages of the shuffles: every (sender, receiver) pair, not just one per class
    //     (each direction is checked by a different hash comparison of `verify_shuffle`)
    for (ci, (class, members)) in classes.iter().enumerate() {
        if class.ends_with("/transfer_x_y") || class.ends_with("/transfer_c") {
            for (k, c) in members.iter().enumerate() {
                cases.push(format!("{head} H{} {}", c.1, act(c, &blind_pattern(rng, ci + k + 4, c.4))));
            }
        }
    }
    // 2. additive offsets at field-element granularity
    let reps = if thorough { 6 } else { 1 };
    for (class, members) in &classes {
        let f61 = class.ends_with("generate_proof") || class.ends_with("p_times_q") || class.ends_with("verify_proof/diff");
        let f25 = class.starts_with("eval_prf/");
        if !(f61 || f25) {
            continue;
        }
        let size = if f61 { 8 } else { 32 };
        for k in 0..reps {
            let c = rng.pick(members).clone();
            if c.4 < size {
                continue;
            }
            let elems = c.4 / size;
            let e = if k == 0 { 0 } else { rng.usize_below(elems) };
            let sign = if rng.bool() { 'p' } else { 'm' };
            let tag = if f61 { "f61" } else { "f25" };
            cases.push(format!("{head} H{} {}", c.1, act(&c, &format!("{tag}:{e}:{sign}{}", 1 + rng.below(1000)))));
        }
    }
    // 3. lane-correlated offsets on a vectorised MAC-protected multiplication, replayed in the opening:
    //    +d on lane i, -d on lane j of the message to the left peer in `x*y` (the `r*x*y` duplicate untouched),
    //    and the same offsets on the copy opened towards the right peer
    let find = |suffix: &str, s: u8, d: u8, x: Option<u32>| -> Option<Chan> {
        chans.iter().find(|c| c.0.ends_with(suffix) && c.1 == s && c.2 == d && c.3 == x).cloned()
    };
    let shard_ids: Vec<Option<u32>> = {
        let mut v: Vec<Option<u32>> = chans.iter().map(|c| c.3).collect();
        v.sort();
        v.dedup();
        v
    };
    let n_lane = if thorough { 12 } else { 3 };
    for k in 0..n_lane {
        let corrupt = (k % 3) as u8 + 1;
        let x = *rng.pick(&shard_ids);
        let (Some(m), Some(o), Some(i1), Some(i2)) = (
            find("eval_prf/malicious_protocol/mult_mask_with_p_r_f_input", corrupt, prev_h(corrupt), x),
            find("eval_prf/malicious_protocol/revealz", corrupt, next_h(corrupt), x),
            // what the corrupt helper itself receives in the opening (so that it opens the same altered value
            // and stays in step with the honest helpers)
            find("eval_prf/malicious_protocol/revealz", prev_h(corrupt), corrupt, x),
            find("eval_prf/malicious_protocol/revealz", next_h(corrupt), corrupt, x),
        ) else { continue };
        let records = m.4 / (32 * LANES);
        let r = rng.usize_below(records.max(1));
        // lanes that carry real rows (the last record may be partly padding)
        let (i, j) = if k == 0 { (0, 1) } else {
            let i = rng.usize_below(LANES.min(8));
            let mut j = rng.usize_below(LANES.min(8));
            if j == i { j = (i + 1) % LANES.min(8); }
            (i, j)
        };
        let d = 1 + rng.below(1000);
        let (ei, ej) = (r * LANES + i, r * LANES + j);
        let mut acts = vec![];
        for c in [&m, &o, &i1, &i2] {
            acts.push(act(c, &format!("f25:{ei}:p{d}")));
            acts.push(act(c, &format!("f25:{ej}:m{d}")));
        }
        cases.push(format!("{head} H{corrupt} {}", acts.join(",")));
    }
    // 4. swapping two records / replaying an earlier record, on channels that carry several records
    let n_swap = if thorough { 40 } else { 10 };
    let multi: Vec<&Chan> = chans.iter().filter(|c| !record_sizes(c.4).is_empty() && c.4 >= 2).collect();
    // prefer the data-carrying classes
    let wanted = ["transfer_x_y", "transfer_c", "reveal", "revealz", "reveal_r", "mult_mask_with_p_r_f_input", "upgrade", "generate_proof", "bit0", "hashes_h3to_h1"];
    for k in 0..n_swap {
        let w = wanted[k % wanted.len()];
        let cand: Vec<&Chan> = multi.iter().filter(|c| c.0.ends_with(w)).copied().collect();
        if cand.is_empty() {
            continue;
        }
        let c: Chan = (*rng.pick(&cand)).clone();
        let sizes = record_sizes(c.4);
        let size = *rng.pick(&sizes);
        let n = c.4 / size;
        let a = rng.usize_below(n);
        let mut b = rng.usize_below(n);
        if a == b { b = (a + 1) % n; }
        let (lo, hi) = (a.min(b), a.max(b));
        let pat = if k % 2 == 0 { format!("swaprec:{size}:{lo}:{hi}") } else { format!("replay:{size}:{lo}:{hi}") };
        cases.push(format!("{head} H{} {}", c.1, act(&c, &pat)));
    }
    // 5. MAC-consistent row change in a verified shuffle by H2, which learns the keys from H1's early opening:
    //    `c1` (H2 -> H3) gets `delta` in a data word and `key * delta` in the tag; the same change on `c2` (H3 -> H2)
    //    keeps H2's own share in step
    let mut macshift: Vec<String> = vec![];
    for (sh_gate, size) in [("aggregate/shuffle/transfer_c", 8usize), ("input_shuffle/transfer_c", 18usize)] {
        let x = shard_ids[0];
        let (Some(c1), Some(c2)) = (find(sh_gate, 2, 3, x), find(sh_gate, 3, 2, x)) else { continue };
        if c1.4 % size != 0 || c1.4 < size {
            continue;
        }
        let row = rng.usize_below(c1.4 / size);
        let pat = format!("macshift:{size}:{row}:0:1");
        macshift.push(format!("{head} H2 {},{}", act(&c1, &pat), act(&c2, &pat)));
    }
    match budget {
        // `(blind, structured)`: a sample of each group (the lane-correlated cases always included)
        Some((bb, bs)) => {
            let (mut blind, structured): (Vec<String>, Vec<String>) = cases.into_iter().partition(|c| {
                let a = c.rsplit(' ').next().unwrap_or("");
                !a.contains(',') && ["|flip:", "|add:", "|zero|"].iter().any(|p| a.contains(p))
            });
            let (lane, mut rest): (Vec<String>, Vec<String>) = structured.into_iter().partition(|c| c.matches("f25:").count() == 8);
            if blind.len() > bb {
                rng.shuffle(&mut blind);
                blind.truncate(bb);
            }
            if rest.len() + lane.len() > bs {
                rng.shuffle(&mut rest);
                rest.truncate(bs.saturating_sub(lane.len()));
            }
            out.extend(blind);
            out.extend(lane);
            out.extend(rest);
        }
        None => out.extend(cases),
    }
    out.extend(macshift);
}

pub const RECS: &str = "i:11:3,c:11:2,i:12:3,c:12:5,c:13:1,c:13:2,i:14:9,i:15:1,c:15:4,c:16:3,i:17:3,c:17:1";

/// enough keys that no shard runs empty at any stage (finding F8)
fn big_records(rng: &mut Rng) -> String {
    c01::rec_str(&c01::gen_records(rng, 70, 256, 8))
}

#[test]
fn verif_c02_tamper() {
    run_suite(
        "c02_tamper",
        |rng, thorough| {
            let mut out = vec![];
            // quick: every gate class once with a blind change + 16 structured cases
            gen_tamper(rng, thorough, 1, "0", RECS, if thorough { None } else { Some((usize::MAX, 16)) }, &mut out);
            // two shards: helper-to-helper traffic of either shard
            let big = big_records(rng);
            gen_tamper(rng, thorough, 2, "0", &big, Some(if thorough { (60, 60) } else { (2, 4) }), &mut out);
            if thorough {
                gen_tamper(rng, thorough, 1, "1", RECS, None, &mut out);
            }
            out
        },
        exec,
    );
}

/// ten attributed pairs with the same breakdown key (> the aggregation proof chunk of 8 rows in test builds, so the
/// breakdown aggregation of a single shard needs a second level: a saturating addition of two 32-bit intermediate
/// histograms) plus a few other rows
pub const RECS_DEEP: &str = "i:101:5,c:101:1,i:102:5,c:102:2,i:103:5,c:103:3,i:104:5,c:104:1,i:105:5,c:105:2,i:106:5,c:106:3,i:107:5,c:107:1,i:108:5,c:108:2,i:109:5,c:109:3,i:110:5,c:110:1,i:111:7,c:111:6,c:112:4,i:113:9";

/// gate classes of a configuration that the basic one-shard configuration (`RECS`) does not have
fn extra_classes(shards: usize, pad: &str, recs: &str) -> std::collections::BTreeMap<String, Vec<Chan>> {
    let base: std::collections::BTreeSet<String> =
        list_channels(1, "0", RECS).iter().filter(|c| c.4 > 0).map(|c| normalize_gate(&c.0)).collect();
    let mut classes: std::collections::BTreeMap<String, Vec<Chan>> = Default::default();
    for c in list_channels(shards, pad, recs) {
        let class = normalize_gate(&c.0);
        if c.4 > 0 && !base.contains(&class) {
            classes.entry(class).or_default().push(c);
        }
    }
    classes
}

/// The LAST layers of a query (b14, seed C02c): gate classes that exist only with two shards (the `finalize` step:
/// the leader shard merges the other shards' histograms with a saturating addition) or only when the breakdown
/// aggregation of a shard needs more than one proof chunk (`…/saturating_add/{add,select}`). Nothing is computed after
/// these gates in a query without DP noise, so a message altered here is caught by the proof of exactly this step or
/// not at all. Deterministically: for every such class that carries multiplication traffic (`…/bit#`) one case per
/// sending helper, on the last addition of the class (greatest gate name) — every lane of these 256-lane messages is a
/// histogram bucket; for the other classes (the proof messages of the step's validator) one case.
fn gen_last_layers(rng: &mut Rng, thorough: bool, shards: usize, pad: &str, recs: &str, out: &mut Vec<String>) {
    let head = format!("c02.tamper {shards} {pad} {recs}");
    out.push(format!("c02.extraclasses {shards} {pad} {recs}"));
    let mut first = true;
    for (class, members) in extra_classes(shards, pad, recs) {
        if !class.ends_with("/bit#") {
            let c = rng.pick(&members).clone();
            let n = c.4;
            out.push(format!("{head} H{} {}", c.1, act(&c, &blind_pattern(rng, 4, n))));
            continue;
        }
        // the last addition of the class: greatest parent gate
        let parent = |g: &str| g.rsplit_once('/').map_or(String::new(), |x| x.0.to_string());
        let last = members.iter().map(|c| parent(&c.0)).max().unwrap();
        for sender in 1..=3u8 {
            let cand: Vec<&Chan> = members.iter().filter(|c| c.1 == sender && parent(&c.0) == last).collect();
            if cand.is_empty() {
                continue;
            }
            for k in 0..(if thorough { 6 } else { 1 }) {
                let c: Chan = (*rng.pick(&cand)).clone();
                // the first case is the smallest change there is: bit 0 of the first byte (bucket 0)
                let pat = if first { "flip:0:0".to_string() } else if k % 2 == 0 {
                    format!("flip:{}:{}", rng.usize_below(c.4), rng.below(8))
                } else {
                    format!("add:{}:{}", rng.usize_below(c.4), 1 + rng.below(255))
                };
                first = false;
                out.push(format!("{head} H{} {}", c.1, act(&c, &pat)));
            }
        }
    }
}

#[test]
fn verif_c02_lastlayer() {
    run_suite(
        "c02_lastlayer",
        |rng, thorough| {
            let mut out = vec![];
            gen_last_layers(rng, thorough, 1, "0", RECS_DEEP, &mut out);
            // the finalize step does not depend on the number of rows: a small query keeps the two-shard runs short
            gen_last_layers(rng, thorough, 2, "0", RECS_DEEP, &mut out);
            if thorough {
                let big = big_records(rng);
                gen_last_layers(rng, thorough, 2, "0", &big, &mut out);
            }
            out
        },
        exec,
    );
}

#[test]
fn verif_c02_channels() {
    run_suite(
        "c02_channels",
        |rng, _thorough| {
            let big = big_records(rng);
            vec![
                format!("c02.channels 1 0 {RECS}"),
                format!("c02.channels 1 1 {RECS}"),
                format!("c02.channels 2 0 {big}"),
                format!("c02.shardtraffic 2 0 {big}"),
                // every gate with multiplication traffic inside a DZKP-validated step is recorded in the validator's batch
                format!("c02.recorded 1 0 {RECS_DEEP}"),
                format!("c02.recorded 1 1 {RECS}"),
                format!("c02.recorded 2 0 {RECS_DEEP}"),
            ]
        },
        exec,
    );
}
