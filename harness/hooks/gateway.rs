// Suites that need access to items private to this module (feature ipa-verif, test builds only).
//
// Included as `helpers::gateway::ipa_verif_hook`.  C13 suites:
//   c13_config      c13.config <active> <read_size> <record_size> <u|i|s<n>>
//                   c13.window <base_active> <read_size> <w> <record_size> <u|i|s<n>>   (real set_active_work -> new_with)
//                   c13.qwindow <base_active> <read_size> <query_size>                  (real set_active_work_from_query_config)
//                   (c13_channel also: c13.burst <base_active> <read_size> <w> <size> <n>)
//   c13_collection  c13.coll <op,op,…>            (StreamCollection op sequences)
//   c13_channel     c13.chan <active> <read_size> <size> <i|s<n>> <op,op,…>   (real Gateway pair)

mod c13_common {
    use std::{
        convert::Infallible,
        sync::{Arc, Mutex},
        task::{Wake, Waker},
    };

    use generic_array::{ArrayLength, GenericArray};

    use crate::{ff::Serializable, helpers::MpcMessage};

    pub struct LogWaker {
        pub id: usize,
        pub log: Arc<Mutex<Vec<usize>>>,
    }

    impl Wake for LogWaker {
        fn wake(self: Arc<Self>) {
            self.log.lock().unwrap().push(self.id);
        }
        fn wake_by_ref(self: &Arc<Self>) {
            self.log.lock().unwrap().push(self.id);
        }
    }

    pub fn waker(id: usize, log: &Arc<Mutex<Vec<usize>>>) -> Waker {
        Waker::from(Arc::new(LogWaker { id, log: Arc::clone(log) }))
    }

    /// `N` arbitrary bytes, allowed on MPC channels for the purpose of the test.
    #[derive(Clone, PartialEq, Eq)]
    pub struct C13Msg<N: ArrayLength>(pub GenericArray<u8, N>);

    impl<N: ArrayLength> std::fmt::Debug for C13Msg<N> {
        fn fmt(&self, f: &mut std::fmt::Formatter<'_>) -> std::fmt::Result {
            write!(f, "C13Msg({:?})", self.0.as_slice())
        }
    }

    impl<N: ArrayLength> Serializable for C13Msg<N> {
        type Size = N;
        type DeserializationError = Infallible;

        fn serialize(&self, buf: &mut GenericArray<u8, Self::Size>) {
            buf.copy_from_slice(&self.0);
        }

        fn deserialize(buf: &GenericArray<u8, Self::Size>) -> Result<Self, Self::DeserializationError> {
            Ok(Self(buf.clone()))
        }
    }

    impl<N: ArrayLength> MpcMessage for C13Msg<N> {}
}

mod c13_config {
    use std::num::NonZeroUsize;

    use super::super::{GatewayConfig, send::ipa_verif_send_channel_config};
    use crate::{
        helpers::TotalRecords,
        ipa_verif::proto::*,
        utils::NonZeroU32PowerOfTwo,
    };

    pub fn parse_total(s: &str) -> TotalRecords {
        match s.as_bytes()[0] {
            b'u' => TotalRecords::Unspecified,
            b'i' => TotalRecords::Indeterminate,
            b's' => TotalRecords::specified(s[1..].parse().unwrap()).unwrap(),
            _ => panic!("harness: bad total {s}"),
        }
    }

    fn panic_tag(p: String) -> String {
        for tag in ["Message size cannot be 0", "assertion `left == right` failed", "assertion failed", "called `Result::unwrap()` on an `Err` value"] {
            if p.contains(tag) {
                return format!("panic:{tag}");
            }
        }
        p
    }

    /// `GatewayConfig { active: base, read_size, .. }.set_active_work(w)` and the send-channel
    /// configuration `get_mpc_sender` derives from it.
    fn exec_window(t: &[&str]) -> String {
        let base: usize = t[1].parse().unwrap();
        let read_size: usize = t[2].parse().unwrap();
        let w: usize = t[3].parse().unwrap();
        let record_size: usize = t[4].parse().unwrap();
        let total = parse_total(t[5]);
        let cfg = GatewayConfig {
            active: NonZeroU32PowerOfTwo::try_from(base).expect("harness: active must be a power of two"),
            read_size: NonZeroUsize::new(read_size).expect("harness: read_size must be non-zero"),
            ..Default::default()
        };
        let cfg = cfg.set_active_work(NonZeroU32PowerOfTwo::try_from(w).expect("harness: window must be a power of two"));
        let active = cfg.active_work().get();
        match guarded(|| ipa_verif_send_channel_config(cfg, total, record_size)) {
            Ok((c, r, rd)) => format!("{active} {c} {r} {rd}"),
            Err(p) => panic_tag(p),
        }
    }

    fn exec_qwindow(t: &[&str]) -> String {
        use crate::{ff::FieldType, helpers::query::{QueryConfig, QueryType}};
        let base: usize = t[1].parse().unwrap();
        let read_size: usize = t[2].parse().unwrap();
        let size: usize = t[3].parse().unwrap();
        let mut cfg = GatewayConfig {
            active: NonZeroU32PowerOfTwo::try_from(base).expect("harness: active must be a power of two"),
            read_size: NonZeroUsize::new(read_size).expect("harness: read_size must be non-zero"),
            ..Default::default()
        };
        let qc = QueryConfig::new(QueryType::TestMultiply, FieldType::Fp31, size).expect("harness: query size out of range");
        cfg.set_active_work_from_query_config(&qc);
        format!("{} {}", cfg.active_work().get(), cfg.read_size.get())
    }

    pub fn exec(req: &str) -> String {
        let t: Vec<&str> = req.split(' ').collect();
        match t[0] {
            "c13.window" => return exec_window(&t),
            "c13.qwindow" => return exec_qwindow(&t),
            _ => {}
        }
        assert_eq!(t[0], "c13.config");
        let active: usize = t[1].parse().unwrap();
        let read_size: usize = t[2].parse().unwrap();
        let record_size: usize = t[3].parse().unwrap();
        let total = parse_total(t[4]);
        let cfg = GatewayConfig {
            active: NonZeroU32PowerOfTwo::try_from(active).expect("harness: active must be a power of two"),
            read_size: NonZeroUsize::new(read_size).expect("harness: read_size must be non-zero"),
            ..Default::default()
        };
        match guarded(|| ipa_verif_send_channel_config(cfg, total, record_size)) {
            Ok((c, r, rd)) => format!("{c} {r} {rd}"),
            Err(p) => {
                for tag in ["Message size cannot be 0", "assertion `left == right` failed", "assertion failed", "called `Result::unwrap()` on an `Err` value"] {
                    if p.contains(tag) {
                        return format!("panic:{tag}");
                    }
                }
                p
            }
        }
    }

    pub fn generate(rng: &mut Rng, thorough: bool) -> Vec<String> {
        let mut out = vec![];
        // the per-channel window override: every power of two up to the gateway default and well above it
        // (DZKP contexts open channels with window = records_per_batch), on gateways configured below, at
        // and above the requested window
        {
            let mut windows: Vec<usize> = (1..=16).map(|a| 1usize << a).collect();
            windows.extend_from_slice(&[1 << 17, 1 << 20, 1 << 24]);
            for &w in &windows {
                for &base in &[2usize, 16, 32768, 1 << 20] {
                    for &r in &[1usize, 2, 3, 4, 8, 14, 32, 33, 100, 4096] {
                        for &rd in &[1usize, 2048, 4096, 1 << 20] {
                            if !thorough && (base == 16 || rd == 4096 || r == 33) && w != 65536 {
                                continue;
                            }
                            for k in ["s1000", "i"] {
                                out.push(format!("c13.window {base} {rd} {w} {r} {k}"));
                            }
                        }
                    }
                }
            }
            for _ in 0..(if thorough { 5000 } else { 500 }) {
                let w = 1usize << (1 + rng.usize_below(26));
                let base = 1usize << (1 + rng.usize_below(20));
                let (b1, b2) = (rng.bool(), rng.bool());
                let r = 1 + rng.usize_below(if b1 { 40 } else { 5000 });
                let rd = 1 + rng.usize_below(if b2 { 64 } else { 100_000 });
                let k = *rng.pick(&["i", "s1", "s7", "u"]);
                out.push(format!("c13.window {base} {rd} {w} {r} {k}"));
            }
            // query-size derived window: around every power of two up to beyond the default cap
            let mut sizes: Vec<usize> = vec![1, 2, 3];
            for a in 2..=17 {
                sizes.extend_from_slice(&[(1 << a) - 1, 1 << a, (1 << a) + 1]);
            }
            sizes.extend_from_slice(&[1_000_000, 999_999_999, 1_000_000_000]);
            for &n in &sizes {
                for &base in &[2usize, 32768, 1 << 20] {
                    out.push(format!("c13.qwindow {base} 2048 {n}"));
                }
            }
            for _ in 0..(if thorough { 2000 } else { 200 }) {
                let b1 = rng.bool();
                let n = 1 + rng.usize_below(if b1 { 100_000 } else { 1_000_000_000 });
                let (base, rd) = (1usize << (1 + rng.usize_below(20)), 1 + rng.usize_below(5000));
                out.push(format!("c13.qwindow {base} {rd} {n}"));
            }
        }
        let actives: Vec<usize> = (0..=16).map(|a| 1usize << a).collect();
        let mut records: Vec<usize> = (0..=33).collect();
        records.extend_from_slice(&[63, 64, 65, 100, 255, 256, 257, 1000, 2047, 2048, 2049, 4095, 4096, 4097, 5000]);
        let reads: Vec<usize> = vec![1, 2, 3, 4, 5, 7, 8, 15, 16, 17, 31, 32, 33, 100, 1024, 2047, 2048, 2049, 4096, 65536];
        for &a in &actives {
            for &r in &records {
                for &rd in &reads {
                    // the full grid is 17 x 49 x 20 x 3; the quick tier thins the interior
                    if !thorough && a > 64 && (a + r + rd) % 5 != 0 {
                        continue;
                    }
                    for k in ["i", "s1", "s1000"] {
                        out.push(format!("c13.config {a} {rd} {r} {k}"));
                    }
                }
            }
        }
        for _ in 0..(if thorough { 20_000 } else { 2_000 }) {
            let a = 1usize << rng.usize_below(20);
            let (b1, b2) = (rng.bool(), rng.bool());
            let r = 1 + rng.usize_below(if b1 { 40 } else { 5000 });
            let rd = 1 + rng.usize_below(if b2 { 64 } else { 100_000 });
            let k = *rng.pick(&["i", "s1", "s7", "u"]);
            out.push(format!("c13.config {a} {rd} {r} {k}"));
        }
        out
    }

    #[test]
    fn verif_c13_config() {
        run_suite("c13_config", generate, exec);
    }
}

mod c13_collection {
    use std::{
        pin::Pin,
        sync::{Arc, Mutex},
        task::{Context, Poll},
    };

    use futures::Stream;

    use super::c13_common::waker;
    use crate::{
        helpers::{StreamCollection, StreamKey},
        ipa_verif::proto::*,
        protocol::{Gate, QueryId},
        sharding::ShardIndex,
    };

    struct IdStream(usize);

    impl Stream for IdStream {
        type Item = ();
        fn poll_next(self: Pin<&mut Self>, _cx: &mut Context<'_>) -> Poll<Option<()>> {
            Poll::Ready(None)
        }
    }

    fn key(f: &[&str]) -> StreamKey<ShardIndex> {
        assert_eq!(f[0], "0", "harness: QueryId has a single value");
        (
            QueryId,
            ShardIndex::from(f[1].parse::<u32>().unwrap()),
            Gate::from(format!("verif/g{}", f[2]).as_str()),
        )
    }

    pub fn exec(req: &str) -> String {
        let t: Vec<&str> = req.split(' ').collect();
        assert_eq!(t[0], "c13.coll");
        let coll: StreamCollection<ShardIndex, IdStream> = StreamCollection::default();
        let log = Arc::new(Mutex::new(Vec::new()));
        let mut out = vec![];
        if t[1] != "-" {
            for op in t[1].split(',') {
                let f: Vec<&str> = op[1..].split('.').collect();
                let r = match op.as_bytes()[0] {
                    b'a' => guarded(|| {
                        coll.add_stream(key(&f), IdStream(f[3].parse().unwrap()));
                        let v: Vec<usize> = std::mem::take(&mut *log.lock().unwrap());
                        format!("ok|{}", if v.is_empty() { "-".to_string() } else { nat_list(&v) })
                    }),
                    b'w' => guarded(|| {
                        let w = waker(f[3].parse().unwrap(), &log);
                        match coll.add_waker(&key(&f), &w) {
                            Some(s) => format!("some{}", s.0),
                            None => "none".to_string(),
                        }
                    }),
                    b'x' => guarded(|| {
                        coll.clear();
                        "ok|-".to_string()
                    }),
                    _ => panic!("harness: bad op {op}"),
                };
                out.push(match r {
                    Ok(s) => s,
                    Err(_) => "panic".to_string(),
                });
            }
        }
        if out.is_empty() { "-".into() } else { out.join(";") }
    }

    pub fn generate(rng: &mut Rng, thorough: bool) -> Vec<String> {
        let mut out = vec![];
        // all sequences of length <= 5 (6 thorough) over two keys x {add, waker} + clear
        let alphabet = ["a0.1.1.", "w0.1.1.", "a0.2.1.", "w0.2.1.", "a0.1.2.", "w0.1.2.", "x"];
        let depth = if thorough { 6 } else { 5 };
        let mut stack: Vec<Vec<usize>> = vec![vec![]];
        while let Some(seq) = stack.pop() {
            if !seq.is_empty() {
                let ops: Vec<String> = seq
                    .iter()
                    .enumerate()
                    .map(|(n, &k)| if alphabet[k] == "x" { "x".to_string() } else { format!("{}{}", alphabet[k], 10 + n) })
                    .collect();
                if seq.len() == depth {
                    out.push(format!("c13.coll {}", ops.join(",")));
                }
            }
            if seq.len() < depth {
                for k in 0..alphabet.len() {
                    let mut s = seq.clone();
                    s.push(k);
                    stack.push(s);
                }
            }
        }
        // random long sequences over more keys
        for _ in 0..(if thorough { 5000 } else { 500 }) {
            let n = 5 + rng.usize_below(60);
            let keys = 1 + rng.usize_below(6);
            let ops: Vec<String> = (0..n)
                .map(|j| {
                    let k = rng.usize_below(keys);
                    match rng.below(20) {
                        0 => "x".to_string(),
                        x if x < 10 => format!("a0.{}.{}.{}", k % 3, k / 3, 100 + j),
                        _ => format!("w0.{}.{}.{}", k % 3, k / 3, 200 + j),
                    }
                })
                .collect();
            out.push(format!("c13.coll {}", ops.join(",")));
        }
        out
    }

    #[test]
    fn verif_c13_collection() {
        run_suite("c13_collection", generate, exec);
    }
}

mod c13_channel {
    use std::{future::Future, num::NonZeroUsize, pin::Pin};

    use futures::future::join_all;
    use generic_array::{ArrayLength, GenericArray};
    use typenum::{U1, U2, U3, U4, U5, U7, U8, U12, U16, U24, U31, U32};

    use super::{
        super::GatewayConfig,
        c13_common::C13Msg,
        c13_config::parse_total,
    };
    use crate::{
        helpers::{ChannelId, Error, Role, TotalRecords},
        ipa_verif::proto::*,
        protocol::{Gate, RecordId},
        test_fixture::{TestWorld, TestWorldConfig},
        utils::NonZeroU32PowerOfTwo,
    };

    pub fn payload(g: usize, i: usize, sz: usize) -> Vec<u8> {
        (0..sz).map(|k| ((g * 131 + i * 17 + k * 29 + 7) % 256) as u8).collect()
    }

    async fn run_script<N: ArrayLength>(active: usize, read_size: usize, total: TotalRecords, script: &str) -> String {
        let active_p2 = NonZeroU32PowerOfTwo::try_from(active).expect("harness: active must be a power of two");
        let world = TestWorld::new_with(TestWorldConfig {
            gateway_config: GatewayConfig {
                active: active_p2,
                read_size: NonZeroUsize::new(read_size).unwrap(),
                ..Default::default()
            },
            ..Default::default()
        });
        let tx = world.gateway(Role::H1);
        let rx = world.gateway(Role::H2);
        let gate = |g: usize| Gate::from(format!("verif/g{g}").as_str());
        let mut futs: Vec<Pin<Box<dyn Future<Output = String> + '_>>> = vec![];
        for op in script.split(',') {
            let f: Vec<usize> = op[1..].split('.').map(|x| x.parse().unwrap()).collect();
            let (g, i) = (f[0], f[1]);
            match op.as_bytes()[0] {
                b's' => {
                    let end = tx.get_mpc_sender::<C13Msg<N>>(&ChannelId::new(Role::H2, gate(g)), total, active_p2);
                    futs.push(Box::pin(async move {
                        let m = C13Msg::<N>(GenericArray::try_from_iter(payload(g, i, N::USIZE)).unwrap());
                        match end.send(RecordId::from(i), m).await {
                            Ok(()) => "ok".to_string(),
                            Err(Error::TooManyRecords { .. }) => "err:TooManyRecords".to_string(),
                            Err(e) => format!("err:{e}"),
                        }
                    }));
                }
                b'r' => {
                    let end = rx.get_mpc_receiver::<C13Msg<N>>(&ChannelId::new(Role::H1, gate(g)));
                    futs.push(Box::pin(async move {
                        match end.receive(RecordId::from(i)).await {
                            Ok(m) => hex(&m.0),
                            Err(Error::EndOfStream { .. }) => "eos".to_string(),
                            Err(e) => format!("err:{e}"),
                        }
                    }));
                }
                _ => panic!("harness: bad op {op}"),
            }
        }
        let res = join_all(futs).await;
        res.join(";")
    }

    pub fn burst_digest(sz: usize, n: usize) -> u64 {
        const M: u64 = 1_000_000_007;
        (0..n).fold(0u64, |acc, i| {
            let inner = payload(0, i, sz).iter().fold(0u64, |a, &b| (a * 257 + u64::from(b) + 1) % M);
            (acc * 31 + inner) % M
        })
    }

    /// A channel opened with the window `w` on a gateway whose own window is `base`: the sender writes
    /// records `0..n` one after the other (each send polled to completion before the next) while the
    /// receiver does not poll at all; a send that does not complete at once is reported as `blocked`
    /// (nobody could ever wake it). Then the receiver takes all records in order.
    async fn run_burst<N: ArrayLength>(base: usize, read_size: usize, w: usize, n: usize) -> String {
        let world = TestWorld::new_with(TestWorldConfig {
            gateway_config: GatewayConfig {
                active: NonZeroU32PowerOfTwo::try_from(base).expect("harness: active must be a power of two"),
                read_size: NonZeroUsize::new(read_size).unwrap(),
                ..Default::default()
            },
            ..Default::default()
        });
        let tx = world.gateway(Role::H1);
        let rx = world.gateway(Role::H2);
        let gate = Gate::from("verif/g0");
        let total = TotalRecords::specified(n).unwrap();
        let w_p2 = NonZeroU32PowerOfTwo::try_from(w).expect("harness: window must be a power of two");
        let send_end = tx.get_mpc_sender::<C13Msg<N>>(&ChannelId::new(Role::H2, gate.clone()), total, w_p2);
        for i in 0..n {
            let m = C13Msg::<N>(GenericArray::try_from_iter(payload(0, i, N::USIZE)).unwrap());
            let fut = send_end.send(RecordId::from(i), m);
            futures::pin_mut!(fut);
            match futures::poll!(fut.as_mut()) {
                std::task::Poll::Ready(Ok(())) => {}
                std::task::Poll::Ready(Err(e)) => return format!("err:{e}"),
                std::task::Poll::Pending => return format!("blocked at={i}"),
            }
        }
        let recv_end = rx.get_mpc_receiver::<C13Msg<N>>(&ChannelId::new(Role::H1, gate));
        const M: u64 = 1_000_000_007;
        let mut acc = 0u64;
        for i in 0..n {
            match recv_end.receive(RecordId::from(i)).await {
                Ok(m) => {
                    let inner = m.0.iter().fold(0u64, |a, &b| (a * 257 + u64::from(b) + 1) % M);
                    acc = (acc * 31 + inner) % M;
                }
                Err(e) => return format!("err:receive({i}): {e}"),
            }
        }
        format!("ok n={n} digest={acc}")
    }

    fn exec_burst(t: &[&str]) -> String {
        let base: usize = t[1].parse().unwrap();
        let read_size: usize = t[2].parse().unwrap();
        let w: usize = t[3].parse().unwrap();
        let sz: usize = t[4].parse().unwrap();
        let n: usize = t[5].parse().unwrap();
        macro_rules! go {
            ($n:ty) => {
                block_on_timeout(30, run_burst::<$n>(base, read_size, w, n))
            };
        }
        let r = match sz {
            1 => go!(U1),
            2 => go!(U2),
            3 => go!(U3),
            4 => go!(U4),
            8 => go!(U8),
            32 => go!(U32),
            n => panic!("harness: unsupported message size {n}"),
        };
        match r {
            Ok(s) => s,
            Err(e) => e,
        }
    }

    pub fn exec(req: &str) -> String {
        let t: Vec<&str> = req.split(' ').collect();
        if t[0] == "c13.burst" {
            return exec_burst(&t);
        }
        assert_eq!(t[0], "c13.chan");
        let active: usize = t[1].parse().unwrap();
        let read_size: usize = t[2].parse().unwrap();
        let sz: usize = t[3].parse().unwrap();
        let total = parse_total(t[4]);
        let script = t[5].to_string();
        // a hang is the outcome `timeout`; after a few of them stop waiting long (a broken channel
        // would otherwise make the whole suite take hours)
        static TIMEOUTS: std::sync::atomic::AtomicUsize = std::sync::atomic::AtomicUsize::new(0);
        let secs = if TIMEOUTS.load(std::sync::atomic::Ordering::Relaxed) >= 2 { 1 } else { 5 };
        macro_rules! go {
            ($n:ty) => {
                block_on_timeout(secs, run_script::<$n>(active, read_size, total, &script))
            };
        }
        let r = match sz {
            1 => go!(U1),
            2 => go!(U2),
            3 => go!(U3),
            4 => go!(U4),
            5 => go!(U5),
            7 => go!(U7),
            8 => go!(U8),
            12 => go!(U12),
            16 => go!(U16),
            24 => go!(U24),
            31 => go!(U31),
            32 => go!(U32),
            n => panic!("harness: unsupported message size {n}"),
        };
        match r {
            Ok(s) => s,
            Err(e) => {
                TIMEOUTS.fetch_add(1, std::sync::atomic::Ordering::Relaxed);
                e
            }
        }
    }

    pub const SIZES: [usize; 12] = [1, 2, 3, 4, 5, 7, 8, 12, 16, 24, 31, 32];

    /// A script: gates 0..ng, on each gate sends of records 0..n in some order interleaved with the
    /// matching receives in some order; optionally sends beyond the total and a receive past the end.
    fn script(rng: &mut Rng, ng: usize, n: usize, specified: bool, mode: usize) -> String {
        let mut ops: Vec<String> = vec![];
        for g in 0..ng {
            let mut s: Vec<usize> = (0..n).collect();
            let mut r: Vec<usize> = (0..n).collect();
            match mode % 4 {
                0 => {}
                1 => {
                    s.reverse();
                }
                2 => {
                    r.reverse();
                }
                _ => {
                    rng.shuffle(&mut s);
                    rng.shuffle(&mut r);
                }
            }
            let mut mine: Vec<String> = vec![];
            match (mode / 4) % 3 {
                0 => {
                    mine.extend(s.iter().map(|i| format!("s{g}.{i}")));
                    mine.extend(r.iter().map(|i| format!("r{g}.{i}")));
                }
                1 => {
                    mine.extend(r.iter().map(|i| format!("r{g}.{i}")));
                    mine.extend(s.iter().map(|i| format!("s{g}.{i}")));
                }
                _ => {
                    for k in 0..n {
                        mine.push(format!("s{g}.{}", s[k]));
                        mine.push(format!("r{g}.{}", r[k]));
                    }
                }
            }
            if specified {
                // beyond the declared total: error, nothing is sent; past the end: end of stream
                mine.insert(rng.usize_below(mine.len() + 1), format!("s{g}.{}", n + rng.usize_below(3)));
                if mode % 2 == 0 {
                    mine.push(format!("r{g}.{n}"));
                }
            }
            // interleave the gates
            if g == 0 {
                ops = mine;
            } else {
                let mut merged = vec![];
                let (mut a, mut b) = (ops.into_iter(), mine.into_iter());
                loop {
                    match (a.next(), b.next()) {
                        (None, None) => break,
                        (x, y) => {
                            merged.extend(x);
                            merged.extend(y);
                        }
                    }
                }
                ops = merged;
            }
        }
        ops.join(",")
    }

    pub fn generate(rng: &mut Rng, thorough: bool) -> Vec<String> {
        let mut out = vec![];
        // boundaries: one record; exactly the window; more than the window; read size around record size
        for (a, rd, sz, n) in [(2usize, 1usize, 1usize, 1usize), (2, 1, 1, 2), (2, 1, 1, 5), (2, 4096, 3, 7), (4, 2, 3, 9), (16, 16, 1, 40), (4, 7, 7, 8), (2, 2048, 32, 6), (16, 5, 31, 33)] {
            for mode in [0usize, 1, 2, 7, 11] {
                out.push(format!("c13.chan {a} {rd} {sz} s{n} {}", script(rng, 1, n, true, mode)));
                out.push(format!("c13.chan {a} {rd} {sz} i {}", script(rng, 1, n, false, mode)));
            }
            out.push(format!("c13.chan {a} {rd} {sz} s{n} {}", script(rng, 2, n, true, 3)));
        }
        // a whole window outstanding before the peer reads: windows below, at and above the gateway's own
        // window (32768 by default; DZKP batches request more), exactly the window / one less / one more
        for &(base, rd, w, sz) in &[
            (2usize, 1usize, 2usize, 1usize), (2, 2048, 4, 3), (16, 2048, 4, 8), (2, 3, 16, 2), (32768, 2048, 64, 32), (16, 4096, 1024, 4),
            (32768, 2048, 32768, 1), (32768, 2048, 65536, 1), (2, 2048, 65536, 1),
        ] {
            if !thorough && w >= 32768 && base == 2 {
                continue;
            }
            for n in [w, w - 1, w + 1] {
                if w >= 32768 && n != w && !thorough {
                    continue;
                }
                out.push(format!("c13.burst {base} {rd} {w} {sz} {n}"));
            }
        }
        if thorough {
            out.push("c13.burst 32768 2048 131072 2 131072".to_string());
            out.push("c13.burst 32768 2048 65536 8 65536".to_string());
        }
        let n_cases = if thorough { 1500 } else { 150 };
        for k in 0..n_cases {
            let a = *rng.pick(&[2usize, 4, 16]);
            let sz = SIZES[k % SIZES.len()];
            let rd = *rng.pick(&[1usize, 2, 3, 8, 16, 64, 2048, 4096]);
            let n = 1 + rng.usize_below(if k % 7 == 0 { 70 } else { 3 * a });
            let specified = rng.below(3) != 0;
            let ng = if rng.below(4) == 0 { 2 } else { 1 };
            let mode = rng.usize_below(12);
            let tot = if specified { format!("s{n}") } else { "i".to_string() };
            out.push(format!("c13.chan {a} {rd} {sz} {tot} {}", script(rng, ng, n, specified, mode)));
        }
        out
    }

    #[test]
    fn verif_c13_channel() {
        run_suite("c13_channel", generate, exec);
    }
}

// ------------------------------------------------------------------------------------------------
// C13 — isolation "between steps, peers and shards" under TestWorld<WithShards<2>>: seven channel
// classes sharing the same gates and record ids, each with its own payload, all exchanged
// concurrently.   Request:  c13.iso <active> <read_size> <size> <i|s<n>> <op,…>
//   channel classes <c>:  0 = MPC, shard 0, H1 -> H2      1 = MPC, shard 0, H1 -> H3
//                         2 = MPC, shard 0, H3 -> H2      3 = MPC, shard 1, H1 -> H2
//                         4 = shard channel on H1, shard 0 -> shard 1
//                         5 = shard channel on H1, shard 1 -> shard 0
//                         6 = shard channel on H2, shard 0 -> shard 1
//   ops:  s<c>.<g>.<i>  send record i on gate g of class c (payload c g i)
//         r<c>.<g>.<i>  c <= 3: `MpcReceivingEnd::receive(i)`;  c >= 4: take the next <i> records of the
//                       `ShardReceivingEnd` stream (FIFO; one such op per shard channel)
//   response per op: ok | err:TooManyRecords | <hex> | eos | <hex>+<hex>+… (`-` = none)
// ------------------------------------------------------------------------------------------------
mod c13_iso {
    use std::{future::Future, num::NonZeroUsize, pin::Pin};

    use futures::{StreamExt, future::join_all};
    use generic_array::{ArrayLength, GenericArray};
    use typenum::{U3, U8};

    use super::{
        super::GatewayConfig,
        c13_common::C13Msg,
        c13_config::parse_total,
    };
    use crate::{
        helpers::{ChannelId, Error, Role, TotalRecords},
        ipa_verif::proto::*,
        protocol::{Gate, RecordId},
        sharding::ShardIndex,
        test_fixture::{TestWorld, TestWorldConfig, WithShards},
        utils::NonZeroU32PowerOfTwo,
    };

    pub fn payload(c: usize, g: usize, i: usize, sz: usize) -> Vec<u8> {
        (0..sz).map(|k| ((c * 53 + g * 131 + i * 17 + k * 29 + 7) % 256) as u8).collect()
    }

    /// (role, own shard, peer role / peer shard)
    fn class(c: usize) -> (Role, usize, Role, usize) {
        match c {
            0 => (Role::H1, 0, Role::H2, 0),
            1 => (Role::H1, 0, Role::H3, 0),
            2 => (Role::H3, 0, Role::H2, 0),
            3 => (Role::H1, 1, Role::H2, 1),
            4 => (Role::H1, 0, Role::H1, 1),
            5 => (Role::H1, 1, Role::H1, 0),
            6 => (Role::H2, 0, Role::H2, 1),
            _ => panic!("harness: bad channel class {c}"),
        }
    }

    async fn run_script<N: ArrayLength>(active: usize, read_size: usize, total: TotalRecords, script: &str) -> String {
        let active_p2 = NonZeroU32PowerOfTwo::try_from(active).expect("harness: active must be a power of two");
        let world: TestWorld<WithShards<2>> = TestWorld::with_shards(TestWorldConfig {
            gateway_config: GatewayConfig {
                active: active_p2,
                read_size: NonZeroUsize::new(read_size).unwrap(),
                ..Default::default()
            },
            ..Default::default()
        });
        let gate = |g: usize| Gate::from(format!("verif/g{g}").as_str());
        let sh = |s: usize| ShardIndex::from(u32::try_from(s).unwrap());
        let mut futs: Vec<Pin<Box<dyn Future<Output = String> + '_>>> = vec![];
        for op in script.split(',') {
            let f: Vec<usize> = op[1..].split('.').map(|x| x.parse().unwrap()).collect();
            let (c, g, i) = (f[0], f[1], f[2]);
            let (role, shard, peer_role, peer_shard) = class(c);
            match (op.as_bytes()[0], c <= 3) {
                (b's', true) => {
                    let end = world
                        .gateway(role, sh(shard))
                        .get_mpc_sender::<C13Msg<N>>(&ChannelId::new(peer_role, gate(g)), total, active_p2);
                    futs.push(Box::pin(async move {
                        let m = C13Msg::<N>(GenericArray::try_from_iter(payload(c, g, i, N::USIZE)).unwrap());
                        match end.send(RecordId::from(i), m).await {
                            Ok(()) => "ok".to_string(),
                            Err(Error::TooManyRecords { .. }) => "err:TooManyRecords".to_string(),
                            Err(e) => format!("err:{e}"),
                        }
                    }));
                }
                (b's', false) => {
                    let end = world
                        .gateway(role, sh(shard))
                        .get_shard_sender::<C13Msg<N>>(&ChannelId::new(sh(peer_shard), gate(g)), total);
                    futs.push(Box::pin(async move {
                        let m = C13Msg::<N>(GenericArray::try_from_iter(payload(c, g, i, N::USIZE)).unwrap());
                        match end.send(RecordId::from(i), m).await {
                            Ok(()) => "ok".to_string(),
                            Err(Error::TooManyRecords { .. }) => "err:TooManyRecords".to_string(),
                            Err(e) => format!("err:{e}"),
                        }
                    }));
                }
                (b'r', true) => {
                    // the receiver of class c lives on the PEER helper, same shard, and names the sender
                    let end = world
                        .gateway(peer_role, sh(peer_shard))
                        .get_mpc_receiver::<C13Msg<N>>(&ChannelId::new(role, gate(g)));
                    futs.push(Box::pin(async move {
                        match end.receive(RecordId::from(i)).await {
                            Ok(m) => hex(&m.0),
                            Err(Error::EndOfStream { .. }) => "eos".to_string(),
                            Err(e) => format!("err:{e}"),
                        }
                    }));
                }
                (b'r', false) => {
                    let end = world
                        .gateway(peer_role, sh(peer_shard))
                        .get_shard_receiver::<C13Msg<N>>(&ChannelId::new(sh(shard), gate(g)));
                    futs.push(Box::pin(async move {
                        let items: Vec<_> = end.take(i).collect().await;
                        let v: Vec<String> = items
                            .into_iter()
                            .map(|r| match r {
                                Ok(m) => hex(&m.0),
                                Err(e) => format!("err:{e}"),
                            })
                            .collect();
                        if v.is_empty() { "-".to_string() } else { v.join("+") }
                    }));
                }
                _ => panic!("harness: bad op {op}"),
            }
        }
        let res = join_all(futs).await;
        res.join(";")
    }

    pub fn exec(req: &str) -> String {
        let t: Vec<&str> = req.split(' ').collect();
        assert_eq!(t[0], "c13.iso");
        let active: usize = t[1].parse().unwrap();
        let read_size: usize = t[2].parse().unwrap();
        let sz: usize = t[3].parse().unwrap();
        let total = parse_total(t[4]);
        let script = t[5].to_string();
        static TIMEOUTS: std::sync::atomic::AtomicUsize = std::sync::atomic::AtomicUsize::new(0);
        let secs = if TIMEOUTS.load(std::sync::atomic::Ordering::Relaxed) >= 2 { 1 } else { 5 };
        let r = match sz {
            3 => block_on_timeout(secs, run_script::<U3>(active, read_size, total, &script)),
            8 => block_on_timeout(secs, run_script::<U8>(active, read_size, total, &script)),
            n => panic!("harness: unsupported message size {n}"),
        };
        match r {
            Ok(s) => s,
            Err(e) => {
                TIMEOUTS.fetch_add(1, std::sync::atomic::Ordering::Relaxed);
                e
            }
        }
    }

    /// `classes` × gates 0..ng: n records each, sends and receives of all channels interleaved.
    fn script(rng: &mut Rng, classes: &[usize], ng: usize, n: usize, specified: bool, mode: usize) -> String {
        let mut per_chan: Vec<Vec<String>> = vec![];
        for &c in classes {
            for g in 0..ng {
                let mut s: Vec<usize> = (0..n).collect();
                let mut r: Vec<usize> = (0..n).collect();
                match mode % 3 {
                    0 => {}
                    1 => s.reverse(),
                    _ => {
                        rng.shuffle(&mut s);
                        rng.shuffle(&mut r);
                    }
                }
                let mut mine: Vec<String> = s.iter().map(|i| format!("s{c}.{g}.{i}")).collect();
                if c <= 3 {
                    let recvs: Vec<String> = r.iter().map(|i| format!("r{c}.{g}.{i}")).collect();
                    if (mode / 3) % 2 == 0 {
                        mine.extend(recvs);
                    } else {
                        let mut v = recvs;
                        v.extend(mine);
                        mine = v;
                    }
                    if specified && mode % 2 == 0 {
                        mine.push(format!("r{c}.{g}.{n}")); // past the end
                    }
                } else {
                    let at = if (mode / 3) % 2 == 0 { mine.len() } else { 0 };
                    mine.insert(at, format!("r{c}.{g}.{n}"));
                }
                if specified {
                    mine.push(format!("s{c}.{g}.{}", n + rng.usize_below(2))); // beyond the total
                }
                per_chan.push(mine);
            }
        }
        // round-robin interleaving of all channels
        let mut ops = vec![];
        let mut its: Vec<_> = per_chan.into_iter().map(Vec::into_iter).collect();
        loop {
            let mut any = false;
            for it in &mut its {
                if let Some(x) = it.next() {
                    ops.push(x);
                    any = true;
                }
            }
            if !any {
                break;
            }
        }
        ops.join(",")
    }

    pub fn generate(rng: &mut Rng, thorough: bool) -> Vec<String> {
        let mut out = vec![];
        let all: Vec<usize> = (0..7).collect();
        // every class alone, pairs that differ only in the peer / only in the shard / only in the gate, all together
        for (a, rd, sz, n) in [(2usize, 1usize, 3usize, 1usize), (2, 3, 3, 2), (2, 4096, 8, 5), (4, 16, 3, 9), (16, 8, 8, 20)] {
            for c in 0..7 {
                out.push(format!("c13.iso {a} {rd} {sz} s{n} {}", script(rng, &[c], 1, n, true, c)));
            }
            for (k, cl) in [vec![0usize, 1], vec![0, 2], vec![0, 3], vec![4, 5], vec![4, 6], vec![0, 4], vec![3, 5, 6]].iter().enumerate() {
                out.push(format!("c13.iso {a} {rd} {sz} s{n} {}", script(rng, cl, 2, n, true, k)));
                out.push(format!("c13.iso {a} {rd} {sz} i {}", script(rng, cl, 1, n, false, k + 1)));
            }
            out.push(format!("c13.iso {a} {rd} {sz} s{n} {}", script(rng, &all, 2, n, true, 2)));
            out.push(format!("c13.iso {a} {rd} {sz} i {}", script(rng, &all, 2, n, false, 5)));
        }
        for k in 0..(if thorough { 600 } else { 60 }) {
            let a = *rng.pick(&[2usize, 4, 16]);
            let sz = *rng.pick(&[3usize, 8]);
            let rd = *rng.pick(&[1usize, 3, 8, 64, 4096]);
            let n = 1 + rng.usize_below(3 * a);
            let specified = rng.below(3) != 0;
            let mut cl = all.clone();
            rng.shuffle(&mut cl);
            cl.truncate(2 + rng.usize_below(5));
            let tot = if specified { format!("s{n}") } else { "i".to_string() };
            let mode = rng.usize_below(6);
            out.push(format!("c13.iso {a} {rd} {sz} {tot} {}", script(rng, &cl, 1 + k % 2, n, specified, mode)));
        }
        out
    }

    #[test]
    fn verif_c13_iso() {
        run_suite("c13_iso", generate, exec);
    }
}
