// Suites that need access to items private to this module (feature ipa-verif, test builds only).
//
// This file is `include!`d as `helpers::buffers::ipa_verif_hook`; `super::circular` (private to
// `helpers::buffers`) is visible from here.

// ------------------------------------------------------------------------------------------------
// C14 (a): CircularBuf as a FIFO byte queue.   Request:  c14.circ <cap> <ws> <rs> <op,op,…>
//   ops: w<hex> = next().write(bytes) | t = take() | c = close()
//   response: `<out>|<len>|<can_read>|<can_write>|<closed>` per op, `;`-separated, where <out> is
//   `ok` or the hex of the bytes returned by take (`-` = none); the trace ends with
//   `panic:<tag>` at the first panic.
// ------------------------------------------------------------------------------------------------
mod c14_circ {
    use super::super::circular::CircularBuf;
    use crate::ipa_verif::proto::*;

    /// Panic messages are reduced to a stable tag (a substring of the Rust message).
    pub fn c14_panic_tag(msg: &str) -> String {
        const TAGS: &[&str] = &[
            "must all be greater than zero",
            "write size must divide capacity",
            "write size must divide read_size",
            "Already closed",
            "Writing to a closed buffer",
            "Not enough space for the next write",
            "Expect to keep messages of size",
        ];
        for t in TAGS {
            if msg.contains(t) {
                return format!("panic:{t}");
            }
        }
        msg.to_string()
    }

    fn b(x: bool) -> &'static str {
        if x { "1" } else { "0" }
    }

    fn obs(buf: &CircularBuf) -> String {
        format!("{}|{}|{}|{}", buf.len(), b(buf.can_read()), b(buf.can_write()), b(buf.is_closed()))
    }

    pub fn exec(req: &str) -> String {
        let t: Vec<&str> = req.split(' ').collect();
        assert_eq!(t[0], "c14.circ");
        let cap: usize = t[1].parse().unwrap();
        let ws: usize = t[2].parse().unwrap();
        let rs: usize = t[3].parse().unwrap();
        let mut buf = match guarded(|| CircularBuf::new(cap, ws, rs)) {
            Ok(b) => b,
            Err(p) => return c14_panic_tag(&p),
        };
        let mut out: Vec<String> = vec![];
        if t[4] != "-" {
            for op in t[4].split(',') {
                let r = match op.as_bytes()[0] {
                    b'w' => {
                        let m = unhex(if op.len() == 1 { "-" } else { &op[1..] });
                        guarded(|| {
                            buf.next().write(m.as_slice());
                            "ok".to_string()
                        })
                    }
                    b't' => guarded(|| hex(&buf.take())),
                    b'c' => guarded(|| {
                        buf.close();
                        "ok".to_string()
                    }),
                    _ => panic!("harness: bad op {op}"),
                };
                match r {
                    Ok(s) => out.push(format!("{s}|{}", obs(&buf))),
                    Err(p) => {
                        out.push(c14_panic_tag(&p));
                        break;
                    }
                }
            }
        }
        if out.is_empty() { "-".into() } else { out.join(";") }
    }

    /// Generator-side bookkeeping (only used to prune sequences after a rejected operation).
    #[derive(Clone)]
    struct Track {
        len: usize,
        closed: bool,
        ctr: usize,
    }

    fn msg(tr: &mut Track, n: usize) -> String {
        let v: Vec<u8> = (0..n)
            .map(|_| {
                tr.ctr += 1;
                (tr.ctr % 251) as u8
            })
            .collect();
        format!("w{}", if v.is_empty() { String::new() } else { hex(&v) })
    }

    /// All operation sequences up to `depth` (a sequence stops after an op the reference rejects).
    fn dfs(cap: usize, ws: usize, rs: usize, depth: usize, tr: Track, cur: &mut Vec<String>, out: &mut Vec<String>) {
        if depth == 0 {
            out.push(format!("c14.circ {cap} {ws} {rs} {}", cur.join(",")));
            return;
        }
        for op in 0..3 {
            let mut t2 = tr.clone();
            let (s, rejected) = match op {
                0 => {
                    let rej = t2.closed || cap - t2.len < ws;
                    let s = msg(&mut t2, ws);
                    t2.len += ws;
                    (s, rej)
                }
                1 => {
                    if (t2.closed && t2.len > 0) || t2.len >= rs {
                        t2.len -= rs.min(t2.len);
                    }
                    ("t".to_string(), false)
                }
                _ => {
                    let rej = t2.closed;
                    t2.closed = true;
                    ("c".to_string(), rej)
                }
            };
            cur.push(s);
            if rejected {
                out.push(format!("c14.circ {cap} {ws} {rs} {}", cur.join(",")));
            } else {
                dfs(cap, ws, rs, depth - 1, t2, cur, out);
            }
            cur.pop();
        }
    }

    pub fn generate(rng: &mut Rng, thorough: bool) -> Vec<String> {
        let mut out = vec![];
        // constructor: boundary and rejected configurations
        for (c, w, r) in [
            (0, 1, 1), (1, 0, 1), (1, 1, 0), (0, 0, 0), (4, 3, 3), (6, 4, 4), (6, 2, 3), (6, 3, 2), (4, 2, 1),
            (1, 1, 1), (2, 2, 2), (2, 1, 4), (4, 2, 8), (3, 3, 3),
        ] {
            out.push(format!("c14.circ {c} {w} {r} -"));
        }
        // exhaustive to depth over a grid (read_size ∤ capacity, read_size > capacity included)
        let grid: &[(usize, usize, usize)] = &[
            (1, 1, 1), (2, 1, 1), (2, 1, 2), (3, 1, 2), (4, 2, 2), (4, 1, 3), (6, 2, 4), (6, 3, 3), (6, 3, 6),
            (8, 2, 4), (5, 1, 2), (3, 1, 3), (4, 2, 8), (2, 2, 4), (9, 3, 6),
        ];
        let depth = if thorough { 12 } else { 10 };
        for &(c, w, r) in grid {
            dfs(c, w, r, depth, Track { len: 0, closed: false, ctr: 0 }, &mut vec![], &mut out);
        }
        // random long walks over larger configurations
        let n = if thorough { 6000 } else { 600 };
        for k in 0..n {
            let ws = *rng.pick(&[1usize, 1, 2, 3, 4, 5, 8, 16]);
            let cap = ws * (1 + rng.usize_below(if k % 3 == 0 { 4 } else { 24 }));
            let rs = if rng.below(8) == 0 {
                ws * (1 + rng.usize_below(2 * cap / ws + 1))
            } else {
                ws * (1 + rng.usize_below(cap / ws))
            };
            let steps = 10 + rng.usize_below(if thorough { 400 } else { 120 });
            let mut tr = Track { len: 0, closed: false, ctr: rng.usize_below(251) };
            let mut ops = vec![];
            // phases: mostly-write, mostly-read alternate so the cursors wrap many times
            let mut bias = 70;
            for i in 0..steps {
                if i % 17 == 0 {
                    bias = *rng.pick(&[20u64, 50, 80, 95]);
                }
                let x = rng.below(100);
                if x < bias {
                    let wrong = rng.below(200) == 0;
                    let n = if wrong { ws + 1 - 2 * rng.usize_below(2).min(ws) } else { ws };
                    let rej = tr.closed || cap - tr.len < ws || n != ws;
                    ops.push(msg(&mut tr, n));
                    if rej {
                        if rng.below(4) == 0 {
                            break; // keep the rejected write as the last op
                        }
                        ops.pop();
                        ops.push("t".into());
                        if (tr.closed && tr.len > 0) || tr.len >= rs {
                            tr.len -= rs.min(tr.len);
                        }
                    } else {
                        tr.len += ws;
                    }
                } else if x < 99 || tr.closed {
                    ops.push("t".into());
                    if (tr.closed && tr.len > 0) || tr.len >= rs {
                        tr.len -= rs.min(tr.len);
                    }
                } else {
                    ops.push("c".into());
                    tr.closed = true;
                }
            }
            if rng.below(3) == 0 && !tr.closed {
                ops.push("c".into());
                for _ in 0..(cap / rs.min(cap) + 2) {
                    ops.push("t".into());
                }
            }
            out.push(format!("c14.circ {cap} {ws} {rs} {}", ops.join(",")));
        }
        out
    }

    #[test]
    fn verif_c14_circ() {
        run_suite("c14_circ", generate, exec);
    }
}
